#!/bin/bash
# dev tool: validate MANIFEST.json and every evidence file against the schemas
python3-vt - <<'PY'
import json,jsonschema,glob
jsonschema.validate(json.load(open('/verif/MANIFEST.json')),json.load(open('/root/.vp/MANIFEST.schema.json')))
s=json.load(open('/root/.vp/EVIDENCE.schema.json'))
for f in sorted(glob.glob('/verif/evidence/*.json')):
    try: jsonschema.validate(json.load(open(f)),s)
    except Exception as e: print("INVALID",f,str(e)[:200])
print("validated")
PY
