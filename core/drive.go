package core

import (
	"bufio"
	"context"
	"encoding/json"
	"fmt"
	"io/ioutil"
	"os"
	"os/exec"
	"path/filepath"
	"regexp"
	"sort"
	"strconv"
	"strings"
	"sync"
	"syscall"
	"time"
)

// Finding is one entry of known_findings.json.
type Finding struct {
	Property string `json:"property"`
	Key      string `json:"key"`
	Status   string `json:"status"` // known | fixed
	Commit   string `json:"commit,omitempty"`
	What     string `json:"what"`
}

type findingsFile struct {
	Findings []Finding `json:"findings"`
}

// VerifDir is the root of the verification tree.
func VerifDir() string {
	if d := os.Getenv("VERIF_DIR"); d != "" {
		return d
	}
	return "/verif"
}

func loadFindings() map[string]Finding {
	m := map[string]Finding{}
	b, err := ioutil.ReadFile(filepath.Join(VerifDir(), "known_findings.json"))
	if err != nil {
		return m
	}
	var f findingsFile
	if json.Unmarshal(b, &f) != nil {
		return m
	}
	for _, e := range f.Findings {
		if e.Status == "known" {
			m[e.Key] = e
		}
	}
	return m
}

type shardResult struct {
	shard    int
	lastCase string
	done     bool
	exitErr  error
	timedOut bool
	viols    []line
	inconc   []line
	counters map[string]int64
	sigs     []uint64
	samples  []interface{}
	logPath  string
	races    []raceReport
}

type raceReport struct {
	Key   string
	Block string
}

// workerExe is this binary (or its -race sibling for race-detector properties).
func workerExe(p *Prop) string {
	exe, err := os.Executable()
	if err != nil {
		exe = filepath.Join(VerifDir(), "bin", "vworker")
	}
	if p.Race && !strings.HasSuffix(exe, "-race") {
		exe += "-race"
	}
	return exe
}

// Drive runs a whole check and returns the process exit code.
func Drive(id, tier string, seed int64) int {
	p := Lookup(id)
	if p == nil {
		fmt.Println("unknown property", id)
		return 2
	}
	start := time.Now()
	root := VerifDir()
	for _, d := range []string{"evidence", "replays", "logs"} {
		os.MkdirAll(filepath.Join(root, d), 0o755)
	}
	exe := workerExe(p)
	n := 1
	if p.Shards != nil {
		n = p.Shards(tier)
	}
	tmo := 600
	if p.TimeoutSec != nil {
		tmo = p.TimeoutSec(tier)
	}
	results := make([]*shardResult, n)
	var wg sync.WaitGroup
	for i := 0; i < n; i++ {
		wg.Add(1)
		go func(i int) {
			defer wg.Done()
			results[i] = runShard(p, exe, tier, seed, i, n, "", time.Duration(tmo)*time.Second)
		}(i)
	}
	wg.Wait()
	return conclude(p, tier, seed, results, start)
}

func runShard(p *Prop, exe, tier string, seed int64, shard, n int, only string, tmo time.Duration) *shardResult {
	root := VerifDir()
	res := &shardResult{shard: shard, counters: map[string]int64{}}
	res.logPath = filepath.Join(root, "logs", fmt.Sprintf("%s-%s-s%d-%d.log", p.ID, tier, seed, shard))
	logf, err := os.Create(res.logPath)
	if err != nil {
		res.exitErr = err
		return res
	}
	defer logf.Close()
	ctx, cancel := context.WithTimeout(context.Background(), tmo)
	defer cancel()
	args := []string{"worker", p.ID, "--tier", tier, "--seed", strconv.FormatInt(seed, 10),
		"--shard", strconv.Itoa(shard), "--nshards", strconv.Itoa(n)}
	if only != "" {
		args = append(args, "--only", only)
	}
	cmd := exec.CommandContext(ctx, exe, args...)
	cmd.Stderr = logf
	cmd.Env = append(os.Environ(), "GOTRACEBACK=all")
	racePrefix := ""
	if p.Race {
		racePrefix = filepath.Join(root, "logs", fmt.Sprintf("race-%s-%s-s%d-%d", p.ID, tier, seed, shard))
		old, _ := filepath.Glob(racePrefix + ".*")
		for _, f := range old {
			os.Remove(f)
		}
		cmd.Env = append(cmd.Env, "GORACE=halt_on_error=0 history_size=5 log_path="+racePrefix)
	}
	cmd.Cancel = func() error {
		res.timedOut = true
		return cmd.Process.Signal(syscall.SIGQUIT)
	}
	cmd.WaitDelay = 10 * time.Second
	out, err := cmd.StdoutPipe()
	if err != nil {
		res.exitErr = err
		return res
	}
	if err := cmd.Start(); err != nil {
		res.exitErr = err
		return res
	}
	sc := bufio.NewScanner(out)
	sc.Buffer(make([]byte, 1<<20), 1<<28)
	for sc.Scan() {
		var l line
		if json.Unmarshal(sc.Bytes(), &l) != nil {
			fmt.Fprintf(logf, "stdout: %s\n", sc.Text())
			continue
		}
		switch l.T {
		case "case":
			res.lastCase = l.Case
		case "viol":
			res.viols = append(res.viols, l)
		case "inconclusive":
			res.inconc = append(res.inconc, l)
		case "done":
			res.done = true
			res.counters = l.Counter
			res.sigs = l.Sigs
			res.samples = l.Samples
		}
	}
	res.exitErr = cmd.Wait()
	if p.Race {
		res.races = parseRaceLogs(racePrefix)
	}
	return res
}

var frameRe = regexp.MustCompile(`^\s+(\S+)\(.*\)$|^\s+(\S+)\(\)$`)

// parseRaceLogs splits the race detector's log into reports and reduces each
// to the pair of innermost go-netty functions of the two conflicting accesses.
func parseRaceLogs(prefix string) []raceReport {
	files, _ := filepath.Glob(prefix + ".*")
	var reps []raceReport
	for _, f := range files {
		b, err := ioutil.ReadFile(f)
		if err != nil {
			continue
		}
		blocks := strings.Split(string(b), "WARNING: DATA RACE")
		for _, blk := range blocks[1:] {
			if i := strings.Index(blk, "=================="); i >= 0 {
				blk = blk[:i]
			}
			reps = append(reps, raceReport{Key: raceKey(blk), Block: "WARNING: DATA RACE" + blk})
		}
	}
	return reps
}

func raceKey(blk string) string {
	// sections: first access, "Previous ..." access, then goroutine creation stacks.
	secs := regexp.MustCompile(`\n\n`).Split(blk, -1)
	var fns []string
	for _, s := range secs {
		s = strings.TrimLeft(s, "\n")
		head := strings.SplitN(s, "\n", 2)[0]
		if !(strings.HasPrefix(head, "Read at") || strings.HasPrefix(head, "Write at") ||
			strings.HasPrefix(head, "Previous read at") || strings.HasPrefix(head, "Previous write at") ||
			strings.HasPrefix(head, "Atomic") || strings.HasPrefix(head, "Previous atomic")) {
			continue
		}
		fn := ""
		for _, ln := range strings.Split(s, "\n")[1:] {
			t := strings.TrimSpace(ln)
			if strings.HasPrefix(t, "github.com/go-netty/go-netty") {
				if i := strings.Index(t, "("); i > 0 {
					// keep receiver "(*channel).Close" intact: cut at the argument list
					t = cutArgs(t)
				}
				fn = strings.TrimPrefix(t, "github.com/go-netty/go-netty")
				break
			}
		}
		if fn == "" {
			fn = "<outside-go-netty>"
		}
		fns = append(fns, fn)
	}
	sort.Strings(fns)
	return strings.Join(fns, " | ")
}

func cutArgs(t string) string {
	// function lines look like pkg.(*T).Method(...)  or pkg.fn(...) or pkg.fn.func1()
	depth := 0
	last := -1
	for i, r := range t {
		switch r {
		case '(':
			if depth == 0 {
				last = i
			}
			depth++
		case ')':
			depth--
		}
	}
	if last > 0 {
		// the last top-level "(" starts the argument list
		return t[:last]
	}
	return t
}

func conclude(p *Prop, tier string, seed int64, results []*shardResult, start time.Time) int {
	root := VerifDir()
	known := loadFindings()
	counters := map[string]int64{}
	sigs := map[uint64]struct{}{}
	var samples []interface{}
	var infra []string
	type viol struct {
		l     line
		shard int
	}
	var viols []viol
	nInconc := 0
	var inconcNotes []string
	for _, r := range results {
		for k, v := range r.counters {
			if strings.HasPrefix(k, "max_") {
				if v > counters[k] {
					counters[k] = v
				}
			} else {
				counters[k] += v
			}
		}
		for _, s := range r.sigs {
			sigs[s] = struct{}{}
		}
		if len(samples) < 6 {
			samples = append(samples, r.samples...)
		}
		for _, v := range r.viols {
			viols = append(viols, viol{v, r.shard})
		}
		nInconc += len(r.inconc)
		for _, ic := range r.inconc {
			if len(inconcNotes) < 4 {
				inconcNotes = append(inconcNotes, ic.Case+": "+ic.Reason)
			}
		}
		if !r.done {
			what := fmt.Sprintf("worker shard %d ended abnormally (timedOut=%v err=%v) last case=%q log=%s",
				r.shard, r.timedOut, r.exitErr, r.lastCase, r.logPath)
			if p.CrashIsViolation && !r.timedOut {
				viols = append(viols, viol{line{T: "viol", Key: p.ID + ":process-crash", Case: r.lastCase,
					What: what, Replay: map[string]interface{}{"log_tail": tail(r.logPath, 60)}}, r.shard})
			} else {
				infra = append(infra, what)
			}
		}
		// race reports
		seen := map[string]bool{}
		for _, rr := range r.races {
			if rr.Key == "" || seen[rr.Key] {
				continue
			}
			seen[rr.Key] = true
			counters["race_reports"]++
			if !strings.Contains(rr.Key, "/") && !strings.Contains(rr.Key, ".") {
				// neither access stack touches go-netty code: a fault of the harness itself
				infra = append(infra, "race report outside go-netty code (harness fault): "+firstLines(rr.Block, 14))
				continue
			}
			viols = append(viols, viol{line{T: "viol", Key: p.ID + ":race:" + rr.Key, Case: "race-detector",
				What:   "data race reported by the Go race detector between " + rr.Key,
				Replay: map[string]interface{}{"report": rr.Block}}, r.shard})
		}
	}
	sort.SliceStable(viols, func(i, j int) bool { return viols[i].l.Key < viols[j].l.Key })

	exit := 0
	knownPrinted := map[string]bool{}
	violPrinted := map[string]int{}
	nViol := 0
	for _, v := range viols {
		if kf, ok := known[v.l.Key]; ok && kf.Property == p.ID {
			if !knownPrinted[v.l.Key] {
				knownPrinted[v.l.Key] = true
				fmt.Printf("KNOWN-FINDING: property=%s %s [%s]\n", p.ID, kf.What, v.l.Key)
			}
			counters["known_finding_hits"]++
			continue
		}
		nViol++
		violPrinted[v.l.Key]++
		if violPrinted[v.l.Key] > 2 {
			continue
		}
		path := filepath.Join(root, "replays", fmt.Sprintf("%s-%s-s%d-%d.json", p.ID, sanitize(v.l.Key), seed, violPrinted[v.l.Key]))
		rep := map[string]interface{}{
			"property": p.ID, "key": v.l.Key, "case": v.l.Case, "what": v.l.What,
			"seed": seed, "tier": tier, "shard": v.shard, "nshards": len(results), "detail": v.l.Replay,
		}
		b, _ := json.MarshalIndent(rep, "", " ")
		ioutil.WriteFile(path, b, 0o644)
		fmt.Printf("VIOLATION property=%s replay=%s\n", p.ID, path)
		fmt.Printf("  key=%s case=%s\n  %s\n", v.l.Key, v.l.Case, v.l.What)
		exit = 1
	}
	if counters["aborted_after_watchdogs"] > 0 {
		infra = append(infra, fmt.Sprintf("%d worker(s) gave up after repeated trial watchdog expiries (system under test stuck); see logs", counters["aborted_after_watchdogs"]))
	}
	for _, k := range p.Required {
		if counters[k] == 0 {
			infra = append(infra, "required counter "+k+" is zero: the run observed nothing for it")
		}
	}
	if len(sigs) < 2 {
		infra = append(infra, fmt.Sprintf("only %d distinct non-trivial cases observed", len(sigs)))
	}
	if exit == 0 && len(infra) > 0 {
		exit = 2
	}
	for _, s := range infra {
		fmt.Println("INCONCLUSIVE:", s)
	}
	for _, s := range inconcNotes {
		fmt.Println("note: inconclusive trial", s)
	}

	cov := map[string]interface{}{
		"evaluations":         counters["cases"],
		"distinct_nontrivial": len(sigs),
		"rule":                p.Rule,
		"samples":             samples,
		"counters":            counters,
		"inconclusive_trials": counters["inconclusive"],
		"inconclusive_notes":  inconcNotes,
		"worker_processes":    len(results),
	}
	if p.Exhaustive != nil && p.Exhaustive(tier) {
		cov["exhaustive"] = true
	}
	if len(samples) == 0 {
		cov["samples"] = []interface{}{"(none recorded)"}
	}
	ev := map[string]interface{}{
		"property_id": p.ID,
		"tier":        tier,
		"seed":        seed,
		"level":       p.Level,
		"coverage":    cov,
		"assumptions": p.Assumptions,
		"wall_s":      time.Since(start).Seconds(),
		"violations":  nViol,
		"verdict":     map[int]string{0: "held on everything explored", 1: "violated", 2: "inconclusive"}[exit],
	}
	if len(knownPrinted) > 0 {
		var ks []string
		for k := range knownPrinted {
			ks = append(ks, k)
		}
		sort.Strings(ks)
		ev["known_findings_observed"] = ks
	}
	b, _ := json.MarshalIndent(ev, "", " ")
	ioutil.WriteFile(filepath.Join(root, "evidence", p.ID+".json"), append(b, '\n'), 0o644)
	fmt.Printf("%s tier=%s seed=%d cases=%d distinct=%d violations=%d inconclusive_trials=%d wall=%.1fs exit=%d\n",
		p.ID, tier, seed, counters["cases"], len(sigs), nViol, counters["inconclusive"], time.Since(start).Seconds(), exit)
	return exit
}

func sanitize(s string) string {
	out := []rune{}
	for _, r := range s {
		if (r >= 'a' && r <= 'z') || (r >= 'A' && r <= 'Z') || (r >= '0' && r <= '9') || r == '-' || r == '_' {
			out = append(out, r)
		} else {
			out = append(out, '_')
		}
	}
	if len(out) > 80 {
		out = out[:80]
	}
	return string(out)
}

func tail(path string, n int) []string {
	b, err := ioutil.ReadFile(path)
	if err != nil {
		return nil
	}
	lines := strings.Split(string(b), "\n")
	// keep the head of the dump (panic message + first goroutine) rather than the end
	if len(lines) > n {
		lines = lines[:n]
	}
	return lines
}

// Replay re-runs the single case stored in a replay file.
func Replay(path string) int {
	b, err := ioutil.ReadFile(path)
	if err != nil {
		fmt.Println(err)
		return 2
	}
	var rep struct {
		Property string `json:"property"`
		Case     string `json:"case"`
		Seed     int64  `json:"seed"`
		Tier     string `json:"tier"`
		Shard    int    `json:"shard"`
		NShards  int    `json:"nshards"`
	}
	if err := json.Unmarshal(b, &rep); err != nil {
		fmt.Println(err)
		return 2
	}
	p := Lookup(rep.Property)
	if p == nil {
		return 2
	}
	exe := workerExe(p)
	r := runShard(p, exe, rep.Tier, rep.Seed, rep.Shard, rep.NShards, rep.Case, 10*time.Minute)
	if len(r.viols) > 0 || len(r.races) > 0 || (!r.done && p.CrashIsViolation) {
		for _, v := range r.viols {
			fmt.Printf("REPRODUCED key=%s case=%s\n  %s\n", v.Key, v.Case, v.What)
		}
		if !r.done {
			fmt.Printf("REPRODUCED worker crash, log=%s\n", r.logPath)
		}
		return 1
	}
	fmt.Println("not reproduced on this run (the stored history in the replay file remains the witness)")
	return 0
}

func firstLines(s string, n int) string {
	l := strings.Split(s, "\n")
	if len(l) > n {
		l = l[:n]
	}
	return strings.Join(l, "\n")
}
