package core

import (
	"flag"
	"fmt"
	"os"
	"strconv"
)

// Main is the entry point shared by cmd/vworker and the per-property dev binaries.
func Main() {
	if len(os.Args) < 2 {
		fmt.Println("usage: vworker drive|worker|replay|list ...")
		os.Exit(2)
	}
	switch os.Args[1] {
	case "list":
		for _, id := range IDs() {
			fmt.Println(id)
		}
	case "drive":
		if len(os.Args) < 3 {
			os.Exit(2)
		}
		tier := os.Getenv("VERIF_TIER")
		if len(os.Args) > 3 {
			tier = os.Args[3]
		}
		if tier != "thorough" {
			tier = "quick"
		}
		seed := int64(1)
		if s := os.Getenv("VERIF_SEED"); s != "" {
			if v, err := strconv.ParseInt(s, 10, 64); err == nil {
				seed = v
			}
		}
		os.Exit(Drive(os.Args[2], tier, seed))
	case "worker":
		fs := flag.NewFlagSet("worker", flag.ExitOnError)
		tier := fs.String("tier", "quick", "")
		seed := fs.Int64("seed", 1, "")
		shard := fs.Int("shard", 0, "")
		nshards := fs.Int("nshards", 1, "")
		only := fs.String("only", "", "")
		fs.Parse(os.Args[3:])
		os.Exit(RunWorker(os.Args[2], *tier, *seed, *shard, *nshards, *only))
	case "replay":
		os.Exit(Replay(os.Args[2]))
	default:
		os.Exit(2)
	}
}
