// Package core is the worker/driver framework shared by every property check.
//
// A check is a Prop: a deterministic (seed, tier, shard) -> case list generator
// plus an oracle.  The driver ("drive") spawns one worker process per shard,
// reads their JSON-line protocol, applies the known-findings filter, writes
// evidence/<id>.json and decides the exit code.
package core

import (
	"encoding/json"
	"fmt"
	"hash/fnv"
	"math/rand"
	"os"
	"sort"
	"sync"
	"time"
)

// Prop describes one property check.
type Prop struct {
	ID          string
	Level       string // exploration | fault_enumeration
	Rule        string // how cases are generated / what makes one non-trivial and distinct
	Assumptions []string
	// Shards is the number of worker processes for a tier.
	Shards func(tier string) int
	// TimeoutSec is the watchdog for one worker process.
	TimeoutSec func(tier string) int
	// Race: the workers are run from the -race build and race reports are parsed.
	Race bool
	// CrashIsViolation: an abnormal worker exit (fatal error, unrecovered panic in
	// any goroutine) is itself a violation of this property (C07, C08, C15, C20);
	// otherwise it is an infrastructure failure (exit 2).
	CrashIsViolation bool
	// Required counters: if any is zero after the run the run is inconclusive.
	Required []string
	Run      func(c *Ctx)
	// Exhaustive reports whether the tier enumerates a finite space completely.
	Exhaustive func(tier string) bool
}

var registry = map[string]*Prop{}

// Register adds a property check.
func Register(p *Prop) {
	if _, dup := registry[p.ID]; dup {
		panic("duplicate prop " + p.ID)
	}
	registry[p.ID] = p
}

// Lookup a property.
func Lookup(id string) *Prop { return registry[id] }

// IDs lists the registered ids.
func IDs() []string {
	var ids []string
	for id := range registry {
		ids = append(ids, id)
	}
	sort.Strings(ids)
	return ids
}

// Ctx is handed to Prop.Run inside a worker process.
type Ctx struct {
	Prop    *Prop
	Seed    int64
	Tier    string
	Shard   int
	NShards int
	Only    string // replay: run only the case with this id

	mu        sync.Mutex
	counters  map[string]int64
	sigs      map[uint64]struct{}
	samples   []interface{}
	maxSample int
	nviol     int
	violKeys  map[string]int
	start     time.Time
}

type line struct {
	T       string           `json:"t"`
	Case    string           `json:"case,omitempty"`
	Key     string           `json:"key,omitempty"`
	What    string           `json:"what,omitempty"`
	Replay  interface{}      `json:"replay,omitempty"`
	Counter map[string]int64 `json:"counters,omitempty"`
	Sigs    []uint64         `json:"sigs,omitempty"`
	Samples []interface{}    `json:"samples,omitempty"`
	Reason  string           `json:"reason,omitempty"`
}

var outMu sync.Mutex

func emit(l line) {
	b, err := json.Marshal(l)
	if err != nil {
		b, _ = json.Marshal(line{T: "inconclusive", Reason: "marshal: " + err.Error()})
	}
	b = append(b, '\n')
	outMu.Lock()
	os.Stdout.Write(b)
	outMu.Unlock()
}

// Quick reports whether this is the quick tier.
func (c *Ctx) Quick() bool { return c.Tier != "thorough" }

// Scale picks a per-tier number.
func (c *Ctx) Scale(quick, thorough int) int {
	if c.Quick() {
		return quick
	}
	return thorough
}

// Mine reports whether case index i belongs to this shard.
func (c *Ctx) Mine(i int) bool { return i%c.NShards == c.Shard }

// Rand returns a PRNG that is a pure function of (seed, property, labels...).
func (c *Ctx) Rand(labels ...interface{}) *rand.Rand {
	h := fnv.New64a()
	fmt.Fprintf(h, "%s|%d|", c.Prop.ID, c.Seed)
	for _, l := range labels {
		fmt.Fprintf(h, "%v|", l)
	}
	return rand.New(rand.NewSource(int64(h.Sum64())))
}

// Case announces the case about to run (the line is the crash witness) and
// reports whether it should run (false only when replaying another case).
func (c *Ctx) Case(id string) bool {
	if c.Only != "" && c.Only != id {
		return false
	}
	emit(line{T: "case", Case: id})
	c.Count("cases", 1)
	return true
}

// CaseQuiet is Case without the per-case line (for very cheap cases where a
// crash cannot happen in library code); every 256th is still announced.
func (c *Ctx) CaseQuiet(id string) bool {
	if c.Only != "" && c.Only != id {
		return false
	}
	c.mu.Lock()
	c.counters["cases"]++
	n := c.counters["cases"]
	c.mu.Unlock()
	if n%256 == 1 {
		emit(line{T: "case", Case: id})
	}
	return true
}

// Count adds to a named counter.
func (c *Ctx) Count(name string, n int64) {
	c.mu.Lock()
	c.counters[name] += n
	c.mu.Unlock()
}

// Max keeps the maximum of a named counter.
func (c *Ctx) Max(name string, n int64) {
	c.mu.Lock()
	if n > c.counters[name] {
		c.counters[name] = n
	}
	c.mu.Unlock()
}

// Sig records the signature of a non-trivial case; distinct ones are counted.
func (c *Ctx) Sig(parts ...interface{}) {
	h := fnv.New64a()
	for _, p := range parts {
		fmt.Fprintf(h, "%v|", p)
	}
	v := h.Sum64()
	c.mu.Lock()
	c.sigs[v] = struct{}{}
	c.mu.Unlock()
}

// SigHash records an already hashed signature.
func (c *Ctx) SigHash(v uint64) {
	c.mu.Lock()
	c.sigs[v] = struct{}{}
	c.mu.Unlock()
}

// Sample keeps a few literal cases for the evidence file.
func (c *Ctx) Sample(v interface{}) {
	c.mu.Lock()
	if len(c.samples) < c.maxSample {
		c.samples = append(c.samples, v)
	}
	c.mu.Unlock()
}

// WantSample reports whether more samples are wanted (to avoid building them).
func (c *Ctx) WantSample() bool {
	c.mu.Lock()
	defer c.mu.Unlock()
	return len(c.samples) < c.maxSample
}

// Violation reports a violated predicate. key classifies the failing input
// class / call site / history shape ("C11:close-nil-error-reports-success").
// At most a few witnesses per key are emitted in full.
func (c *Ctx) Violation(key, caseID, what string, replay interface{}) {
	c.mu.Lock()
	c.nviol++
	c.violKeys[key]++
	n := c.violKeys[key]
	c.mu.Unlock()
	if n > 3 {
		return
	}
	emit(line{T: "viol", Key: key, Case: caseID, What: what, Replay: replay})
}

// Enough reports that this worker has already recorded plenty of violations: the remaining cases
// would add nothing to the verdict (and a broken system under test tends to make them slow).
func (c *Ctx) Enough() bool {
	c.mu.Lock()
	defer c.mu.Unlock()
	return c.nviol >= 25
}

// Inconclusive records a trial that could not be judged.
func (c *Ctx) Inconclusive(caseID, reason string) {
	c.Count("inconclusive", 1)
	c.mu.Lock()
	n := c.counters["inconclusive"]
	c.mu.Unlock()
	if n <= 5 {
		emit(line{T: "inconclusive", Case: caseID, Reason: reason})
	}
}

// Elapsed since the worker started.
func (c *Ctx) Elapsed() time.Duration { return time.Since(c.start) }

func (c *Ctx) finish() {
	c.mu.Lock()
	sigs := make([]uint64, 0, len(c.sigs))
	for s := range c.sigs {
		sigs = append(sigs, s)
	}
	c.counters["violations_total"] = int64(c.nviol)
	l := line{T: "done", Counter: c.counters, Sigs: sigs, Samples: c.samples}
	c.mu.Unlock()
	emit(l)
}

// RunWorker runs one shard of a property in this process.
func RunWorker(id, tier string, seed int64, shard, nshards int, only string) int {
	p := Lookup(id)
	if p == nil {
		fmt.Fprintln(os.Stderr, "unknown property", id)
		return 2
	}
	c := &Ctx{Prop: p, Seed: seed, Tier: tier, Shard: shard, NShards: nshards, Only: only,
		counters: map[string]int64{}, sigs: map[uint64]struct{}{}, violKeys: map[string]int{},
		maxSample: 4, start: time.Now()}
	p.Run(c)
	c.finish()
	return 0
}
