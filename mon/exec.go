package mon

import (
	"sync"
	"time"

	netty "github.com/go-netty/go-netty"
)

// TrackExec is a netty.Executor that knows every action it was given and
// whether it has returned.  Action #0 of a channel is its read loop.
type TrackExec struct {
	mu        sync.Mutex
	cond      *sync.Cond
	submitted int
	started   int
	finished  int
	// BeforeStart, if set, runs on the new goroutine before the action
	// (start delay / gate); idx is the submission index.
	BeforeStart func(idx int)
	// Log of (tick, idx, phase) phase 0 submitted, 1 started, 2 finished.
	Events []ExecEvent
}

// ExecEvent is one lifecycle event of an action.
type ExecEvent struct {
	Tick  uint64
	Idx   int
	Phase int
}

var _ netty.Executor = (*TrackExec)(nil)

// NewTrackExec creates a tracking executor.
func NewTrackExec() *TrackExec {
	e := &TrackExec{}
	e.cond = sync.NewCond(&e.mu)
	return e
}

// Exec implements netty.Executor.
func (e *TrackExec) Exec(a netty.Action) {
	e.mu.Lock()
	idx := e.submitted
	e.submitted++
	e.Events = append(e.Events, ExecEvent{Tick(), idx, 0})
	e.mu.Unlock()
	go func() {
		if bs := e.BeforeStart; bs != nil {
			bs(idx)
		}
		e.mu.Lock()
		e.started++
		e.Events = append(e.Events, ExecEvent{Tick(), idx, 1})
		e.mu.Unlock()
		defer func() {
			e.mu.Lock()
			e.finished++
			e.Events = append(e.Events, ExecEvent{Tick(), idx, 2})
			e.cond.Broadcast()
			e.mu.Unlock()
		}()
		a()
	}()
}

// Outstanding returns submitted - finished.
func (e *TrackExec) Outstanding() int {
	e.mu.Lock()
	defer e.mu.Unlock()
	return e.submitted - e.finished
}

// Submitted returns the number of actions handed over so far.
func (e *TrackExec) Submitted() int {
	e.mu.Lock()
	defer e.mu.Unlock()
	return e.submitted
}

// WaitOutstanding waits until at most n actions are outstanding; false on watchdog expiry.
func (e *TrackExec) WaitOutstanding(n int, watchdog time.Duration) bool {
	deadline := time.Now().Add(watchdog)
	stop := make(chan struct{})
	defer close(stop)
	go func() {
		t := time.NewTimer(watchdog)
		defer t.Stop()
		select {
		case <-t.C:
			e.mu.Lock()
			e.cond.Broadcast()
			e.mu.Unlock()
		case <-stop:
		}
	}()
	e.mu.Lock()
	defer e.mu.Unlock()
	for e.submitted-e.finished > n {
		if time.Now().After(deadline) {
			return false
		}
		e.cond.Wait()
	}
	return true
}
