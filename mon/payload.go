package mon

import (
	"encoding/binary"
	"fmt"
	"hash/crc32"
)

// MinRecord is the smallest self-describing record.
const MinRecord = 16

// Payload builds the payload of writer wid, sequence seq, of exactly size bytes.
//
//	size >= 16: A5 5A | wid u16 | seq u32 | len u32 | body(xorshift(wid,seq)) | crc32
//	1..15     : E0|wid&0xF, then C0|((seq+i)&0x1F) ...   (wid < 16)
//	0         : empty
func Payload(wid, seq, size int) []byte {
	if size <= 0 {
		return []byte{}
	}
	b := make([]byte, size)
	FillPayload(b, wid, seq)
	return b
}

// FillPayload writes the payload for (wid, seq, len(b)) into b.
func FillPayload(b []byte, wid, seq int) {
	size := len(b)
	if size == 0 {
		return
	}
	if size < MinRecord {
		b[0] = 0xE0 | byte(wid&0xF)
		for i := 1; i < size; i++ {
			b[i] = 0xC0 | byte((seq+i)&0x1F)
		}
		return
	}
	b[0], b[1] = 0xA5, 0x5A
	binary.BigEndian.PutUint16(b[2:], uint16(wid))
	binary.BigEndian.PutUint32(b[4:], uint32(seq))
	binary.BigEndian.PutUint32(b[8:], uint32(size))
	x := uint64(wid)<<32 ^ uint64(seq)*0x9E3779B97F4A7C15 ^ 0xD1B54A32D192ED03
	for i := 12; i < size-4; i++ {
		x ^= x << 13
		x ^= x >> 7
		x ^= x << 17
		b[i] = byte(x)
	}
	binary.BigEndian.PutUint32(b[size-4:], crc32.ChecksumIEEE(b[:size-4]))
}

// Rec is one record recovered from the wire.
type Rec struct {
	W, Seq, Size int
	Off          int
	Tiny         bool
}

// ParseErr is an unparsable region of the wire.
type ParseErr struct {
	Off int
	Why string
}

func (e ParseErr) String() string { return fmt.Sprintf("offset %d: %s", e.Off, e.Why) }

// ParseWire splits a recorded byte stream back into records. Anything torn,
// corrupt or out of place is reported with its byte offset; after an error the
// parser resynchronises on the next position that holds a CRC-valid record or
// a tiny-record lead byte.
func ParseWire(wire []byte) (recs []Rec, errs []ParseErr) {
	i := 0
	for i < len(wire) {
		c := wire[i]
		switch {
		case c == 0xA5:
			if sz, ok := validRecordAt(wire, i); ok {
				recs = append(recs, Rec{
					W:    int(binary.BigEndian.Uint16(wire[i+2:])),
					Seq:  int(binary.BigEndian.Uint32(wire[i+4:])),
					Size: sz, Off: i})
				i += sz
				continue
			}
			why := describeBad(wire, i)
			errs = append(errs, ParseErr{i, why})
			i = resync(wire, i+1)
		case c&0xF0 == 0xE0:
			j := i + 1
			for j < len(wire) && wire[j]&0xE0 == 0xC0 && j-i < MinRecord-1 {
				j++
			}
			seq := -1
			if j > i+1 {
				seq = (int(wire[i+1]&0x1F) + 31) % 32 // low 5 bits of seq
			}
			recs = append(recs, Rec{W: int(c & 0xF), Seq: seq, Size: j - i, Off: i, Tiny: true})
			i = j
		default:
			errs = append(errs, ParseErr{i, fmt.Sprintf("unexpected byte %#02x where a record must start", c)})
			i = resync(wire, i+1)
		}
		if len(errs) > 64 {
			break
		}
	}
	return
}

func validRecordAt(wire []byte, i int) (int, bool) {
	if i+MinRecord > len(wire) || wire[i] != 0xA5 || wire[i+1] != 0x5A {
		return 0, false
	}
	sz := int(binary.BigEndian.Uint32(wire[i+8:]))
	if sz < MinRecord || i+sz > len(wire) {
		return 0, false
	}
	if crc32.ChecksumIEEE(wire[i:i+sz-4]) != binary.BigEndian.Uint32(wire[i+sz-4:]) {
		return 0, false
	}
	return sz, true
}

func describeBad(wire []byte, i int) string {
	if i+12 > len(wire) {
		return "truncated record header at end of wire"
	}
	if wire[i+1] != 0x5A {
		return "bad magic"
	}
	w := int(binary.BigEndian.Uint16(wire[i+2:]))
	seq := int(binary.BigEndian.Uint32(wire[i+4:]))
	sz := int(binary.BigEndian.Uint32(wire[i+8:]))
	if sz < MinRecord {
		return fmt.Sprintf("record w=%d seq=%d has impossible length %d", w, seq, sz)
	}
	if i+sz > len(wire) {
		return fmt.Sprintf("record w=%d seq=%d len=%d runs past the end of the wire (%d bytes left)", w, seq, sz, len(wire)-i)
	}
	return fmt.Sprintf("record w=%d seq=%d len=%d fails its CRC (bytes altered, torn or interleaved)", w, seq, sz)
}

func resync(wire []byte, i int) int {
	for ; i < len(wire); i++ {
		if wire[i] == 0xA5 {
			if _, ok := validRecordAt(wire, i); ok {
				return i
			}
		}
	}
	return i
}

// Sizes is the payload size palette: 0, tiny, the 1024-byte pool step, every
// power-of-two class edge up to 65536, and beyond the pool.
var Sizes = []int{0, 1, 15, 16, 17, 100, 1023, 1024, 1025, 2047, 2048, 2049, 4095, 4096, 4097,
	8191, 8192, 8193, 16384, 16385, 32768, 32769, 65535, 65536, 65537, 131075}

// SmallSizes is the palette without the very large entries (cheap trials).
var SmallSizes = []int{0, 1, 15, 16, 17, 100, 1023, 1024, 1025, 2047, 2048, 2049, 4097}
