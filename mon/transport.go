// Package mon holds the shared runtime monitors: logical clock, recording
// transport, tracking executor, self-describing payloads, wire parser, hook
// routing and the perturbation scheduler.
package mon

import (
	"errors"
	"io"
	"net"
	"sync"
	"sync/atomic"
	"time"

	"github.com/go-netty/go-netty/transport"
)

var clock uint64

// Tick advances and returns the process-wide logical clock.
func Tick() uint64 { return atomic.AddUint64(&clock, 1) }

// Now returns the current logical time without advancing it.
func Now() uint64 { return atomic.LoadUint64(&clock) }

// Op kinds of the recording transport.
const (
	OpWrite  = "W"
	OpWritev = "V"
	OpFlush  = "F"
	OpClose  = "C"
	OpRead   = "R"
)

// Op is one logged transport call.
type Op struct {
	Kind       string
	In, Out    uint64 // logical ticks at entry and exit (Out == 0 while in progress)
	Data       []byte // copy of the bytes handed over (Write/Writev)
	Parts      int    // number of slices in a Writev
	PartLens   []int  // length of each slice
	Err        error
	Rejected   bool  // the call was refused because the transport is closed or a fault was injected
	Start      int   // offset of Data in the wire stream (accepted data only)
	InWrite    int32 // for Close: number of Write/Writev calls in progress at that moment
	AfterClose bool  // accepted although the transport had been closed (lenient transport)
	Unflush    int   // for Close: bytes written and not yet flushed at that moment
	WallIn     time.Time
}

// Addr is a fake net.Addr.
type Addr string

func (a Addr) Network() string { return "mock" }
func (a Addr) String() string  { return string(a) }

// ReadStep scripts the read side: Data is delivered in one Read call (split
// further if the caller's buffer is smaller); after the last step Terminal applies.
type ReadStep struct {
	Data []byte
	// WithErr: deliver this error together with the last byte of Data (n>0, err).
	WithErr error
	// Zero: return (0, nil) once before this step.
	Zero bool
}

// Fault injects an error into the k-th (1-based) call of a kind.
type Fault struct {
	Kind string
	K    int
	Err  error
}

// RecTransport is a transport.Transport that records everything it is given.
type RecTransport struct {
	mu        sync.Mutex
	cond      *sync.Cond
	ops       []Op
	wire      []byte
	unflushed int
	closed    bool
	closeN    int
	inWrite   int32
	counts    map[string]int
	faults    []Fault

	// read side
	steps        []ReadStep
	stepIdx      int
	stepOff      int
	zeroDone     bool
	Terminal     error // error returned after the script is exhausted; nil = block until Close
	fed          chan struct{}
	readOff      int64 // bytes delivered so far
	inRead       int
	maxReadChunk int

	// OnOp, if set, is called outside the lock at entry (phase 0) and exit
	// (phase 1) of Write/Writev/Flush/Close: perturbation and gates.
	OnOp func(kind string, phase int)

	// AcceptAfterClose: a lenient transport that keeps accepting Write/Writev/Flush after Close
	// (nothing in the transport interface obliges it to fail); Close is still recorded.
	AcceptAfterClose bool

	// HonourDeadlines: behave like a net.Conn with respect to SetWriteDeadline - a Write/Writev entered after the
	// armed deadline has passed fails with a timeout net.Error. Time is the wall clock plus a skew the harness
	// advances explicitly (AdvanceClock), so that "the deadline passed" is decided by the harness, not by load.
	HonourDeadlines bool
	wdl             time.Time
	skew            time.Duration

	// DeadlineErr, if set, is returned by SetWriteDeadline/SetDeadline for a non-zero time (a transport that does not
	// support deadlines); clearing the deadline (zero time) succeeds.
	DeadlineErr error

	// SnapshotVec: take a private copy of the vector (the slice of slices, not the bytes) at entry, before any delay - a
	// vectored write that has set up its iovecs and then waits for socket space reads the memory they point to later.
	SnapshotVec bool

	// CloseErr is returned by the Close call that actually closes (a transport may report a failed goodbye,
	// e.g. TLS close_notify on a broken pipe, and still be closed).
	CloseErr error

	// Consume mimics net.Buffers.WriteTo, which nils the entries of the slice
	// it was given (default true).
	NoConsume bool

	closedCh chan struct{}
}

// NewRecTransport creates a recording transport whose read side blocks until Close.
func NewRecTransport() *RecTransport {
	t := &RecTransport{counts: map[string]int{}, closedCh: make(chan struct{}), fed: make(chan struct{}, 1)}
	t.cond = sync.NewCond(&t.mu)
	return t
}

var _ transport.Transport = (*RecTransport)(nil)

// ErrInjected is the default injected fault.
var ErrInjected = errors.New("injected transport fault")

// AddFault schedules a fault.
func (t *RecTransport) AddFault(f Fault) {
	t.mu.Lock()
	t.faults = append(t.faults, f)
	t.mu.Unlock()
}

func (t *RecTransport) faultFor(kind string) error {
	t.counts[kind]++
	for _, f := range t.faults {
		if f.Kind == kind && (f.K == t.counts[kind] || f.K == 0) { // K == 0: every call from now on
			return f.Err
		}
	}
	return nil
}

func (t *RecTransport) write(kind string, bufs [][]byte) (int64, error) {
	entryArmed := false
	if t.HonourDeadlines {
		t.mu.Lock()
		entryArmed = !t.wdl.IsZero()
		t.mu.Unlock()
	}
	if t.SnapshotVec {
		bufs = append([][]byte(nil), bufs...)
	}
	if cb := t.OnOp; cb != nil {
		cb(kind, 0)
	}
	atomic.AddInt32(&t.inWrite, 1)
	t.mu.Lock()
	op := Op{Kind: kind, In: Tick(), Parts: len(bufs)}
	var n int64
	for _, b := range bufs {
		n += int64(len(b))
	}
	var err error
	if t.closed && !t.AcceptAfterClose {
		err = net.ErrClosed
		op.Rejected = true
	} else if ferr := t.faultFor(kind); ferr != nil {
		err = ferr
		op.Rejected = true
	} else if t.HonourDeadlines && !t.wdl.IsZero() && !time.Now().Add(t.skew).Before(t.wdl) {
		err = errWriteDeadline{}
		op.Rejected = true
	}
	data := make([]byte, 0, n)
	op.PartLens = make([]int, 0, len(bufs))
	for _, b := range bufs {
		data = append(data, b...)
		op.PartLens = append(op.PartLens, len(b))
	}
	if _, dl := err.(errWriteDeadline); dl && !entryArmed && len(data) > 1 {
		// the deadline was armed (and ran out) while this write was already in progress - what a connection does then:
		// part of the data has been taken, the call reports the rest as timed out
		half := len(data) / 2
		op.Data, op.Err, op.AfterClose, op.Start = data[:half], err, t.closed, len(t.wire)
		op.Rejected = false
		op.PartLens = []int{half}
		t.wire = append(t.wire, data[:half]...)
		t.unflushed += half
		op.Out = Tick()
		t.ops = append(t.ops, op)
		t.mu.Unlock()
		atomic.AddInt32(&t.inWrite, -1)
		if cb := t.OnOp; cb != nil {
			cb(kind, 1)
		}
		return int64(half), err
	}
	op.Data = data
	op.Err = err
	op.AfterClose = t.closed
	if err == nil {
		op.Start = len(t.wire)
		t.wire = append(t.wire, data...)
		t.unflushed += len(data)
	} else {
		n = 0
	}
	op.Out = Tick()
	t.ops = append(t.ops, op)
	t.mu.Unlock()
	atomic.AddInt32(&t.inWrite, -1)
	if cb := t.OnOp; cb != nil {
		cb(kind, 1)
	}
	return n, err
}

// Write implements net.Conn.
func (t *RecTransport) Write(p []byte) (int, error) {
	n, err := t.write(OpWrite, [][]byte{p})
	return int(n), err
}

// Writev implements transport.BuffersWriter.
func (t *RecTransport) Writev(buffs transport.Buffers) (int64, error) {
	n, err := t.write(OpWritev, buffs)
	if err == nil && !t.NoConsume {
		for i := range buffs {
			buffs[i] = nil
		}
	}
	return n, err
}

// Flush implements transport.Transport.
func (t *RecTransport) Flush() error {
	if cb := t.OnOp; cb != nil {
		cb(OpFlush, 0)
	}
	t.mu.Lock()
	op := Op{Kind: OpFlush, In: Tick()}
	if t.closed && !t.AcceptAfterClose {
		op.Err = net.ErrClosed
		op.Rejected = true
	} else if ferr := t.faultFor(OpFlush); ferr != nil {
		op.Err = ferr
		op.Rejected = true
	} else {
		t.unflushed = 0
	}
	op.Out = Tick()
	t.ops = append(t.ops, op)
	err := op.Err
	t.mu.Unlock()
	if cb := t.OnOp; cb != nil {
		cb(OpFlush, 1)
	}
	return err
}

// Close implements net.Conn.
func (t *RecTransport) Close() error {
	if cb := t.OnOp; cb != nil {
		cb(OpClose, 0)
	}
	t.mu.Lock()
	op := Op{Kind: OpClose, In: Tick(), InWrite: atomic.LoadInt32(&t.inWrite), Unflush: t.unflushed, WallIn: time.Now()}
	t.closeN++
	var err error
	if t.closed {
		err = net.ErrClosed
		op.Rejected = true
	} else {
		t.closed = true
		close(t.closedCh)
		err = t.CloseErr
	}
	op.Err = err
	op.Out = Tick()
	t.ops = append(t.ops, op)
	t.cond.Broadcast()
	t.mu.Unlock()
	if cb := t.OnOp; cb != nil {
		cb(OpClose, 1)
	}
	return err
}

// Feed appends steps to the read script and wakes a blocked reader.
func (t *RecTransport) Feed(steps ...ReadStep) {
	t.mu.Lock()
	t.steps = append(t.steps, steps...)
	t.cond.Broadcast()
	t.mu.Unlock()
}

// FeedBytes feeds data as one step.
func (t *RecTransport) FeedBytes(b []byte) { t.Feed(ReadStep{Data: b}) }

// SetTerminal sets the error returned once the script is exhausted and wakes readers.
func (t *RecTransport) SetTerminal(err error) {
	t.mu.Lock()
	t.Terminal = err
	t.cond.Broadcast()
	t.mu.Unlock()
}

// SetMaxReadChunk bounds the bytes returned per Read call (0 = unbounded).
func (t *RecTransport) SetMaxReadChunk(n int) {
	t.mu.Lock()
	t.maxReadChunk = n
	t.mu.Unlock()
}

// Read implements net.Conn: scripted, blocks when the script is exhausted and
// no terminal error is set, until more is fed or the transport is closed.
func (t *RecTransport) Read(p []byte) (int, error) {
	t.mu.Lock()
	defer t.mu.Unlock()
	if !t.closed {
		if ferr := t.faultFor(OpRead); ferr != nil {
			return 0, ferr
		}
	}
	for {
		if t.closed {
			return 0, net.ErrClosed
		}
		if t.stepIdx < len(t.steps) {
			st := &t.steps[t.stepIdx]
			if st.Zero && !t.zeroDone {
				t.zeroDone = true
				return 0, nil
			}
			if len(p) == 0 {
				return 0, nil
			}
			rest := st.Data[t.stepOff:]
			n := len(rest)
			if n > len(p) {
				n = len(p)
			}
			if t.maxReadChunk > 0 && n > t.maxReadChunk {
				n = t.maxReadChunk
			}
			copy(p, rest[:n])
			t.stepOff += n
			t.readOff += int64(n)
			var err error
			if t.stepOff >= len(st.Data) {
				err = st.WithErr
				t.stepIdx++
				t.stepOff = 0
				t.zeroDone = false
			}
			if n == 0 && err == nil {
				// empty step: go on with the next one
				continue
			}
			return n, err
		}
		if t.Terminal != nil {
			return 0, t.Terminal
		}
		t.inRead++
		t.cond.Wait()
		t.inRead--
	}
}

// InRead is the number of Read calls currently parked waiting for data.
func (t *RecTransport) InRead() int {
	t.mu.Lock()
	defer t.mu.Unlock()
	return t.inRead
}

// ReadOffset returns the number of bytes handed out by Read so far.
func (t *RecTransport) ReadOffset() int64 {
	t.mu.Lock()
	defer t.mu.Unlock()
	return t.readOff
}

// ScriptExhausted reports whether every fed byte has been read.
func (t *RecTransport) ScriptExhausted() bool {
	t.mu.Lock()
	defer t.mu.Unlock()
	return t.stepIdx >= len(t.steps)
}

func (t *RecTransport) LocalAddr() net.Addr             { return Addr("mock-local:1") }
func (t *RecTransport) RemoteAddr() net.Addr            { return Addr("mock-remote:2") }
func (t *RecTransport) SetDeadline(d time.Time) error   { return t.SetWriteDeadline(d) }
func (t *RecTransport) SetReadDeadline(time.Time) error { return nil }
func (t *RecTransport) SetWriteDeadline(d time.Time) error {
	if t.DeadlineErr != nil && !d.IsZero() {
		return t.DeadlineErr
	}
	t.mu.Lock()
	t.wdl = d
	t.mu.Unlock()
	return nil
}

// Now is the transport's clock (wall clock + skew).
func (t *RecTransport) Now() time.Time {
	t.mu.Lock()
	defer t.mu.Unlock()
	return time.Now().Add(t.skew)
}

// AdvanceClock moves the transport's clock forward.
func (t *RecTransport) AdvanceClock(d time.Duration) {
	t.mu.Lock()
	t.skew += d
	t.mu.Unlock()
}

// WriteDeadline returns the currently armed write deadline (zero = none).
func (t *RecTransport) WriteDeadline() time.Time {
	t.mu.Lock()
	defer t.mu.Unlock()
	return t.wdl
}

type errWriteDeadline struct{}

func (errWriteDeadline) Error() string            { return "mock transport: write: i/o timeout" }
func (errWriteDeadline) Timeout() bool            { return true }
func (errWriteDeadline) Temporary() bool          { return true }
func (t *RecTransport) RawTransport() interface{} { return t }

// Snapshot returns copies of the op log and the accepted wire bytes.
func (t *RecTransport) Snapshot() ([]Op, []byte) {
	t.mu.Lock()
	defer t.mu.Unlock()
	ops := make([]Op, len(t.ops))
	copy(ops, t.ops)
	wire := make([]byte, len(t.wire))
	copy(wire, t.wire)
	return ops, wire
}

// Wire returns a copy of the accepted bytes.
func (t *RecTransport) Wire() []byte {
	_, w := t.Snapshot()
	return w
}

// Unflushed bytes written since the last successful Flush.
func (t *RecTransport) Unflushed() int {
	t.mu.Lock()
	defer t.mu.Unlock()
	return t.unflushed
}

// CloseCount is the number of Close calls seen.
func (t *RecTransport) CloseCount() int {
	t.mu.Lock()
	defer t.mu.Unlock()
	return t.closeN
}

// IsClosed reports whether Close was called.
func (t *RecTransport) IsClosed() bool {
	t.mu.Lock()
	defer t.mu.Unlock()
	return t.closed
}

// Closed returns a channel closed when the transport is closed.
func (t *RecTransport) Closed() <-chan struct{} { return t.closedCh }

// OpString renders the op kinds as a compact string ("V F V F C").
func OpString(ops []Op) string {
	b := make([]byte, 0, len(ops)*2)
	for i, o := range ops {
		if i > 0 {
			b = append(b, ' ')
		}
		b = append(b, o.Kind...)
		if o.Rejected {
			b = append(b, '!')
		}
	}
	return string(b)
}

var _ io.Reader = (*RecTransport)(nil)
