package mon

import (
	"context"
	"fmt"
	"io"
	"sync"
	"sync/atomic"
	"time"

	netty "github.com/go-netty/go-netty"
	"github.com/go-netty/go-netty/transport"
)

// ParkReader is the inbound handler that keeps the read loop parked inside
// the transport's Read (a pipeline without a blocking inbound handler spins).
// It reads and discards; a read error is raised the way the shipped codecs do
// (panic with the error), so that it travels the normal exception path.
type ParkReader struct {
	// Swallow: return silently on a read error instead of raising it.
	Reads int64
}

// HandleRead implements netty.InboundHandler.
func (p *ParkReader) HandleRead(ctx netty.InboundContext, message netty.Message) {
	r, ok := message.(io.Reader)
	if !ok {
		ctx.HandleRead(message)
		return
	}
	var buf [512]byte
	n, err := r.Read(buf[:])
	atomic.AddInt64(&p.Reads, int64(n))
	if err != nil {
		panic(err)
	}
}

// Mode of a channel under test.
type Mode int

const (
	Sync     Mode = iota // NewChannel()
	Blocking             // NewAsyncWriteChannel(q, true)
	NonBlock             // NewAsyncWriteChannel(q, false)
)

func (m Mode) String() string { return [...]string{"sync", "queued-blocking", "queued-nonblocking"}[m] }

// RigOpts configures a channel under test.
type RigOpts struct {
	Mode     Mode
	Queue    int
	Handlers []netty.Handler // added with AddLast after the exception recorder; a ParkReader is appended if NoPark is false
	NoPark   bool
	Ctx      context.Context
	Plan     []Step
	Tr       *RecTransport // optional pre-built transport
	NoHooks  bool
	// Wrap: run the channel on the library's own transport wrapper (transport.NewTransport) around the
	// recording transport, with these read/write buffer sizes ([2]int{0,0} = the unbuffered wrapper): the
	// recording then happens at the connection underneath the wrapper (Write calls only).
	Wrap *[2]int
	// OnPoint, if set, is called at every hook point of the channel before the plan is applied.
	OnPoint func(p netty.VerifPoint)
	// QuietTail installs an exception handler at the end that closes the channel
	// like the tail would, but without writing to stderr.
	QuietTail bool
	// Factory, if set, is used instead of a fresh factory for Mode/Queue (several channels of one
	// factory value, the way a Bootstrap creates all of its channels).
	Factory netty.ChannelFactory
	// NoServe: build the channel but do not hand it to Pipeline.ServeChannel (a connection still being set up).
	NoServe bool
	// ID, if non-zero, is the channel id (default: a process-wide counter).
	ID int64
}

// Rig is a real channel built around the recording seams.
type Rig struct {
	Ch   netty.Channel
	PL   netty.Pipeline
	T    *RecTransport
	Ex   *TrackExec
	S    *Sched
	Park *ParkReader
	Tail *QuietTail
	Opts RigOpts
	once sync.Once
}

// QuietTail records exceptions/inactive reaching the end of the pipeline and
// closes the channel on an exception exactly as the built-in tail handler does.
type QuietTail struct {
	mu           sync.Mutex
	Exceptions   []error
	Inactive     []error
	InactiveTick []uint64
}

func (q *QuietTail) HandleException(ctx netty.ExceptionContext, ex netty.Exception) {
	q.mu.Lock()
	q.Exceptions = append(q.Exceptions, ex)
	q.mu.Unlock()
	ctx.Channel().Close(ex)
}

func (q *QuietTail) HandleInactive(ctx netty.InactiveContext, ex netty.Exception) {
	q.mu.Lock()
	q.Inactive = append(q.Inactive, ex)
	q.InactiveTick = append(q.InactiveTick, Tick())
	q.mu.Unlock()
	ctx.HandleInactive(ex)
}

// FirstInactiveTick is the logical time the inactive event reached the end of the pipeline (0 = never).
func (q *QuietTail) FirstInactiveTick() uint64 {
	q.mu.Lock()
	defer q.mu.Unlock()
	if len(q.InactiveTick) == 0 {
		return 0
	}
	return q.InactiveTick[0]
}

// Snapshot returns copies of what was recorded.
func (q *QuietTail) Snapshot() (exc []error, inact []error) {
	q.mu.Lock()
	defer q.mu.Unlock()
	return append([]error(nil), q.Exceptions...), append([]error(nil), q.Inactive...)
}

var rigID int64

// NewRig builds and serves a channel; it returns once the active event completed.
func NewRig(o RigOpts) *Rig {
	r := &Rig{Opts: o}
	r.T = o.Tr
	if r.T == nil {
		r.T = NewRecTransport()
	}
	r.Ex = NewTrackExec()
	r.S = NewSched(o.Plan)
	r.T.OnOp = r.S.TransportFn()
	r.Ex.BeforeStart = func(idx int) { r.S.Point(fmt.Sprintf("x%d", idx)) }
	r.PL = netty.NewPipeline()
	for _, h := range o.Handlers {
		r.PL.AddLast(h)
	}
	if !o.NoPark {
		r.Park = &ParkReader{}
		r.PL.AddLast(r.Park)
	}
	if o.QuietTail {
		r.Tail = &QuietTail{}
		r.PL.AddLast(r.Tail)
	}
	var f netty.ChannelFactory
	switch o.Mode {
	case Sync:
		f = netty.NewChannel()
	case Blocking:
		f = netty.NewAsyncWriteChannel(o.Queue, true)
	default:
		f = netty.NewAsyncWriteChannel(o.Queue, false)
	}
	if o.Factory != nil {
		f = o.Factory
	}
	ctx := o.Ctx
	if ctx == nil {
		ctx = context.Background()
	}
	var tr transport.Transport = r.T
	if o.Wrap != nil {
		tr = transport.NewTransport(r.T, o.Wrap[0], o.Wrap[1])
	}
	chID := o.ID
	if chID == 0 {
		chID = atomic.AddInt64(&rigID, 1)
	}
	r.Ch = f(chID, ctx, r.PL, tr, r.Ex)
	if !o.NoHooks {
		fn := r.S.HookFn()
		if o.OnPoint != nil {
			inner, extra := fn, o.OnPoint
			fn = func(p netty.VerifPoint) { extra(p); inner(p) }
		}
		Route(r.Ch, fn)
	}
	if !o.NoServe {
		r.PL.ServeChannel(r.Ch)
	}
	return r
}

// Dispose closes the channel (if still open), opens all gates and unroutes hooks.
func (r *Rig) Dispose() {
	r.once.Do(func() {
		r.S.ReleaseAll()
		done := make(chan struct{})
		go func() {
			defer close(done)
			defer func() { recover() }()
			r.Ch.Close(nil)
		}()
		select {
		case <-done:
		case <-time.After(5 * time.Second):
		}
		r.Ex.WaitOutstanding(0, 5*time.Second)
		Unroute(r.Ch)
	})
}
