package mon

import (
	"net"
	"sync"
	"sync/atomic"

	"github.com/go-netty/go-netty/transport"
)

// MockFactory is a transport.Factory handing out recording transports and
// mock acceptors, and remembering every one it created.
type MockFactory struct {
	mu         sync.Mutex
	Acceptors  []*MockAcceptor
	Transports []*RecTransport
	// OnListen / OnConnect, if set, run inside Listen / Connect before the
	// object is created (gates, delays, injected errors).
	OnListen  func(url string) error
	OnConnect func(url string) error
	// OnAccept runs inside every Accept call before it starts waiting.
	OnAccept func(a *MockAcceptor)
	// AcceptorCloseErr, if set, is returned by every acceptor's Close (which closes all the same): e.g. a failed unlink of
	// a unix socket file.
	AcceptorCloseErr error
	// Wrap: hand out the library's own transport wrapper NewTransport(conn, r, w) around the recording
	// transport (which then plays the connection) instead of the recording transport itself.
	Wrap *[2]int
}

func (f *MockFactory) wrap(t *RecTransport) transport.Transport {
	if f.Wrap != nil {
		return transport.NewTransport(t, f.Wrap[0], f.Wrap[1])
	}
	return t
}

var _ transport.Factory = (*MockFactory)(nil)

// Schemes implements transport.Factory.
func (f *MockFactory) Schemes() transport.Schemes { return transport.Schemes{"mock"} }

// Connect implements transport.Factory.
func (f *MockFactory) Connect(o *transport.Options) (transport.Transport, error) {
	if f.OnConnect != nil {
		if err := f.OnConnect(o.Address.String()); err != nil {
			return nil, err
		}
	}
	t := NewRecTransport()
	f.mu.Lock()
	f.Transports = append(f.Transports, t)
	f.mu.Unlock()
	return f.wrap(t), nil
}

// Listen implements transport.Factory.
func (f *MockFactory) Listen(o *transport.Options) (transport.Acceptor, error) {
	if f.OnListen != nil {
		if err := f.OnListen(o.Address.String()); err != nil {
			return nil, err
		}
	}
	a := &MockAcceptor{f: f, URL: o.Address.String(), ch: make(chan *RecTransport), closed: make(chan struct{}), fail: make(chan error, 1), CreatedTick: Tick()}
	f.mu.Lock()
	f.Acceptors = append(f.Acceptors, a)
	f.mu.Unlock()
	return a, nil
}

// Snapshot returns the acceptors and transports created so far.
func (f *MockFactory) Snapshot() ([]*MockAcceptor, []*RecTransport) {
	f.mu.Lock()
	defer f.mu.Unlock()
	return append([]*MockAcceptor(nil), f.Acceptors...), append([]*RecTransport(nil), f.Transports...)
}

// MockAcceptor is a transport.Acceptor fed by Inject.
type MockAcceptor struct {
	f           *MockFactory
	URL         string
	ch          chan *RecTransport
	closed      chan struct{}
	fail        chan error
	once        sync.Once
	CreatedTick uint64
	inAccept    int32
	accepts     int32
	closeCalls  int32
	accepted    int32
}

// Accept implements transport.Acceptor.
func (a *MockAcceptor) Accept() (transport.Transport, error) {
	if cb := a.f.OnAccept; cb != nil {
		cb(a)
	}
	atomic.AddInt32(&a.accepts, 1)
	atomic.AddInt32(&a.inAccept, 1)
	defer atomic.AddInt32(&a.inAccept, -1)
	select {
	case <-a.closed:
		return nil, net.ErrClosed
	default:
	}
	select {
	case t := <-a.ch:
		atomic.AddInt32(&a.accepted, 1)
		return a.f.wrap(t), nil
	case err := <-a.fail:
		return nil, err
	case <-a.closed:
		return nil, net.ErrClosed
	}
}

// FailNext makes the next (or the currently parked) Accept call return err: an accept error that is
// unrelated to closing the acceptor (EMFILE, a failed handshake...).
func (a *MockAcceptor) FailNext(err error) {
	select {
	case a.fail <- err:
	default:
	}
}

// Close implements transport.Acceptor.
func (a *MockAcceptor) Close() error {
	atomic.AddInt32(&a.closeCalls, 1)
	a.once.Do(func() { close(a.closed) })
	return a.f.AcceptorCloseErr
}

// Inject offers a new inbound connection; it returns the transport once an
// Accept call took it, or nil if the acceptor was closed first.
func (a *MockAcceptor) Inject() *RecTransport { return a.InjectStop(nil) }

// InjectStop is Inject that gives up (returning nil) when stop is closed.
func (a *MockAcceptor) InjectStop(stop <-chan struct{}) *RecTransport {
	t := NewRecTransport()
	select {
	case <-stop:
		return nil
	case a.ch <- t:
		a.f.mu.Lock()
		a.f.Transports = append(a.f.Transports, t)
		a.f.mu.Unlock()
		return t
	case <-a.closed:
		return nil
	}
}

// IsClosed reports whether Close was called.
func (a *MockAcceptor) IsClosed() bool {
	select {
	case <-a.closed:
		return true
	default:
		return false
	}
}

// InAccept is the number of Accept calls currently parked.
func (a *MockAcceptor) InAccept() int { return int(atomic.LoadInt32(&a.inAccept)) }

// Accepts is the number of Accept calls started so far.
func (a *MockAcceptor) Accepts() int { return int(atomic.LoadInt32(&a.accepts)) }

// Accepted is the number of connections handed out.
func (a *MockAcceptor) Accepted() int { return int(atomic.LoadInt32(&a.accepted)) }

// CloseCalls is the number of Close calls.
func (a *MockAcceptor) CloseCalls() int { return int(atomic.LoadInt32(&a.closeCalls)) }
