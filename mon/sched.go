package mon

import (
	"hash/fnv"
	"runtime"
	"sync"
	"time"

	netty "github.com/go-netty/go-netty"
)

// ---- hook routing -------------------------------------------------------

var (
	routes   sync.Map // subject -> func(netty.VerifPoint)
	hookOnce sync.Once
)

// InstallHooks installs the process-wide dispatcher (idempotent).
func InstallHooks() {
	hookOnce.Do(func() {
		netty.SetVerifHook(func(p netty.VerifPoint, subject interface{}) {
			if f, ok := routes.Load(subject); ok {
				f.(func(netty.VerifPoint))(p)
			}
		})
	})
}

// Route delivers hook events of subject (a Channel or an idle handler) to fn.
func Route(subject interface{}, fn func(p netty.VerifPoint)) {
	InstallHooks()
	routes.Store(subject, fn)
}

// Unroute removes a subject.
func Unroute(subject interface{}) { routes.Delete(subject) }

// PointName maps hook points to the short names used in plans and signatures.
var PointName = map[netty.VerifPoint]string{
	netty.VpWriteEnqueued:        "wEnq",
	netty.VpWriteAcquired:        "wAcq",
	netty.VpSendLoop:             "sLoop",
	netty.VpSendBatched:          "sBat",
	netty.VpSendWritten:          "sWr",
	netty.VpSendRecycled:         "sRec",
	netty.VpSendFlushed:          "sFl",
	netty.VpSendReleased:         "sRel",
	netty.VpCloseElected:         "cEl",
	netty.VpClosePoll:            "cPoll",
	netty.VpCloseWaited:          "cWait",
	netty.VpCloseTransportClosed: "cTC",
	netty.VpCloseCancelled:       "cCan",
	netty.VpReadActiveDone:       "rAct",
	netty.VpReadIdleCheck:        "iR",
	netty.VpWriteIdleCheck:       "iW",
}

// WriterPoints, SenderPoints, CloserPoints group the channel hook points by role.
var (
	WriterPoints = []string{"wEnq", "wAcq"}
	SenderPoints = []string{"sLoop", "sBat", "sWr", "sRec", "sFl", "sRel"}
	CloserPoints = []string{"cEl", "cPoll", "cWait", "cTC", "cCan"}
)

// Role of a point name: 'w' writer, 's' sender, 'c' closer, 't' transport, 'h' harness.
func Role(name string) byte {
	if name == "" {
		return 'h'
	}
	switch name[0] {
	case 'w', 's', 'c', 't':
		return name[0]
	}
	return 'h'
}

// ---- marks, awaits, plans ----------------------------------------------

// Step kinds.
const (
	Yield = iota
	Sleep
	Gate
)

// Step is one perturbation: at the Occ-th (0 = every) passage of point At,
// yield N times, sleep D, or wait until point Until has been passed
// UntilCount times (or Timeout).
type Step struct {
	At         string
	Occ        int
	Kind       int
	N          int
	D          time.Duration
	Until      string
	UntilCount int
	// Rel: UntilCount is relative to Until's count at the moment of arrival.
	Rel     bool
	Timeout time.Duration
}

// Ev is one logged mark.
type Ev struct {
	Tick uint64
	Name string
}

// Sched is the per-trial mark board and perturbation engine.
type Sched struct {
	mu     sync.Mutex
	cond   *sync.Cond
	counts map[string]int
	log    []Ev
	plan   []Step
	maxLog int
	// gate statistics
	GateHit, GateMiss int
	released          bool
}

// NewSched creates a board with a plan.
func NewSched(plan []Step) *Sched {
	s := &Sched{counts: map[string]int{}, plan: plan, maxLog: 4096}
	s.cond = sync.NewCond(&s.mu)
	return s
}

// Mark records a passage of name and returns its occurrence number.
func (s *Sched) Mark(name string) int {
	s.mu.Lock()
	s.counts[name]++
	n := s.counts[name]
	if len(s.log) < s.maxLog {
		s.log = append(s.log, Ev{Tick(), name})
	}
	s.cond.Broadcast()
	s.mu.Unlock()
	return n
}

// Count returns how often name was marked.
func (s *Sched) Count(name string) int {
	s.mu.Lock()
	defer s.mu.Unlock()
	return s.counts[name]
}

// Await waits until name has been marked count times; false on timeout or release.
func (s *Sched) Await(name string, count int, timeout time.Duration) bool {
	s.mu.Lock()
	if s.counts[name] >= count {
		s.mu.Unlock()
		return true
	}
	if s.released {
		s.mu.Unlock()
		return false
	}
	deadline := time.Now().Add(timeout)
	tm := time.AfterFunc(timeout, func() {
		s.mu.Lock()
		s.cond.Broadcast()
		s.mu.Unlock()
	})
	defer tm.Stop()
	for s.counts[name] < count && !s.released && time.Now().Before(deadline) {
		s.cond.Wait()
	}
	ok := s.counts[name] >= count
	s.mu.Unlock()
	return ok
}

// ReleaseAll opens every gate (used at the end of a trial and by watchdogs).
func (s *Sched) ReleaseAll() {
	s.mu.Lock()
	s.released = true
	s.cond.Broadcast()
	s.mu.Unlock()
}

// Point marks name and applies the plan's steps for it.
func (s *Sched) Point(name string) {
	n := s.Mark(name)
	for i := range s.plan {
		st := &s.plan[i]
		if st.At != name || (st.Occ != 0 && st.Occ != n) {
			continue
		}
		switch st.Kind {
		case Yield:
			for k := 0; k < st.N; k++ {
				runtime.Gosched()
			}
		case Sleep:
			time.Sleep(st.D)
		case Gate:
			target := st.UntilCount
			if st.Rel {
				target += s.Count(st.Until)
			}
			ok := s.Await(st.Until, target, st.Timeout)
			s.mu.Lock()
			if ok {
				s.GateHit++
			} else {
				s.GateMiss++
			}
			s.mu.Unlock()
		}
	}
}

// HookFn adapts the board to a hook route.
func (s *Sched) HookFn() func(p netty.VerifPoint) {
	return func(p netty.VerifPoint) { s.Point(PointName[p]) }
}

// TransportFn adapts the board to RecTransport.OnOp ("tV0" = Writev entry, "tV1" = exit...).
func (s *Sched) TransportFn() func(kind string, phase int) {
	return func(kind string, phase int) {
		s.Point("t" + kind + string(rune('0'+phase)))
	}
}

// Log returns a copy of the mark log.
func (s *Sched) Log() []Ev {
	s.mu.Lock()
	defer s.mu.Unlock()
	out := make([]Ev, len(s.log))
	copy(out, s.log)
	return out
}

// Signature hashes the order of marked names and reports the number of role
// alternations between writer/closer and sender marks (a measure of how much
// the roles actually interleaved).
func (s *Sched) Signature() (sig uint64, alternations int) {
	s.mu.Lock()
	defer s.mu.Unlock()
	h := fnv.New64a()
	var last byte
	for _, e := range s.log {
		h.Write([]byte(e.Name))
		h.Write([]byte{'|'})
		r := Role(e.Name)
		if r == 't' || r == 'h' {
			continue
		}
		if last != 0 && r != last {
			alternations++
		}
		last = r
	}
	return h.Sum64(), alternations
}

// LogString renders the first n marks.
func (s *Sched) LogString(n int) string {
	s.mu.Lock()
	defer s.mu.Unlock()
	b := []byte{}
	for i, e := range s.log {
		if i >= n {
			b = append(b, " ..."...)
			break
		}
		if i > 0 {
			b = append(b, ' ')
		}
		b = append(b, e.Name...)
	}
	return string(b)
}
