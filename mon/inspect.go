package mon

import (
	"runtime"
	"strings"
)

// ParkedIn counts goroutines that are blocked (state select / chan send / chan
// receive / semacquire / sync.Cond.Wait / sleep) with a frame containing fn in their stack:
// a direct observation of "this call is parked".
func ParkedIn(fn string, states ...string) int {
	buf := make([]byte, 1<<20)
	n := runtime.Stack(buf, true)
	for n == len(buf) && len(buf) < 64<<20 {
		buf = make([]byte, 2*len(buf))
		n = runtime.Stack(buf, true)
	}
	if len(states) == 0 {
		states = []string{"select", "chan send"}
	}
	cnt := 0
	for _, g := range strings.Split(string(buf[:n]), "\n\n") {
		nl := strings.IndexByte(g, '\n')
		if nl < 0 {
			continue
		}
		head := g[:nl]
		if !strings.Contains(g[nl:], fn) {
			continue
		}
		for _, st := range states {
			if strings.Contains(head, "["+st) {
				cnt++
				break
			}
		}
	}
	return cnt
}

// GoID returns the current goroutine's id (parsed from runtime.Stack; used only
// to attribute hook events to the harness goroutine that caused them).
func GoID() int64 {
	var buf [64]byte
	n := runtime.Stack(buf[:], false)
	// "goroutine 123 [running]:"
	s := string(buf[:n])
	s = strings.TrimPrefix(s, "goroutine ")
	var id int64
	for i := 0; i < len(s) && s[i] >= '0' && s[i] <= '9'; i++ {
		id = id*10 + int64(s[i]-'0')
	}
	return id
}

// ParkedInAll counts goroutines (in any of the given states; none = any state except running) whose stack contains
// every one of the given function-name fragments.
func ParkedInAll(fns []string, states ...string) int {
	buf := make([]byte, 1<<20)
	n := runtime.Stack(buf, true)
	for n == len(buf) && len(buf) < 64<<20 {
		buf = make([]byte, 2*len(buf))
		n = runtime.Stack(buf, true)
	}
	cnt := 0
	for _, g := range strings.Split(string(buf[:n]), "\n\n") {
		nl := strings.IndexByte(g, '\n')
		if nl < 0 {
			continue
		}
		head, body := g[:nl], g[nl:]
		all := true
		for _, fn := range fns {
			if !strings.Contains(body, fn) {
				all = false
				break
			}
		}
		if !all || strings.Contains(head, "[running") {
			continue
		}
		if len(states) == 0 {
			cnt++
			continue
		}
		for _, st := range states {
			if strings.Contains(head, "["+st) {
				cnt++
				break
			}
		}
	}
	return cnt
}
