// vw_c16: dev binary linking only property C16.
package main

import (
	"verif/core"
	_ "verif/props/c16"
)

func main() { core.Main() }
