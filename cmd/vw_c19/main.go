// vw_c19: dev binary linking only property C19.
package main

import (
	"verif/core"
	_ "verif/props/c19"
)

func main() { core.Main() }
