// vw_c04: dev binary linking only property C04.
package main

import (
	"verif/core"
	_ "verif/props/c04"
)

func main() { core.Main() }
