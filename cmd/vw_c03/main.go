// vw_c03: dev binary linking only property C03.
package main

import (
	"verif/core"
	_ "verif/props/c03"
)

func main() { core.Main() }
