// vw_c14: dev binary linking only the C14 check.
package main

import (
	"verif/core"
	_ "verif/props/c14"
)

func main() { core.Main() }
