// vw_c08: dev binary linking only property C08.
package main

import (
	"verif/core"
	_ "verif/props/c08"
)

func main() { core.Main() }
