// vworker: driver and worker for every property check.
//
//	vworker drive  <ID> [tier]          run a whole check (spawns worker processes)
//	vworker worker <ID> --tier T --seed S --shard i --nshards n [--only case]
//	vworker replay <replay.json>
//	vworker list
package main

import (
	"verif/core"
	_ "verif/props"
)

func main() { core.Main() }
