// vw_c17: dev binary linking only the C17 property check.
package main

import (
	"verif/core"
	_ "verif/props/c17"
)

func main() { core.Main() }
