// vw_c15: dev binary linking only property C15 (same commands as vworker).
package main

import (
	"verif/core"
	_ "verif/props/c15"
)

func main() { core.Main() }
