package props

import (
	"bytes"
	"context"
	"errors"
	"fmt"
	"io"
	"net"
	"sync"
	"sync/atomic"
	"time"

	netty "github.com/go-netty/go-netty"

	"verif/core"
	"verif/mon"
	"verif/props/wl"
)

func init() {
	core.Register(&core.Prop{
		ID:    "C11",
		Level: "exploration",
		Rule: "trial = channel (sync / queued blocking / queued non-blocking, Q in 1,2,8,64) closed by one of 7 closers (user goroutine, handler on the read loop, parent-context end, transport read failure, sender write failure, holder CloseAll, parent-context end followed by Close while the sender is busy on a slow transport) with one of 11 Close arguments (nil, sentinel, wrapped, timeout net.Error, non-timeout net.Error, io.EOF, io.ErrShortWrite, context.Canceled, net.ErrClosed, netty.ErrChannelClosed plain and wrapped); " +
			"after the close has completed every write entry point (Write, Write1, Writev, CtxWrite1, CtxWritev, ReadFrom, Writer().Write) is called repeatedly (the queued select is random) with self-describing payloads; plus a concurrent variant where writers hammer while Close runs and only calls that began after Close returned are judged; " +
			"oracle: err != nil and no byte of the payload is ever handed to Write/Writev (attempts on the closed mock are logged too); distinct_nontrivial = distinct (mode, queue, closer, argument, entry point, outcome) tuples",
		Assumptions: []string{
			"'Close has returned' for closers inside the framework (read loop, sender) is taken as: every executor action of the channel has returned",
			"writes that overlap Close are exempt here (judged by C01/C06)",
		},
		Shards:     func(tier string) int { return 8 },
		TimeoutSec: func(tier string) int { return 600 },
		Required:   []string{"calls_after_close"},
		Run:        runC11,
	})
}

type tmoErr struct{ tmo bool }

func (e tmoErr) Error() string   { return fmt.Sprintf("net error timeout=%v", e.tmo) }
func (e tmoErr) Timeout() bool   { return e.tmo }
func (e tmoErr) Temporary() bool { return false }

var errSentinel = errors.New("sentinel close error")

var c11Args = []struct {
	name string
	err  error
}{
	{"nil", nil},
	{"sentinel", errSentinel},
	{"wrapped", fmt.Errorf("wrapped: %w", errSentinel)},
	{"net-timeout", tmoErr{true}},
	{"net-nontimeout", tmoErr{false}},
	// values some entry point might treat as 'not an error' on its own account
	{"io.EOF", io.EOF},
	{"io.ErrShortWrite", io.ErrShortWrite},
	{"context.Canceled", context.Canceled},
	{"net.ErrClosed", net.ErrClosed},
	// the error a write on another, already closed channel reported (a relay closing its peer with it)
	{"netty.ErrChannelClosed", netty.ErrChannelClosed},
	{"wrapped netty.ErrChannelClosed", fmt.Errorf("peer gone: %w", netty.ErrChannelClosed)},
}

var c11Closers = []string{"user", "read-loop-handler", "parent-context", "read-failure", "sender-write-failure", "holder-closeall", "shutdown-busy-sender", "close-before-serve", "close-gives-up-on-stalled-sender"}

var c11Entries = []string{"Write1", "Writev", "CtxWrite1", "CtxWritev", "Writer().Write", "ReadFrom", "Write"}

// c11EntryName also names entry 7 (used by the grid only).
func c11EntryName(e int) string {
	if e == 7 {
		return "Writer().Write(writer obtained before Close)"
	}
	return c11Entries[e]
}

type closeOnReadArg struct{ err error }

func (c *closeOnReadArg) HandleRead(ctx netty.InboundContext, message netty.Message) {
	var b [1]byte
	if _, err := message.(io.Reader).Read(b[:]); err != nil {
		panic(err)
	}
	ctx.Close(c.err)
}

var c11CtxKind int32 // rotates the context flavour handed to CtxWrite1/CtxWritev

func c11Call(ch netty.Channel, entry int, buf []byte) (err error) {
	defer func() {
		if r := recover(); r != nil {
			err = fmt.Errorf("escaped panic: %v", r)
		}
	}()
	ctx := context.Background()
	switch atomic.AddInt32(&c11CtxKind, 1) % 3 {
	case 1:
		var cancel context.CancelFunc
		ctx, cancel = context.WithTimeout(ctx, time.Hour) // a context that carries a deadline
		defer cancel()
	case 2:
		var cancel context.CancelFunc
		ctx, cancel = context.WithCancel(ctx)
		defer cancel()
	}
	switch entry {
	case 0:
		_, err = ch.Write1(buf)
	case 1:
		if len(buf) == 0 {
			_, err = ch.Writev(nil)
			break
		}
		_, err = ch.Writev([][]byte{buf[:len(buf)/2], buf[len(buf)/2:]})
	case 2:
		_, err = ch.CtxWrite1(ctx, buf)
	case 3:
		_, err = ch.CtxWritev(ctx, [][]byte{buf[:len(buf)/3], buf[len(buf)/3:]})
	case 4:
		_, err = ch.Writer().Write(buf)
	case 5:
		_, err = ch.ReadFrom(bytes.NewReader(buf))
	case 6:
		err = ch.Write(append([]byte(nil), buf...))
	}
	return err
}

func runC11(c *core.Ctx) {
	modes := []struct {
		m mon.Mode
		q int
	}{{mon.Sync, 0}, {mon.Blocking, 1}, {mon.Blocking, 2}, {mon.Blocking, 8}, {mon.Blocking, 64}, {mon.NonBlock, 1}, {mon.NonBlock, 2}, {mon.NonBlock, 8}, {mon.NonBlock, 64}}
	reps := c.Scale(12, 120)
	idx := 0
	for mi, md := range modes {
		for ci, closer := range c11Closers {
			for ai, arg := range c11Args {
				idx++
				if !c.Mine(idx) {
					continue
				}
				if (closer == "sender-write-failure" || closer == "shutdown-busy-sender") && md.m == mon.Sync {
					continue
				}
				if closer == "close-gives-up-on-stalled-sender" && (md.m != mon.NonBlock || ai%3 != 0) {
					continue // bounded-wait channels only (about a second per cell: a third of the arguments)
				}
				// closers that do not take an argument run once (arg index 0)
				if (closer == "parent-context" || closer == "read-failure" || closer == "sender-write-failure") && ai != 0 {
					continue
				}
				id := fmt.Sprintf("grid/%s/q%d/%s/%s", md.m, md.q, closer, arg.name)
				if !c.Case(id) {
					continue
				}
				c11Grid(c, id, md.m, md.q, closer, arg.name, arg.err, reps, mi*100+ci*10+ai)
			}
		}
	}
	// a streaming write that spans the Close: Close completes between two chunks of one ReadFrom / reader message
	si := 0
	for _, md := range modes {
		for ai, arg := range c11Args {
			for _, via := range []string{"ReadFrom", "Write(io.Reader)"} {
				si++
				if !c.Mine(si) {
					continue
				}
				id := fmt.Sprintf("span/%s/q%d/%s/%s", md.m, md.q, arg.name, via)
				if !c.Case(id) {
					continue
				}
				c11Span(c, id, md.m, md.q, arg.name, arg.err, via, ai)
			}
		}
	}
	// writes that start while the effective Close is inside transport.Close (the transport is closed, Close has not returned)
	wi := 0
	for rep := 0; rep < c.Scale(2, 20); rep++ {
		for _, md := range modes {
			for _, arg := range c11Args[:3] {
				wi++
				if !c.Mine(wi) {
					continue
				}
				id := fmt.Sprintf("close-window/%s/q%d/%s/r%d", md.m, md.q, arg.name, rep)
				if !c.Case(id) {
					continue
				}
				c11CloseWindow(c, id, md.m, md.q, arg.name, arg.err)
			}
		}
	}
	// Channel.Write issued while a Close is pending behind a stalled sender: it waits for the close (by design) and then
	// reports it - it never reports success for a message that was dropped
	di := 0
	for rep := 0; rep < c.Scale(1, 10); rep++ {
		for _, md := range modes[1:] {
			for _, arg := range c11Args[:2] {
				di++
				if !c.Mine(di) {
					continue
				}
				id := fmt.Sprintf("write-during-drain/%s/q%d/%s/r%d", md.m, md.q, arg.name, rep)
				if !c.Case(id) {
					continue
				}
				c11WriteDuringDrain(c, id, md.m, md.q, arg.name, arg.err)
			}
		}
	}
	// concurrent variant
	total := c.Scale(400, 6000)
	for t := 0; t < total; t++ {
		if !c.Mine(t) {
			continue
		}
		id := fmt.Sprintf("conc/t%d", t)
		if !c.Case(id) {
			continue
		}
		rng := c.Rand("conc", t)
		md := modes[rng.Intn(len(modes))]
		arg := c11Args[rng.Intn(len(c11Args))]
		c11Concurrent(c, id, md.m, md.q, arg.name, arg.err, rng.Int63())
	}
}

// closeBy closes the rig's channel with the given closer and returns after the close completed.
func c11CloseBy(rig *mon.Rig, closer string, arg error, cancel context.CancelFunc, holder netty.ChannelHolder) bool {
	switch closer {
	case "user":
		// Close is synchronous: it has returned when the call returns, whatever it did
		rig.Ch.Close(arg)
		rig.Ex.WaitOutstanding(0, 2*time.Second)
		return true
	case "close-gives-up-on-stalled-sender":
		// the sender is stuck inside the transport; a bounded-wait Close gives up waiting after about a second and closes
		rig.Ch.Write1(mon.Payload(14, 0, 64))
		rig.S.Await("tV0", 1, 3*time.Second)
		rig.Ch.Close(arg)
		return true
	case "close-before-serve":
		// the connection is rejected while it is still being set up: Close on a channel that was never served
		rig.Ch.Close(arg)
		return true
	case "shutdown-busy-sender":
		// Bootstrap.Shutdown's order (the parent context ends, then Close is called) while the background sender is
		// still busy with earlier payloads on a slow transport; Close is synchronous: it has returned when the call returns
		for i := 0; i < 3; i++ {
			rig.Ch.Write1(mon.Payload(14, i, 64))
		}
		cancel()
		rig.Ch.Close(arg)
		rig.Ex.WaitOutstanding(0, 3*time.Second)
		return true
	case "holder-closeall":
		holder.CloseAll(arg)
	case "read-loop-handler":
		rig.T.FeedBytes([]byte{'!'})
	case "parent-context":
		cancel()
		// the read loop is parked in Read; it notices the context once Read returns
		rig.T.FeedBytes([]byte{'.'})
	case "read-failure":
		rig.T.SetTerminal(io.ErrUnexpectedEOF)
	case "sender-write-failure":
		rig.T.AddFault(mon.Fault{Kind: mon.OpWritev, K: 1, Err: tmoErr{false}})
		rig.Ch.Write1(mon.Payload(15, 0, 32))
	}
	// every action of the channel (read loop, senders) has returned => Close returned
	return rig.Ex.WaitOutstanding(0, 10*time.Second)
}

func c11Grid(c *core.Ctx, id string, m mon.Mode, q int, closer, argName string, arg error, reps, salt int) {
	parent, cancel := context.WithCancel(context.Background())
	defer cancel()
	holder := netty.NewChannelHolder(4)
	opts := mon.RigOpts{Mode: m, Queue: q, Ctx: parent, QuietTail: true, Handlers: []netty.Handler{holder}}
	lenient := salt%2 == 1
	if lenient {
		// a transport that does not itself refuse writes after Close: the channel must
		opts.Tr = mon.NewRecTransport()
		opts.Tr.AcceptAfterClose = true
		c.Count("grid_cases_with_lenient_transport", 1)
	}
	if closer == "close-before-serve" {
		opts.NoServe = true
	}
	if closer == "close-gives-up-on-stalled-sender" {
		opts.Plan = []mon.Step{{At: "tV0", Occ: 1, Kind: mon.Gate, Until: "released", UntilCount: 1, Timeout: 8 * time.Second}}
	}
	if closer == "shutdown-busy-sender" {
		opts.Plan = []mon.Step{{At: "tV0", Occ: 0, Kind: mon.Sleep, D: 2 * time.Millisecond}}
	}
	if closer == "read-loop-handler" {
		opts.NoPark = true
		opts.Handlers = append(opts.Handlers, &closeOnReadArg{arg})
	}
	rig := mon.NewRig(opts)
	defer rig.Dispose()
	earlyWriter := rig.Ch.Writer() // obtained while the channel was open, used after it was closed
	if !c11CloseBy(rig, closer, arg, cancel, holder) {
		c.Inconclusive(id, "watchdog: close by "+closer+" did not complete")
		return
	}
	if rig.Ch.IsActive() && closer != "user" {
		c.Inconclusive(id, "channel still active after closer "+closer)
		return
	}
	closeTick := mon.Tick()
	sizes := []int{16, 100, 1024, 5000, 0} // also the empty payload: a write on a closed channel fails whatever it carries
	type call struct {
		entry, seq, size int
		err              error
	}
	var calls []call
	seq := 0
	for r := 0; r < reps; r++ {
		for e := range c11Entries {
			size := sizes[(r+e)%len(sizes)]
			buf := mon.Payload(e, seq, size)
			err := c11Call(rig.Ch, e, buf)
			calls = append(calls, call{e, seq, size, err})
			seq++
		}
		// entry 7: the io.Writer handed out before the close
		buf := mon.Payload(7, seq, sizes[r%len(sizes)])
		_, err := earlyWriter.Write(buf)
		calls = append(calls, call{7, seq, len(buf), err})
		seq++
	}
	rig.S.Mark("released")
	// let any sender action those calls may have started run to completion (a synchronous Close that returned without
	// closing the transport leaves the read loop parked: that action cannot be waited for)
	rest := 0
	if (closer == "shutdown-busy-sender" || closer == "user") && rig.T.InRead() > 0 {
		rest = 1
	}
	if !rig.Ex.WaitOutstanding(rest, 10*time.Second) {
		c.Inconclusive(id, "watchdog: sender still running")
		return
	}
	ops, _ := rig.T.Snapshot()
	sent := map[[2]int]string{}
	for _, o := range ops {
		if o.In < closeTick || (o.Kind != mon.OpWrite && o.Kind != mon.OpWritev) {
			continue
		}
		recs, _ := mon.ParseWire(o.Data)
		for _, r := range recs {
			if r.Tiny {
				continue
			}
			if o.Rejected {
				// handed to a transport that is closed and refused it: nothing was transmitted
				c.Count("attempts_refused_by_closed_transport", 1)
				continue
			}
			sent[[2]int{r.W, r.Seq}] = "accepted by the transport"
		}
	}
	for _, cl := range calls {
		c.Count("calls_after_close", 1)
		outcome := "error"
		if cl.err == nil {
			outcome = "nil"
		}
		_, reached := sent[[2]int{cl.entry, cl.seq}]
		if reached {
			outcome += "+transmitted"
		}
		c.Sig(m, q, closer, argName, cl.entry, outcome)
		argClass := "nonnil-arg"
		if arg == nil || closer == "parent-context" {
			argClass = "nil-arg"
		}
		if cl.err == nil {
			c.Violation(fmt.Sprintf("C11:success-after-close:%s:%s:%s", c11EntryName(cl.entry), modeClass(m), argClass), id,
				fmt.Sprintf("%s returned a nil error on a channel whose Close (by %s, argument %s) had completed; mode=%s Q=%d payload=%dB", c11EntryName(cl.entry), closer, argName, m, q, cl.size),
				map[string]interface{}{"mode": m.String(), "queue": q, "closer": closer, "arg": argName, "entry": c11EntryName(cl.entry), "ops": mon.OpString(ops)})
		}
		if reached {
			c.Violation(fmt.Sprintf("C11:transmitted-after-close:%s:%s", c11EntryName(cl.entry), modeClass(m)), id,
				fmt.Sprintf("payload of %s issued after Close (by %s, argument %s) completed was %s; mode=%s Q=%d err=%v", c11EntryName(cl.entry), closer, argName, sent[[2]int{cl.entry, cl.seq}], m, q, cl.err),
				map[string]interface{}{"mode": m.String(), "queue": q, "closer": closer, "arg": argName, "entry": c11EntryName(cl.entry), "ops": mon.OpString(ops)})
		}
	}
	if c.WantSample() {
		c.Sample(map[string]interface{}{"case": id, "calls": len(calls), "first_err": fmt.Sprint(calls[0].err), "ops": mon.OpString(ops)})
	}
}

// c11CloseWindow holds the effective Close right after the transport has been closed (inside transport.Close, which may
// take long: linger, TLS goodbye) and issues one call per low-level entry point in that window. The channel was closed
// before these calls began, so none may report success for data that is then discarded.
func c11CloseWindow(c *core.Ctx, id string, m mon.Mode, q int, argName string, arg error) {
	plan := []mon.Step{{At: "tC1", Occ: 1, Kind: mon.Gate, Until: "probed", UntilCount: 1, Timeout: 5 * time.Second}}
	rig := mon.NewRig(mon.RigOpts{Mode: m, Queue: q, QuietTail: true, Plan: plan})
	defer rig.Dispose()
	closed := make(chan struct{})
	go func() { defer close(closed); rig.Ch.Close(arg) }()
	if !rig.S.Await("tC1", 1, 5*time.Second) {
		rig.S.Mark("probed")
		c.Inconclusive(id, "Close did not reach transport.Close")
		return
	}
	type call struct {
		entry int
		err   error
	}
	var calls []call
	for e := 0; e < 6; e++ { // Channel.Write (entry 6) waits for a pending Close by design
		e := e
		done := make(chan error, 1)
		go func() { done <- c11Call(rig.Ch, e, mon.Payload(e, 0, 64)) }()
		select {
		case err := <-done:
			calls = append(calls, call{e, err})
		case <-time.After(3 * time.Second):
			rig.S.Mark("probed")
			c.Inconclusive(id, "a write issued while Close was inside transport.Close did not return")
			return
		}
	}
	rig.S.Mark("probed")
	select {
	case <-closed:
	case <-time.After(10 * time.Second):
		c.Inconclusive(id, "watchdog: Close did not return")
		return
	}
	rig.Ex.WaitOutstanding(0, 5*time.Second)
	ops, _ := rig.T.Snapshot()
	sent := map[int]bool{}
	for _, o := range ops {
		if (o.Kind == mon.OpWrite || o.Kind == mon.OpWritev) && !o.Rejected {
			recs, _ := mon.ParseWire(o.Data)
			for _, r := range recs {
				sent[r.W] = true
			}
		}
	}
	c.Count("close_window_trials", 1)
	for _, cl := range calls {
		c.Count("calls_while_transport_close_in_progress", 1)
		c.Sig("close-window", m, q, argName, cl.entry, cl.err == nil)
		if cl.err == nil && !sent[cl.entry] {
			c.Violation(fmt.Sprintf("C11:success-for-discarded-data-during-transport-close:%s:%s", c11Entries[cl.entry], modeClass(m)), id,
				fmt.Sprintf("%s began after the channel's Close(%s) had closed the transport (Close was still inside transport.Close) and returned nil; its payload never reached the transport; mode=%s Q=%d", c11Entries[cl.entry], argName, m, q),
				map[string]interface{}{"ops": mon.OpString(ops), "marks": rig.S.LogString(40)})
		}
	}
}

func c11WriteDuringDrain(c *core.Ctx, id string, m mon.Mode, q int, argName string, arg error) {
	plan := []mon.Step{{At: "tV0", Occ: 1, Kind: mon.Gate, Until: "released", UntilCount: 1, Timeout: 8 * time.Second}}
	rig := mon.NewRig(mon.RigOpts{Mode: m, Queue: q, QuietTail: true, Plan: plan})
	defer rig.Dispose()
	defer rig.S.Mark("released")
	rig.Ch.Write1(mon.Payload(14, 0, 64))
	if !rig.S.Await("tV0", 1, 3*time.Second) {
		c.Inconclusive(id, "sender never reached the transport")
		return
	}
	closed := make(chan struct{})
	go func() { defer close(closed); rig.Ch.Close(arg) }()
	for i := 0; i < 5000 && rig.Ch.IsActive(); i++ {
		time.Sleep(100 * time.Microsecond)
	}
	done := make(chan error, 1)
	go func() { done <- rig.Ch.Write(mon.Payload(6, 0, 64)) }()
	time.Sleep(20 * time.Millisecond)
	rig.S.Mark("released")
	select {
	case <-closed:
	case <-time.After(10 * time.Second):
		c.Inconclusive(id, "watchdog: Close did not complete")
		return
	}
	var err error
	select {
	case err = <-done:
	case <-time.After(5 * time.Second):
		c.Inconclusive(id, "watchdog: Channel.Write did not return after the Close completed")
		return
	}
	rig.Ex.WaitOutstanding(0, 5*time.Second)
	c.Count("writes_during_pending_close", 1)
	c.Sig("write-during-drain", m, q, argName, err == nil)
	_, wire := rig.T.Snapshot()
	recs, _ := mon.ParseWire(wire)
	sent := false
	for _, r := range recs {
		if r.W == 6 {
			sent = true
		}
	}
	if err == nil && !sent {
		c.Violation("C11:success-for-discarded-data-during-close:Write:"+modeClass(m), id,
			fmt.Sprintf("Channel.Write issued while Close(%s) was waiting for the stalled sender returned nil, and the message never reached the transport; mode=%s Q=%d", argName, m, q),
			map[string]interface{}{"marks": rig.S.LogString(40)})
	}
}

func modeClass(m mon.Mode) string {
	if m == mon.Sync {
		return "sync"
	}
	return "queued"
}

func c11Concurrent(c *core.Ctx, id string, m mon.Mode, q int, argName string, arg error, seed int64) {
	rig := mon.NewRig(mon.RigOpts{Mode: m, Queue: q, QuietTail: true})
	defer rig.Dispose()
	type call struct {
		w, seq, entry int
		callT, retT   uint64
		err           error
	}
	const W = 3
	var wg sync.WaitGroup
	results := make([][]call, W)
	closeRet := make(chan struct{})
	for w := 0; w < W; w++ {
		wg.Add(1)
		go func(w int) {
			defer wg.Done()
			after := 0
			for seq := 0; seq < 4000 && after < 40; seq++ {
				e := (seq + w) % len(c11Entries)
				buf := mon.Payload(w, seq, 16+(seq%3)*500)
				cl := call{w: w, seq: seq, entry: e}
				select {
				case <-closeRet:
					after++
				default:
				}
				cl.callT = mon.Tick()
				cl.err = c11Call(rig.Ch, e, buf)
				cl.retT = mon.Tick()
				results[w] = append(results[w], cl)
			}
		}(w)
	}
	var closeRetTick uint64
	go func() {
		for i := 0; i < int(seed%50); i++ {
			mon.Tick()
		}
		rig.Ch.Close(arg)
		closeRetTick = mon.Tick()
		close(closeRet)
	}()
	done := make(chan struct{})
	go func() { wg.Wait(); close(done) }()
	select {
	case <-done:
	case <-time.After(20 * time.Second):
		c.Inconclusive(id, "watchdog: concurrent writers did not finish")
		return
	}
	<-closeRet
	if !rig.Ex.WaitOutstanding(0, 10*time.Second) {
		c.Inconclusive(id, "watchdog: actions outstanding")
		return
	}
	// The user's Close call may have lost the election to a Close issued by the
	// framework (e.g. the tail closing on an exception) that was still waiting:
	// calls are judged only if they began after the user's Close returned AND
	// the inactive event of the effective Close had been delivered.
	_, inact := rig.Tail.Snapshot()
	if len(inact) == 0 {
		c.Inconclusive(id, "inactive event not observed")
		return
	}
	if it := rig.Tail.FirstInactiveTick(); it > closeRetTick {
		closeRetTick = it
	}
	ops, _ := rig.T.Snapshot()
	sent := map[[2]int]bool{}
	for _, o := range ops {
		if o.Kind != mon.OpWrite && o.Kind != mon.OpWritev {
			continue
		}
		if o.Rejected {
			continue
		}
		recs, _ := mon.ParseWire(o.Data)
		for _, r := range recs {
			sent[[2]int{r.W, r.Seq}] = true
		}
	}
	for w := range results {
		for _, cl := range results[w] {
			if cl.callT <= closeRetTick {
				c.Count("concurrent_calls_overlapping_or_before_close", 1)
				continue
			}
			c.Count("calls_after_close", 1)
			c.Count("concurrent_calls_after_close", 1)
			argClass := "nonnil-arg"
			if arg == nil {
				argClass = "nil-arg"
			}
			if cl.err == nil {
				c.Violation(fmt.Sprintf("C11:success-after-close:%s:%s:%s", c11Entries[cl.entry], modeClass(m), argClass), id,
					fmt.Sprintf("%s began at tick %d, after Close(%s) had returned (tick %d), and returned a nil error; mode=%s Q=%d", c11Entries[cl.entry], cl.callT, argName, closeRetTick, m, q), nil)
			}
			if sent[[2]int{cl.w, cl.seq}] {
				c.Violation(fmt.Sprintf("C11:transmitted-after-close:%s:%s", c11Entries[cl.entry], modeClass(m)), id,
					fmt.Sprintf("payload of %s that began after Close(%s) returned reached the transport; mode=%s Q=%d err=%v", c11Entries[cl.entry], argName, m, q, cl.err), nil)
			}
			c.Sig("conc", m, q, argName, cl.entry, cl.err == nil)
		}
	}
}

var _ net.Error = tmoErr{}
var _ = wl.SafeErr

// closingReader delivers chunk 1, then closes the channel from inside its second Read (so Close has
// returned before the second chunk is handed on), then delivers chunk 2 and EOF.
type closingReader struct {
	ch      netty.Channel
	arg     error
	n       int
	closeAt uint64
}

func (r *closingReader) Read(p []byte) (int, error) {
	r.n++
	switch r.n {
	case 1:
		return copy(p, mon.Payload(30, 1, 600)), nil
	case 2:
		r.ch.Close(r.arg)
		r.closeAt = mon.Tick()
		return copy(p, mon.Payload(30, 2, 600)), nil
	}
	return 0, io.EOF
}

func c11Span(c *core.Ctx, id string, m mon.Mode, q int, argName string, arg error, via string, salt int) {
	tr := mon.NewRecTransport()
	tr.AcceptAfterClose = true // a transport that does not refuse by itself: the channel must
	rig := mon.NewRig(mon.RigOpts{Mode: m, Queue: q, QuietTail: true, Tr: tr})
	defer rig.Dispose()
	rd := &closingReader{ch: rig.Ch, arg: arg}
	done := make(chan error, 1)
	go func() {
		defer func() {
			if r := recover(); r != nil {
				done <- fmt.Errorf("panic: %v", r)
			}
		}()
		if via == "ReadFrom" {
			_, err := rig.Ch.ReadFrom(rd)
			done <- err
		} else {
			done <- rig.Ch.Write(rd)
		}
	}()
	select {
	case <-done:
	case <-time.After(15 * time.Second):
		c.Inconclusive(id, "watchdog: spanning write did not return")
		return
	}
	rig.Ex.WaitOutstanding(0, 10*time.Second)
	c.Count("spanning_writes", 1)
	c.Count("calls_after_close", 1)
	c.Sig("span", m, q, argName, via)
	ops, _ := rig.T.Snapshot()
	for _, o := range ops {
		if (o.Kind == mon.OpWrite || o.Kind == mon.OpWritev) && o.AfterClose && !o.Rejected && len(o.Data) > 0 && rd.closeAt != 0 && o.In > rd.closeAt {
			c.Violation(fmt.Sprintf("C11:bytes-accepted-after-close:%s-spanning-close:%s", via, modeClass(m)), id,
				fmt.Sprintf("a %s whose reader needed several reads kept writing after Close(%s) had returned in between: %d bytes were handed to (and accepted by) the transport after the close; mode=%s Q=%d", via, argName, len(o.Data), m, q),
				map[string]interface{}{"ops": mon.OpString(ops)})
			return
		}
	}
}
