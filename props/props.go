// Package props links every property check into the worker binary.
package props

import (
	_ "verif/props/c03"
	_ "verif/props/c04"
	_ "verif/props/c08"
	_ "verif/props/c14"
	_ "verif/props/c15"
	_ "verif/props/c16"
	_ "verif/props/c17"
	_ "verif/props/c19"
)
