// Package props links every property check into the worker binary.
package props
