// Package c04 checks property C04: frame codecs round-trip or reject, with
// exact frame boundaries under any fragmentation of the byte stream.
package c04

import (
	"bytes"
	"errors"
	"fmt"
	"io"
	"math/rand"

	"verif/core"
	"verif/mon"
	fc "verif/props/framecodec"
)

func init() {
	core.Register(&core.Prop{
		ID:    "C04",
		Level: "exploration",
		Rule: "three case families, all a pure function of (seed, tier, index). (A) decoder conformance: a decoder configuration (360 LengthFieldCodec shapes = widths 1/2/4/8 x BE/LE x offsets 0/1/3 x 5 adjustments x strips 0/header/header+1, visited round-robin; varint; 7 delimiters x strip/no strip; 8 fixed sizes) " +
			"x 1..6 frames built by an independent reference encoder, one of them from a length class (minimal, field-capacity edge 254/255 resp. 65534/65535, pool classes 1023..4097, 65535..65537, maximum-frame edge max-1/max, and max+1 which must be rejected) " +
			"x a fragmentation plan (whole, 1-byte reads, cut inside every header/delimiter, every header byte alone, cuts inside bodies, cuts at boundaries, reads straddling boundaries, random, chunked, zero-length reads) x final bytes with/without EOF; " +
			"served through a recording transport to a real channel; the collector reads every delivered message to its end; oracle: i-th message == reference payload i (minus strip) and transport read offset after it == end of frame i. " +
			"(B) encoder conformance: every encoder (codec built-in, prepender with adjustment/includes-length, varint, delimiter, fixed) x payload lengths across 0, capacity and maximum edges x 9 carrier types; oracle: emitted bytes == reference header+body, or (value does not fit / exceeds max) exception and nothing emitted. " +
			"(C) round trip: library encoder output of several payloads concatenated and decoded by the matching library decoder under a fragmentation plan. distinct_nontrivial = distinct (configuration shape, length class, fragmentation kind, terminal, maximum mode) resp. (encoder shape, length class, carrier)",
		Assumptions: []string{
			"payloads outside a codec's contract are not generated: delimiter payloads containing the delimiter, fixed-length payloads of another size, length-field frames the field cannot express",
			"the emit-or-fail rule is applied to length headers (and the varint maximum the encoder itself declares) only",
			"4- and 8-byte field capacity edges (4 GiB, 8 EiB) are out of reach; those widths are exercised up to 65538-byte bodies (131075 at thorough tier)",
			"LengthFieldCodec's built-in encoder ignores offset/adjustment by construction; such configurations are judged on the decoder side against the reference encoder",
			"the independent reference encoders/decoders in props/framecodec/ref.go are trusted (they are cross-checked against each other on every stream)",
		},
		Shards:     func(tier string) int { return 16 },
		TimeoutSec: func(tier string) int { return map[bool]int{true: 300, false: 2400}[tier != "thorough"] },
		Required:   []string{"streams", "frames_checked", "encoder_writes", "round_trips"},
		Run:        run,
	})
}

var allPlans = append(append([]string{}, fc.PlanKinds...), "zero")

func run(c *core.Ctx) {
	runConcurrent(c)
	nDec := c.Scale(14400, 1800000)
	nRT := c.Scale(3600, 450000)
	shapes := fc.LFShapes()
	if c.Shard == 0 {
		c.Count("configs_length_field_shapes", int64(len(shapes)))
		c.Count("configs_delimiter", int64(2*len(fc.Delims)))
		c.Count("configs_fixed", int64(len(fc.FixedSizes)))
		c.Count("fragmentation_kinds", int64(len(allPlans)))
		c.Count("carrier_types", int64(len(fc.Carriers)))
	}
	for i := 0; i < nDec; i++ {
		if !c.Mine(i) {
			continue
		}
		id := fmt.Sprintf("dec%d", i)
		if !c.Case(id) {
			continue
		}
		decTrial(c, id, i, shapes)
	}
	encs := encCases(c)
	for j, ec := range encs {
		if !c.Mine(j) {
			continue
		}
		encCase(c, j, ec)
	}
	for r := 0; r < nRT; r++ {
		if !c.Mine(r) {
			continue
		}
		id := fmt.Sprintf("rt%d", r)
		if !c.Case(id) {
			continue
		}
		roundTrip(c, id, r)
	}
}

// ---- (A) decoder conformance ----------------------------------------------

func clamp(v, lo, hi int) int {
	if v < lo {
		return lo
	}
	if v > hi {
		return hi
	}
	return v
}

func pick(rng *rand.Rand, xs []int) int { return xs[rng.Intn(len(xs))] }

type stream struct {
	cfg      fc.Cfg
	wire     []byte
	layout   []fc.Span
	expect   [][]byte
	nValid   int // frames that must be delivered; a further frame (if any) must be rejected
	special  int // body length of the special frame
	class    string
	maxMode  string
	hasExtra bool
}

// bodyFn draws an admissible body of (about) n bytes; it may adjust n to the contract.
type bodyFn func(n int) (pre, body []byte)

func buildStream(rng *rand.Rand, cfg fc.Cfg, class int, k int) (s stream, ok bool) {
	var lo, hi int = 0, 1 << 30
	var mk bodyFn
	hdrLen := func(n int) int { return 0 }
	switch cfg.Kind {
	case fc.LF:
		lo = 0
		if cfg.Adjust > lo {
			lo = cfg.Adjust
		}
		if cfg.Strip-cfg.Hdr() > lo {
			lo = cfg.Strip - cfg.Hdr()
		}
		if cfg.Width <= 2 {
			hi = int(fc.FieldCap(cfg.Width)) + cfg.Adjust
		}
		mk = func(n int) ([]byte, []byte) { return fc.Bytes(rng, cfg.Offset), fc.Bytes(rng, n) }
		hdrLen = func(int) int { return cfg.Hdr() }
	case fc.Varint:
		mk = func(n int) ([]byte, []byte) { return nil, fc.Bytes(rng, n) }
		hdrLen = func(n int) int { return len(fc.PutUvarint(uint64(n))) }
	case fc.Delim:
		mk = func(n int) ([]byte, []byte) { return nil, fc.DelimBody(rng, n, cfg.Delim) }
		hdrLen = func(int) int { return len(cfg.Delim) }
	case fc.Fixed:
		lo, hi = cfg.Fixed, cfg.Fixed
		mk = func(n int) ([]byte, []byte) { return nil, fc.Bytes(rng, n) }
	}
	// the special length
	var sp int
	names := []string{"minimal", "capacity-edge", "pool-class", "max-edge", "reject-max+1"}
	s.class = names[class]
	switch class {
	case 0:
		sp = lo + rng.Intn(2)
	case 1:
		switch {
		case cfg.Kind == fc.LF && cfg.Width <= 2:
			sp = hi - rng.Intn(2)
		case cfg.Kind == fc.Varint:
			sp = pick(rng, []int{127, 128, 129, 16383, 16384, 16385})
		case cfg.Kind == fc.Delim:
			sp = pick(rng, []int{len(cfg.Delim) - 1, len(cfg.Delim), len(cfg.Delim) + 1, 15, 16, 17})
		default:
			sp = pick(rng, []int{65535, 65536, 65537})
		}
	case 2:
		sp = pick(rng, []int{1023, 1024, 1025, 4095, 4096, 4097, 65535, 65536, 65537})
		if cfg.Kind == fc.Delim && sp > 4097 {
			sp = 4097
		}
	default:
		sp = 20 + rng.Intn(300)
	}
	sp = clamp(sp, lo, hi)
	s.special = sp
	at := rng.Intn(k)
	bodies := make([]int, k)
	maxTotal := 0
	for f := 0; f < k; f++ {
		n := clamp(pick(rng, fc.SmallLens)+lo, lo, hi)
		if f == at {
			n = sp
		}
		bodies[f] = n
		if t := hdrLen(n) + n; cfg.Kind == fc.Varint {
			if n > maxTotal {
				maxTotal = n
			}
		} else if t > maxTotal {
			maxTotal = t
		}
	}
	// the maximum
	big := cfg
	big.Max = 1 << 30
	switch {
	case cfg.Kind == fc.Fixed:
		s.maxMode = "n/a"
	case class == 3:
		cfg.Max = maxTotal + rng.Intn(2) // largest frame == max or max-1
		s.maxMode = "tight"
	case class == 4:
		cfg.Max = maxTotal + rng.Intn(3)
		s.maxMode = "tight"
	case rng.Intn(2) == 0:
		cfg.Max = maxTotal
		s.maxMode = "tight"
	default:
		cfg.Max = 1 << 20
		s.maxMode = "loose"
	}
	if cfg.Kind != fc.Fixed && cfg.Max < 1 {
		cfg.Max = 1
	}
	if cfg.Kind == fc.LF && cfg.Max < cfg.Hdr() {
		cfg.Max = cfg.Hdr()
	}
	s.cfg = cfg
	for _, n := range bodies {
		pre, body := mk(n)
		w, ok := cfg.Frame(pre, body)
		if !ok {
			return s, false
		}
		st := len(s.wire)
		s.wire = append(s.wire, w...)
		h := st + hdrLen(n)
		if cfg.Kind == fc.Delim {
			h = st + n
		}
		s.layout = append(s.layout, fc.Span{Start: st, HdrEnd: h, End: len(s.wire)})
		s.expect = append(s.expect, cfg.Delivered(w))
	}
	s.nValid = k
	if class == 4 && cfg.Kind != fc.Fixed {
		// one more frame, exactly one byte beyond the maximum: must be rejected
		var n int
		switch cfg.Kind {
		case fc.LF:
			n = cfg.Max + 1 - cfg.Hdr()
		default: // varint: body; delimiter: body alone already exceeds max
			n = cfg.Max + 1
		}
		if n < lo || n > hi {
			return s, false
		}
		pre, body := mk(n)
		w, ok := big.Frame(pre, body)
		if !ok {
			return s, false
		}
		st := len(s.wire)
		s.wire = append(s.wire, w...)
		s.layout = append(s.layout, fc.Span{Start: st, HdrEnd: st + hdrLen(n), End: len(s.wire)})
		s.hasExtra = true
	}
	return s, true
}

func decCfg(i int, shapes []fc.Cfg) (cfg fc.Cfg, class, j int) {
	fam, g := i%10, i/10
	switch {
	case fam <= 5:
		j = g*6 + fam
		return shapes[j%len(shapes)], (j / len(shapes)) % 5, j
	case fam == 6 || (fam == 9 && g%2 == 1):
		j = g
		return fc.Cfg{Kind: fc.Varint}, g % 5, j
	case fam == 7 || fam == 8:
		j = g*2 + fam - 7
		d := j % (2 * len(fc.Delims))
		return fc.Cfg{Kind: fc.Delim, Delim: fc.Delims[d/2], StripDelim: d%2 == 0}, (j / (2 * len(fc.Delims))) % 5, j
	default:
		j = g / 2
		return fc.Cfg{Kind: fc.Fixed, Fixed: fc.FixedSizes[j%len(fc.FixedSizes)]}, (j / len(fc.FixedSizes)) % 4, j
	}
}

func decTrial(c *core.Ctx, id string, i int, shapes []fc.Cfg) {
	rng := c.Rand("dec", i)
	cfg, class, j := decCfg(i, shapes)
	k := 1 + rng.Intn(6)
	s, ok := buildStream(rng, cfg, class, k)
	if !ok {
		// not representable for this shape (e.g. max+1 beyond a 1-byte field): fall back to the minimal class
		s, ok = buildStream(rng, cfg, 0, k)
		if !ok {
			c.Count("streams_not_representable", 1)
			return
		}
	}
	// harness self-check: the reference decoder must agree with the reference encoder
	if fr, _ := fc.RefDecode(s.cfg, s.wire); len(fr) != s.nValid || !sameFrames(fr, s) {
		c.Inconclusive(id, "harness: reference decoder disagrees with reference encoder for "+s.cfg.String())
		return
	}
	plan := fc.MakePlan(allPlans[(j*7+class+i%3)%len(allPlans)], rng, len(s.wire), s.layout, s.cfg.Kind == fc.Delim)
	if rng.Intn(6) == 0 {
		plan.Term = fc.TermDataEOF
	}
	stop := s.nValid
	if s.hasExtra {
		stop++
	}
	res := fc.Run(fc.Trial{Cfg: s.cfg, Stream: s.wire, Plan: plan, StopAfter: stop, ReadBuf: pick(rng, []int{1, 7, 512, 4096, -1})})
	c.Count("streams", 1)
	c.Count("stream_bytes", int64(len(s.wire)))
	c.Count("transport_read_steps", int64(len(plan.Cuts)+1))
	c.Count("plan_"+plan.Kind, 1)
	c.Count("decoder_"+s.cfg.Kind, 1)
	if plan.Term == fc.TermDataEOF {
		c.Count("streams_final_bytes_with_eof", 1)
	}
	if s.hasExtra {
		c.Count("streams_with_frame_to_reject", 1)
	}
	c.Max("max_body_len", int64(s.special))
	c.Sig("dec", s.cfg.Shape(), s.class, fc.LenClass(s.special), plan.Kind, plan.Term, s.maxMode)
	judgeDecode(c, id, "decoder", s, plan, res)
	if c.WantSample() && i%97 == 5 {
		c.Sample(map[string]interface{}{"case": id, "config": s.cfg.String(), "frames": len(s.layout), "length_class": s.class,
			"special_body_len": s.special, "stream_len": len(s.wire), "plan": plan.Detail(), "delivered": len(res.Msgs)})
	}
}

func sameFrames(fr []fc.RFrame, s stream) bool {
	for i, f := range fr {
		if f.End != s.layout[i].End || !bytes.Equal(f.Out, s.expect[i]) {
			return false
		}
	}
	return true
}

// judgeDecode compares what the collector obtained with the expected frames.
func judgeDecode(c *core.Ctx, id, what string, s stream, plan fc.Plan, res *fc.Result) {
	dec := s.cfg.Kind
	if res.BuildErr != "" {
		c.Violation("C04:constructor-rejects-valid-configuration:"+dec, id, s.cfg.String()+" panicked: "+res.BuildErr, nil)
		return
	}
	if res.Watchdog {
		c.Inconclusive(id, "watchdog: trial did not end: "+s.cfg.String())
		return
	}
	detail := func(idx int, extra map[string]interface{}) map[string]interface{} {
		d := map[string]interface{}{"config": s.cfg.String(), "plan": plan.Detail(), "stream_len": len(s.wire), "stream_head": fc.Hex(s.wire, 96),
			"frames_expected": s.nValid, "frame_to_reject": s.hasExtra, "diverging_frame": idx, "layout": headSpans(s.layout),
			"exceptions": fc.ErrStrings(res.Exceptions), "messages_seen": len(res.Msgs)}
		for k, v := range extra {
			d[k] = v
		}
		return d
	}
	report := func(kind string, idx int, msg string, extra map[string]interface{}) {
		key := "C04:" + what + "-" + kind + ":" + dec
		switch {
		case dec == fc.Varint && len(plan.Zeros) > 0 && fc.ZeroInHeader(plan, s.layout, idx):
			key = "C04:varint-header-misread-on-zero-read"
		case plan.Term == fc.TermDataEOF && idx == len(s.layout)-1 && (kind == "frame-missing" || kind == "frame-read-error") && int(res.FinalOff) == len(s.wire) && raisedEOF(res):
			// every byte was handed out, the last ones together with io.EOF, and the decoder gave up with EOF
			key = "C04:last-frame-lost-when-final-bytes-arrive-with-eof:" + dec
		}
		c.Violation(key, id, fmt.Sprintf("%s, %d frame(s), fragmentation %s: frame #%d %s", s.cfg, len(s.layout), plan, idx, msg), detail(idx, extra))
	}
	idx := 0
	for _, m := range res.Msgs {
		if m.Err != nil {
			if idx >= s.nValid {
				break // a frame that must be rejected may fail as a read error
			}
			report("frame-read-error", idx, fmt.Sprintf("was handed downstream but reading it failed after %d of %d bytes: %v", len(m.Data), len(s.expect[idx]), m.Err), nil)
			return
		}
		if idx >= s.nValid {
			if s.hasExtra && idx == s.nValid {
				report("delivers-frame-beyond-maximum", idx, fmt.Sprintf("(%d bytes, one byte over maxFrameLength) was delivered (%d bytes) instead of being rejected", s.layout[idx].End-s.layout[idx].Start, len(m.Data)), nil)
				return
			}
			break
		}
		want := s.expect[idx]
		if !bytes.Equal(m.Data, want) {
			report("wrong-payload", idx, fmt.Sprintf("delivered %d bytes, expected %d (first difference at byte %d)", len(m.Data), len(want), firstDiff(m.Data, want)),
				map[string]interface{}{"got_head": fc.Hex(m.Data, 48), "want_head": fc.Hex(want, 48), "got_len": len(m.Data), "want_len": len(want)})
			return
		}
		if int(m.OffOut) != s.layout[idx].End {
			report("wrong-boundary", idx, fmt.Sprintf("payload correct but the transport read offset after the frame is %d, the frame ends at %d", m.OffOut, s.layout[idx].End), nil)
			return
		}
		idx++
		c.Count("frames_checked", 1)
	}
	if idx < s.nValid {
		report("frame-missing", idx, fmt.Sprintf("was never delivered (delivered %d of %d; exceptions: %v)", idx, s.nValid, fc.ErrStrings(res.Exceptions)), nil)
		return
	}
	if s.hasExtra {
		c.Count("oversize_frames_rejected", 1)
	}
	if e := res.RuntimeFault(); e != nil {
		c.Violation("C04:"+what+"-runtime-error:"+dec, id, fmt.Sprintf("%s raised a runtime fault: %v", s.cfg, e), detail(idx, nil))
	}
}

func raisedEOF(res *fc.Result) bool {
	for _, e := range res.Exceptions {
		if errors.Is(e, io.EOF) || errors.Is(e, io.ErrUnexpectedEOF) {
			return true
		}
	}
	return false
}

func headSpans(l []fc.Span) []fc.Span {
	if len(l) > 8 {
		return l[:8]
	}
	return l
}

func firstDiff(a, b []byte) int {
	for i := 0; i < len(a) && i < len(b); i++ {
		if a[i] != b[i] {
			return i
		}
	}
	if len(a) < len(b) {
		return len(a)
	}
	return len(b)
}

// ---- (B) encoder conformance ----------------------------------------------

type encSpec struct {
	enc fc.Enc
	n   int
}

func uniq(xs []int) []int {
	seen := map[int]bool{}
	var out []int
	for _, x := range xs {
		if x >= 0 && !seen[x] {
			seen[x] = true
			out = append(out, x)
		}
	}
	return out
}

func encCases(c *core.Ctx) []encSpec {
	var out []encSpec
	add := func(e fc.Enc, lens []int) {
		for _, n := range uniq(lens) {
			out = append(out, encSpec{e, n})
		}
	}
	top := c.Scale(65538, 131075)
	for _, w := range []int{1, 2, 4, 8} {
		for _, big := range []bool{true, false} {
			lens := []int{0, 1, 2, 254, 255, 256, 257, 300, 1023, 1024, 1025}
			if w >= 2 {
				lens = append(lens, 65534, 65535, 65536, 65537, top)
			} else {
				lens = append(lens, 511, 512, 65536)
			}
			add(fc.Enc{Kind: fc.LF, Big: big, Width: w, Max: 1 << 24}, lens)
			for _, adj := range []int{-w, -2, 0, 2, 7} {
				if adj == -2 && w == 2 {
					adj = -1
				}
				for _, inc := range []bool{false, true} {
					d := adj
					if inc {
						d += w
					}
					pl := []int{0, 1, -d - 1, -d, -d + 1, 100, 1024}
					if w <= 2 {
						capv := int(fc.FieldCap(w))
						pl = append(pl, capv-d-1, capv-d, capv-d+1, capv-d+2, capv+300)
					} else {
						pl = append(pl, 65535, 65536, 65537)
					}
					add(fc.Enc{Kind: fc.Prepender, Big: big, Width: w, Adjust: adj, Includes: inc}, pl)
				}
			}
		}
	}
	for _, max := range []int{1, 127, 128, 300, 16384, 70000} {
		add(fc.Enc{Kind: fc.Varint, Max: max}, []int{0, 1, max - 1, max, max + 1, max + 2, clampTo(127, max+1), clampTo(128, max+1), clampTo(129, max+1),
			clampTo(16383, max+1), clampTo(16385, max+1), clampTo(65537, max+1)})
	}
	for _, d := range fc.Delims {
		add(fc.Enc{Kind: fc.Delim, Delim: d, Max: 1 << 20}, []int{0, 1, len(d), 17, 1023, 1024, 1025, 4097})
	}
	for _, n := range fc.FixedSizes {
		add(fc.Enc{Kind: fc.Fixed, Fixed: n}, []int{n})
	}
	// random extras
	extra := c.Scale(200, 20000)
	base := append([]encSpec{}, out...)
	rng := c.Rand("enc-extra")
	for k := 0; k < extra; k++ {
		e := base[rng.Intn(len(base))]
		if e.enc.Kind != fc.Fixed {
			e.n = rng.Intn(3000)
		}
		out = append(out, e)
	}
	return out
}

func clampTo(v, hi int) int {
	if v > hi {
		return hi
	}
	return v
}

func payloadFor(rng *rand.Rand, e fc.Enc, n int) []byte {
	if e.Kind == fc.Delim {
		return fc.DelimBody(rng, n, e.Delim)
	}
	return fc.Bytes(rng, n)
}

func encCase(c *core.Ctx, j int, ec encSpec) {
	var rig *fc.EncRig
	for ci, carrier := range fc.Carriers {
		id := fmt.Sprintf("enc%d/%d", j, ci)
		if !c.CaseQuiet(id) {
			continue
		}
		if rig == nil {
			var err error
			if rig, err = fc.NewEncRig(ec.enc); err != nil {
				c.Violation("C04:constructor-rejects-valid-configuration:"+ec.enc.Kind, id, ec.enc.String()+" panicked: "+err.Error(), nil)
				return
			}
			defer rig.Close()
		}
		rng := c.Rand("enc", j, ci)
		p := payloadFor(rng, ec.enc, ec.n)
		want, admitted := ec.enc.Expect(p)
		em, exc, werr := rig.Write(fc.Carry(carrier, p, rng))
		c.Count("encoder_writes", 1)
		if !admitted {
			c.Count("encoder_writes_not_admitted", 1)
		}
		c.Sig("enc", ec.enc.Shape(), fc.LenClass(ec.n), carrier, admitted)
		judgeEnc(c, id, ec.enc, carrier, p, want, admitted, em, exc, werr)
	}
}

func judgeEnc(c *core.Ctx, id string, e fc.Enc, carrier string, p, want []byte, admitted bool, em []fc.Emission, exc []error, werr error) {
	fam := e.Kind
	var got []byte
	for _, m := range em {
		got = append(got, m.Bytes...)
	}
	det := map[string]interface{}{"encoder": e.String(), "carrier": carrier, "payload_len": len(p), "payload_head": fc.Hex(p, 32),
		"emissions": len(em), "emitted_len": len(got), "emitted_head": fc.Hex(got, 24), "exceptions": fc.ErrStrings(exc), "admitted": admitted}
	if want != nil {
		det["expected_head"] = fc.Hex(want, 24)
	}
	if werr != nil {
		c.Inconclusive(id, "harness: channel refused the write: "+werr.Error())
		return
	}
	where := fmt.Sprintf("%s, %d-byte payload as %s", e, len(p), carrier)
	if !admitted {
		if len(em) == 0 {
			if len(exc) == 0 {
				c.Violation("C04:encoder-drops-payload-silently:"+fam, id, where+": not representable, nothing was emitted and no exception was raised", det)
			} else {
				c.Count("encoder_rejections_observed", 1)
			}
			return
		}
		switch fam {
		case fc.LF, fc.Prepender:
			v, _ := e.HeaderValue(len(p))
			hdr := got
			if len(hdr) > e.Width {
				hdr = hdr[:e.Width]
			}
			det["header_value_defined"] = v
			det["header_value_emitted"] = fc.GetUint(e.Big, hdr)
			trunc := bytes.Equal(got, append(fc.PutUint(e.Big, e.Width, uint64(v)), p...))
			switch {
			case trunc && v > 0:
				c.Violation("C04:length-field-overflow-silently-truncated", id,
					fmt.Sprintf("%s: header value %d does not fit %d byte(s); the encoder emitted header %d followed by the %d-byte body instead of raising an exception", where, v, e.Width, fc.GetUint(e.Big, hdr), len(p)), det)
			case trunc:
				c.Violation("C04:length-field-negative-silently-wrapped", id,
					fmt.Sprintf("%s: header value %d is negative; the encoder emitted header %d followed by the %d-byte body instead of raising an exception", where, v, fc.GetUint(e.Big, hdr), len(p)), det)
			default:
				c.Violation("C04:encoder-emits-garbage-for-unrepresentable-length:"+fam, id, where+fmt.Sprintf(": header value %d does not fit and the emitted %d bytes are neither a truncation nor a valid frame", v, len(got)), det)
			}
		default:
			c.Violation("C04:encoder-exceeds-declared-maximum:"+fam, id, where+fmt.Sprintf(": payload exceeds maxFrameLength %d but %d bytes were emitted", e.Max, len(got)), det)
		}
		return
	}
	switch {
	case len(exc) > 0 && len(em) == 0:
		c.Violation("C04:encoder-rejects-admitted-payload:"+fam+":"+carrier, id, where+": raised "+fc.ErrStrings(exc)[0]+" for a payload the configuration admits", det)
	case len(exc) > 0:
		c.Violation("C04:encoder-emits-and-raises:"+fam+":"+carrier, id, where+": emitted a frame and raised "+fc.ErrStrings(exc)[0], det)
	case len(em) == 0:
		c.Violation("C04:encoder-drops-payload-silently:"+fam, id, where+": nothing emitted, no exception", det)
	case len(em) != 1 || em[0].Err != "":
		c.Violation("C04:encoder-emission-malformed:"+fam+":"+carrier, id, where+fmt.Sprintf(": %d emissions (%v)", len(em), em[0].Err), det)
	case !bytes.Equal(got, want):
		part := "body"
		if h := len(want) - len(p); fam != fc.Delim && (len(got) < h || !bytes.Equal(got[:h], want[:h])) {
			part = "header"
		} else if fam == fc.Delim {
			part = "frame"
		}
		c.Violation("C04:encoder-wrong-"+part+":"+fam+":"+carrier, id, where+fmt.Sprintf(": emitted %d bytes, expected %d; first difference at byte %d", len(got), len(want), firstDiff(got, want)), det)
	default:
		c.Count("encoder_frames_checked", 1)
	}
}

// ---- (C) round trip --------------------------------------------------------

func rtEnc(rng *rand.Rand, r int) fc.Enc {
	big := rng.Intn(2) == 0
	w := []int{1, 2, 4, 8}[(r/8)%4]
	switch r % 8 {
	case 0, 1:
		return fc.Enc{Kind: fc.LF, Big: big, Width: w, Max: 1 << 20}
	case 2, 3, 4:
		adj := pick(rng, []int{-w, -1, 0, 2, 7})
		return fc.Enc{Kind: fc.Prepender, Big: big, Width: w, Adjust: adj, Includes: rng.Intn(2) == 0}
	case 5:
		return fc.Enc{Kind: fc.Varint, Max: 1 << 20}
	case 6:
		return fc.Enc{Kind: fc.Delim, Delim: fc.Delims[(r/8)%len(fc.Delims)], Max: 1 << 20}
	}
	return fc.Enc{Kind: fc.Fixed, Fixed: fc.FixedSizes[(r/8)%len(fc.FixedSizes)]}
}

func roundTrip(c *core.Ctx, id string, r int) {
	rng := c.Rand("rt", r)
	e := rtEnc(rng, r)
	rig, err := fc.NewEncRig(e)
	if err != nil {
		c.Violation("C04:constructor-rejects-valid-configuration:"+e.Kind, id, e.String()+" panicked: "+err.Error(), nil)
		return
	}
	// a third of the round trips send the encoder's output through the channel's own write path (synchronous, or queued
	// with the background sender held back until every write call has returned) and decode what reached the transport
	var wrig *fc.WireRig
	nonBlockVia := false
	refused := 0
	via := ""
	if rng.Intn(3) == 0 {
		mode, q := mon.Sync, 0
		switch rng.Intn(4) {
		case 0, 1:
			mode, q = mon.Blocking, 4096
		case 2:
			// a small non-blocking queue behind the late sender: messages that find it full are refused with an exception
			// (an allowed outcome), and what does go out must still be a sequence of whole frames of the accepted ones
			mode, q = mon.NonBlock, 1+rng.Intn(4)
			nonBlockVia = true
		}
		var wrap *[2]int
		if mode != mon.NonBlock && rng.Intn(3) == 0 {
			// on the library's write-buffering transport wrappers (small buffer: frames below and above its size)
			wv := [][2]int{{0, 64}, {32, 64}, {0, 1024}}[rng.Intn(3)]
			wrap = &wv
			if mode == mon.Blocking {
				q = 4 // several sender batches between two flushes
			}
			c.Count("round_trips_through_channel_on_buffering_wrapper", 1)
		}
		if wrig, err = fc.NewWireRig(e, mode, q, wrap); err != nil {
			wrig = nil
		} else {
			via = " via the " + mode.String() + " channel"
			c.Count("round_trips_through_channel", 1)
		}
	}
	// admitted payload lengths for the encoder
	lo, hi := 0, 70000
	if e.Kind == fc.LF || e.Kind == fc.Prepender {
		d, _ := e.HeaderValue(0)
		if -int(d) > lo {
			lo = -int(d)
		}
		if e.Width <= 2 {
			hi = int(fc.FieldCap(e.Width)) - int(d)
		}
	}
	k := 1 + rng.Intn(5)
	var s stream
	maxLen := 0
	// the payloads of one sequence are records laid out back to back in one application buffer; the []byte carriers below hand
	// the codec sub-slices of it (spare capacity behind every payload: the next record), the other carriers get copies
	var ps [][]byte
	var arena []byte
	for f := 0; f < k; f++ {
		n := pick(rng, fc.SmallLens)
		switch rng.Intn(6) {
		case 0:
			n = pick(rng, fc.Lens)
		case 1:
			n = hi - rng.Intn(2) // capacity edge (or large)
		}
		if n < lo {
			n += lo
		}
		n = clamp(n, lo, hi)
		if e.Kind == fc.Fixed {
			n = e.Fixed
		}
		if e.Kind == fc.Delim && n > 4097 {
			n = 4097
		}
		p := payloadFor(rng, e, n)
		ps = append(ps, p)
		arena = append(arena, p...)
	}
	arena = append(arena, make([]byte, 16)...)
	off := 0
	for f := 0; f < k; f++ {
		p, n := ps[f], len(ps[f])
		carrier := fc.Carriers[rng.Intn(len(fc.Carriers))]
		var msg interface{}
		if carrier == "[]byte" || rng.Intn(6) == 0 {
			carrier, msg = "[]byte(sub-slice of a shared buffer)", arena[off:off+n]
			c.Count("round_trip_shared_buffer_writes", 1)
		} else {
			msg = fc.Carry(carrier, p, rng)
		}
		off += n
		if wrig != nil && nonBlockVia && (e.Kind == fc.Fixed || e.Kind == fc.Delim) {
			// these encoders hand stream carriers on as streams; a stream that meets a full non-blocking queue half-way is cut
			// by the channel, not by the encoder (C14's business): use the carrier that reaches the head as one write
			if _, isBytes := msg.([]byte); !isBytes {
				carrier, msg = "[]byte", append([]byte{}, p...)
			}
		}
		if wrig != nil && e.Kind == fc.Fixed {
			if _, isString := msg.(string); isString {
				// the fixed-length encoder passes messages through unchanged and the channel's head handler takes no
				// strings (that needs the text codec): use a carrier the head accepts
				carrier, msg = "[]byte", append([]byte{}, p...)
			}
		}
		if wrig != nil {
			excBefore := wrig.ExcCount()
			if werr := wrig.Write(msg); werr != nil {
				wrig.Finish()
				rig.Close()
				c.Violation("C04:round-trip-encode-failed:"+e.Kind, id, fmt.Sprintf("%s%s: Channel.Write of an admitted %d-byte payload (%s) returned %v", e, via, n, carrier, werr), nil)
				return
			}
			if wrig.ExcCount() > excBefore {
				refused++
				c.Count("round_trip_messages_refused_by_full_queue", 1)
				continue // raised an exception: contributes no frame
			}
			want, _ := e.Expect(p)
			st := len(s.wire)
			s.wire = append(s.wire, want...) // placeholder with the reference layout; replaced by the real wire below
			s.layout = append(s.layout, fc.Span{Start: st, HdrEnd: st + len(want) - n, End: len(s.wire)})
			if e.Kind == fc.Delim {
				s.layout[len(s.layout)-1].HdrEnd = st + n
			}
			s.expect = append(s.expect, p)
			if n > maxLen {
				maxLen = n
			}
			continue
		}
		em, exc, _ := rig.Write(msg)
		if len(em) != 1 || len(exc) != 0 || em[0].Err != "" {
			rig.Close()
			c.Violation("C04:round-trip-encode-failed:"+e.Kind, id, fmt.Sprintf("%s refused or mangled an admitted %d-byte payload (%s): emissions=%d exceptions=%v", e, n, carrier, len(em), fc.ErrStrings(exc)),
				map[string]interface{}{"encoder": e.String(), "payload_len": n, "carrier": carrier})
			return
		}
		st := len(s.wire)
		s.wire = append(s.wire, em[0].Bytes...)
		s.layout = append(s.layout, fc.Span{Start: st, HdrEnd: st + len(em[0].Bytes) - n, End: len(s.wire)})
		if e.Kind == fc.Delim {
			s.layout[len(s.layout)-1].HdrEnd = st + n
		}
		s.expect = append(s.expect, p)
		if n > maxLen {
			maxLen = n
		}
	}
	rig.Close()
	if wrig != nil {
		wire, exc, ok := wrig.Finish()
		if !ok {
			c.Inconclusive(id, "watchdog: the channel did not quiesce after the round-trip writes")
			return
		}
		if len(exc) != refused || len(wire) != len(s.wire) {
			c.Violation("C04:round-trip-encode-failed:"+e.Kind, id, fmt.Sprintf("%s%s: %d admitted payloads written, %d bytes reached the transport (reference encoding: %d bytes), exceptions=%v", e, via, k, len(wire), len(s.wire), fc.ErrStrings(exc)),
				map[string]interface{}{"encoder": e.String()})
			return
		}
		s.wire = wire
		if k = len(s.expect); k == 0 {
			return
		}
	}
	// the matching decoder; maximum tight or loose
	total := 0
	for _, sp := range s.layout {
		if l := sp.End - sp.Start; l > total {
			total = l
		}
	}
	max := 1 << 20
	s.maxMode = "loose"
	if rng.Intn(2) == 0 {
		max, s.maxMode = total, "tight"
		if e.Kind == fc.Varint {
			max = maxLen
		}
		if max < 1 {
			max = 1
		}
	}
	s.cfg = e.Paired(max)
	s.nValid, s.special = k, maxLen
	plan := fc.MakePlan(allPlans[(r/8+r)%len(allPlans)], rng, len(s.wire), s.layout, e.Kind == fc.Delim)
	if rng.Intn(8) == 0 {
		plan.Term = fc.TermDataEOF
	}
	res := fc.Run(fc.Trial{Cfg: s.cfg, Stream: s.wire, Plan: plan, StopAfter: k, ReadBuf: pick(rng, []int{1, 7, 512, 4096, -1})})
	c.Count("round_trips", 1)
	c.Count("round_trip_frames", int64(k))
	c.Sig("rt", e.Shape(), fc.LenClass(maxLen), plan.Kind, plan.Term, s.maxMode)
	judgeDecode(c, id, "round-trip", s, plan, res)
}
