package c04

import (
	"encoding/binary"
	"fmt"
	"sort"

	netty "github.com/go-netty/go-netty"
	"github.com/go-netty/go-netty/codec/frame"

	"verif/core"
	"verif/mon"
	"verif/props/concodec"
)

// runConcurrent: the emit-or-fail clause under concurrent writers. A frame encoder serves every goroutine
// writing to its channel; a header that lives in per-codec state disagrees with its body once two messages
// are in flight. Each frame on the wire must carry a header equal to its body length and a whole payload.
func runConcurrent(c *core.Ctx) {
	type enc struct {
		name string
		mk   func() netty.Handler
		hdr  func(b []byte) (n, used int) // reference header parser
	}
	encs := []enc{
		{"length-field-be4", func() netty.Handler { return frame.LengthFieldCodec(binary.BigEndian, 1<<20, 0, 4, 0, 4) },
			func(b []byte) (int, int) {
				if len(b) < 4 {
					return -1, 0
				}
				return int(binary.BigEndian.Uint32(b)), 4
			}},
		{"prepender-le2", func() netty.Handler { return frame.LengthFieldPrepender(binary.LittleEndian, 2, 0, false) },
			func(b []byte) (int, int) {
				if len(b) < 2 {
					return -1, 0
				}
				return int(binary.LittleEndian.Uint16(b)), 2
			}},
		{"varint", func() netty.Handler { return frame.VarintLengthFieldCodec(1 << 20) },
			func(b []byte) (int, int) {
				v, k := binary.Uvarint(b)
				if k <= 0 {
					return -1, 0
				}
				return int(v), k
			}},
	}
	total := c.Scale(60, 1200)
	for i := 0; i < total; i++ {
		if !c.Mine(i) {
			continue
		}
		e := encs[i%len(encs)]
		mode := mon.Mode(1 * ((i / 3) % 2)) // sync / queued-blocking
		id := fmt.Sprintf("conc%d", i)
		if !c.Case(id) {
			continue
		}
		rng := c.Rand("conc", i)
		W := 2 + rng.Intn(3)
		per := 4 + rng.Intn(8)
		sizes := []int{20, 60, 127, 128, 129, 300, 1000, 5000} // varint header length changes at 128
		msgs := make([][]netty.Message, W)
		want := map[string]bool{}
		for w := range msgs {
			for s := 0; s < per; s++ {
				p := mon.Payload(w, s, sizes[rng.Intn(len(sizes))])
				msgs[w] = append(msgs[w], p)
				want[fmt.Sprintf("%d.%d", w, s)] = true
			}
		}
		res := concodec.Run(mode, 8, []netty.Handler{e.mk()}, msgs)
		c.Count("concurrent_encoder_trials", 1)
		if res.Stalled {
			c.Count("concurrent_encoder_trials_with_pileup", 1)
			c.Sig("conc", e.name, mode, W)
		}
		if !res.Done {
			c.Inconclusive(id, "watchdog: concurrent writers stuck")
			continue
		}
		// decode with the reference header parser
		got := []string{}
		off := 0
		bad := ""
		for off < len(res.Wire) {
			n, used := e.hdr(res.Wire[off:])
			if n < 0 || off+used+n > len(res.Wire) {
				bad = fmt.Sprintf("frame at offset %d: header announces %d body bytes, %d left on the wire", off, n, len(res.Wire)-off-used)
				break
			}
			body := res.Wire[off+used : off+used+n]
			recs, perr := mon.ParseWire(body)
			if len(perr) > 0 || len(recs) != 1 || recs[0].Size != n {
				bad = fmt.Sprintf("frame at offset %d: header announces %d bytes but they are not one whole payload (the header disagrees with the body)", off, n)
				break
			}
			got = append(got, fmt.Sprintf("%d.%d", recs[0].W, recs[0].Seq))
			off += used + n
		}
		c.Count("concurrent_frames_checked", int64(len(got)))
		if bad == "" && len(res.Excs) == 0 {
			sort.Strings(got)
			if len(got) != len(want) {
				bad = fmt.Sprintf("%d frames written, %d decoded", len(want), len(got))
			}
			for _, g := range got {
				if !want[g] {
					bad = "decoded a frame that was never written: " + g
				}
			}
		}
		if bad != "" {
			c.Violation("C04:encoder-header-disagrees-with-body-under-concurrent-writers:"+e.name, id,
				fmt.Sprintf("%d goroutines writing through %s (%s channel): %s", W, e.name, mode, bad),
				map[string]interface{}{"encoder": e.name, "writers": W, "wire_prefix": fmt.Sprintf("%x", res.Wire[:minInt(len(res.Wire), 96)])})
		}
	}
}

func minInt(a, b int) int {
	if a < b {
		return a
	}
	return b
}
