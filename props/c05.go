package props

import (
	"bytes"
	"context"
	"errors"
	"fmt"
	"io"
	"runtime"
	"sync"
	"sync/atomic"
	"time"

	netty "github.com/go-netty/go-netty"

	"verif/core"
	"verif/mon"
)

func init() {
	core.Register(&core.Prop{
		ID:    "C05",
		Level: "exploration",
		Rule: "trial = real channel (sync/queued) with a recording life-cycle probe; 1..6 closers with distinct errors are released together from: user goroutines, inside the active / read / event / exception handlers, a transport read failure, a sender write failure, parent-context end, holder.CloseAll; writers and reads are in flight; hook gates place closers against each other, the sender and the read loop; " +
			"plus bootstrap trials (mock factory) checking that active completed before Connect returned / before the acceptor was asked for the next connection. Oracle over the recorded event log: active exactly once and finished before the first read and before the channel was handed out; reads never concurrent; transport closed exactly once; inactive exactly once carrying the error of the Close call that won (attributed through the vpCloseElected hook and goroutine ids); " +
			"IsActive()==false sampled after every Close return; Context().Err()!=nil sampled after the winning Close returned; the read-loop action returns after an unswallowed read failure (also when the application's exception handler itself panics: strict-exc trials, non-termination decided by >20000 failed reads delivered on an open channel); distinct_nontrivial = distinct (mode, closer kinds multiset, winner kind, event-order signature) tuples",
		Assumptions: []string{"bounded progress: termination of the read loop is judged at executor quiescence with a watchdog (inconclusive on expiry)"},
		Shards:      func(tier string) int { return 8 },
		TimeoutSec:  func(tier string) int { return map[bool]int{true: 300, false: 2400}[tier != "thorough"] },
		Required:    []string{"closes_judged", "concurrent_close_calls", "bootstrap_handout_checks"},
		Run:         runC05,
	})
}

const c05StallPlan = "sync-write-stalled-in-transport-until-it-is-closed"

var c05Kinds = []string{"user", "user", "user", "in-read", "in-event", "in-exception", "in-active", "read-failure", "sender-failure", "parent-context", "holder", "read-failure-neterr-swallowed", "read-timeout-unhandled"}

type lifeProbe struct {
	mu            sync.Mutex
	activeIn      []uint64
	activeOut     []uint64
	readIn        []uint64
	inactive      []error
	inactiveAt    []uint64
	exceptions    []error
	inRead        int32
	nReads        int64
	maxInRead     int32
	reg           *closerReg
	errRead       error
	errEvent      error
	errExc        error
	errActive     error
	closeActive   bool
	gate          func(string)
	client        bool
	wrapReadErr   bool
	swallowExc    bool
	forwardExc    bool // the application has no closing exception handler: exceptions travel on to the built-in tail
	panicInactive bool
}

// closerReg attributes Close calls to goroutines.
type closerReg struct {
	mu      sync.Mutex
	byGo    map[int64]error
	has     map[int64]bool
	elected []int64
}

func (r *closerReg) register(err error) {
	r.mu.Lock()
	id := mon.GoID()
	r.byGo[id] = err
	r.has[id] = true
	r.mu.Unlock()
}

func (p *lifeProbe) HandleActive(ctx netty.ActiveContext) {
	p.mu.Lock()
	p.activeIn = append(p.activeIn, mon.Tick())
	p.mu.Unlock()
	if p.gate != nil {
		p.gate("active")
	}
	if p.closeActive {
		p.reg.register(p.errActive)
		ctx.Close(p.errActive)
	}
	ctx.HandleActive()
	p.mu.Lock()
	p.activeOut = append(p.activeOut, mon.Tick())
	p.mu.Unlock()
}

type c05Event struct{}

func (p *lifeProbe) HandleRead(ctx netty.InboundContext, message netty.Message) {
	n := atomic.AddInt32(&p.inRead, 1)
	for {
		m := atomic.LoadInt32(&p.maxInRead)
		if n <= m || atomic.CompareAndSwapInt32(&p.maxInRead, m, n) {
			break
		}
	}
	p.mu.Lock()
	if len(p.readIn) < 256 {
		p.readIn = append(p.readIn, mon.Tick())
	}
	p.nReads++
	p.mu.Unlock()
	defer atomic.AddInt32(&p.inRead, -1)
	var b [1]byte
	_, err := message.(io.Reader).Read(b[:])
	if err != nil {
		if p.wrapReadErr {
			// the way the shipped LengthFieldCodec reports a failed header read
			panic(fmt.Errorf("read header fail, error: %w", err))
		}
		panic(err)
	}
	switch b[0] {
	case 'c':
		p.reg.register(p.errRead)
		ctx.Close(p.errRead)
	case 'e':
		ctx.Channel().Trigger(c05Event{})
	case 'p':
		panic(p.errExc)
	}
}

func (p *lifeProbe) HandleEvent(ctx netty.EventContext, ev netty.Event) {
	if _, ok := ev.(c05Event); ok {
		p.reg.register(p.errEvent)
		ctx.Close(p.errEvent)
		return
	}
	ctx.HandleEvent(ev)
}

func (p *lifeProbe) HandleException(ctx netty.ExceptionContext, ex netty.Exception) {
	p.mu.Lock()
	if len(p.exceptions) < 1000 {
		p.exceptions = append(p.exceptions, ex)
	}
	fwd := p.forwardExc
	p.mu.Unlock()
	if p.swallowExc {
		return // an application that only logs exceptions
	}
	if fwd {
		ctx.HandleException(ex)
		return
	}
	// like the tail: close with the exception (registered so the winner can be attributed)
	p.reg.register(ex)
	ctx.Close(ex)
}

func (p *lifeProbe) HandleInactive(ctx netty.InactiveContext, ex netty.Exception) {
	p.mu.Lock()
	p.inactive = append(p.inactive, ex)
	p.inactiveAt = append(p.inactiveAt, mon.Tick())
	boom := p.panicInactive
	p.mu.Unlock()
	if boom {
		// an application's inactive handler may fail; the lifecycle guarantees must not depend on it
		panic(errors.New("inactive handler failed"))
	}
	ctx.HandleInactive(ex)
}

func runC05(c *core.Ctx) {
	total := c.Scale(3000, 50000)
	for idx := 0; idx < total; idx++ {
		if !c.Mine(idx) {
			continue
		}
		if c.Enough() {
			break
		}
		id := fmt.Sprintf("t%d", idx)
		if !c.CaseQuiet(id) {
			continue
		}
		if idx%10 == 9 {
			c05Bootstrap(c, id, idx)
			continue
		}
		if idx%10 == 8 {
			// burst: many closers released by a spin barrier, repeated (election window of a few instructions)
			runtime.GOMAXPROCS(16)
			for r := 0; r < 40; r++ {
				c05Burst(c, id, idx, r)
			}
			continue
		}
		c05Trial(c, id, idx)
	}
	// an application whose exception handler is strict (it panics on what it does not handle) on a connection whose reads
	// start to fail: the read loop still has to end and the channel to close exactly once
	for j := 0; j < c.Scale(120, 2000); j++ {
		if !c.Mine(j) {
			continue
		}
		id := fmt.Sprintf("strict-exc/%d", j)
		if c.CaseQuiet(id) {
			c05StrictExc(c, id, j)
		}
	}
	runtime.GOMAXPROCS(runtime.NumCPU())
}

// strictProbe reads one byte per read event and panics with the read error; its exception handler panics too.
type strictProbe struct {
	mu       sync.Mutex
	wrap     bool
	reads    int
	failed   int
	excs     int
	inactive int
}

func (p *strictProbe) HandleRead(ctx netty.InboundContext, message netty.Message) {
	var b [1]byte
	_, err := message.(io.Reader).Read(b[:])
	p.mu.Lock()
	p.reads++
	if err != nil {
		p.failed++
	}
	p.mu.Unlock()
	if err != nil {
		if p.wrap {
			panic(fmt.Errorf("read header fail, error: %w", err))
		}
		panic(err)
	}
}

func (p *strictProbe) HandleException(ctx netty.ExceptionContext, ex netty.Exception) {
	p.mu.Lock()
	p.excs++
	p.mu.Unlock()
	panic(fmt.Errorf("strict application handler: unexpected exception: %v", ex))
}

func (p *strictProbe) HandleInactive(ctx netty.InactiveContext, ex netty.Exception) {
	p.mu.Lock()
	p.inactive++
	p.mu.Unlock()
	ctx.HandleInactive(ex)
}

func c05StrictExc(c *core.Ctx, id string, j int) {
	mode := mon.Mode(j % 3)
	terms := []struct {
		name string
		err  error
	}{{"io.EOF", io.EOF}, {"io.ErrUnexpectedEOF", io.ErrUnexpectedEOF}, {"plain error", errors.New("mock transport: connection reset by peer")},
		{"timeout net.Error", tmoErr{true}}, {"fatal net.Error", tmoErr{false}}}
	term := terms[(j/3)%len(terms)]
	rng := c.Rand("strict-exc", j)
	probe := &strictProbe{wrap: (j/15)%2 == 1}
	tr := mon.NewRecTransport()
	good := rng.Intn(4)
	tr.FeedBytes(bytes.Repeat([]byte("x"), good))
	tr.SetTerminal(term.err)
	runtime.GOMAXPROCS([]int{2, 4, 16}[rng.Intn(3)])
	rig := mon.NewRig(mon.RigOpts{Mode: mode, Queue: 2, NoPark: true, Tr: tr, Handlers: []netty.Handler{probe}})
	what := fmt.Sprintf("[mode=%s, %d good reads, then every transport read fails with %s (wrapped by the handler: %v); the application's exception handler panics]", mode, good, term.name, probe.wrap)
	// logical criterion for 'does not terminate': thousands of failed reads delivered and the channel is still open
	deadline := time.Now().Add(10 * time.Second)
	quiet, spins := false, 0
	for !quiet && time.Now().Before(deadline) {
		quiet = rig.Ex.WaitOutstanding(0, 20*time.Millisecond)
		probe.mu.Lock()
		spins = probe.failed
		probe.mu.Unlock()
		if !quiet && spins > 20000 && !tr.IsClosed() {
			break
		}
	}
	c.Count("strict_exception_handler_trials", 1)
	probe.mu.Lock()
	failed, inactive, excs := probe.failed, probe.inactive, probe.excs
	probe.mu.Unlock()
	switch {
	case !quiet && failed > 20000 && !tr.IsClosed():
		c.Violation("C05:read-loop-spins-on-failed-transport", id, fmt.Sprintf("%d failed reads (%d exceptions) were delivered and the channel is still open, its read loop still running: it never terminates %s", failed, excs, what), nil)
		tr.Close()
		rig.Ch.Close(nil)
	case !quiet:
		c.Inconclusive(id, "watchdog: read loop neither ended nor kept failing "+what)
		tr.Close()
		rig.Ch.Close(nil)
	default:
		if k := tr.CloseCount(); k != 1 {
			c.Violation("C05:transport-close-count", id, fmt.Sprintf("the read loop ended and the transport was closed %d times %s", k, what), nil)
		}
		if inactive != 1 {
			c.Violation("C05:inactive-count", id, fmt.Sprintf("inactive delivered %d times %s", inactive, what), nil)
		}
		if rig.Ch.IsActive() {
			c.Violation("C05:active-after-close-returned", id, "IsActive() is true after the read loop ended "+what, nil)
		}
		if rig.Ch.Context().Err() == nil {
			c.Violation("C05:context-not-cancelled", id, "the channel context is not cancelled after the read loop ended "+what, nil)
		}
		c.Count("failed_reads_until_read_loop_ended", int64(failed))
	}
	c.Sig("strict-exc", int(mode), term.name, probe.wrap, good)
	rig.Dispose()
}

func c05Trial(c *core.Ctx, id string, idx int) {
	rng := c.Rand("trial", idx)
	mode := mon.Mode(idx % 3)
	q := []int{1, 2, 8}[rng.Intn(3)]
	k := 1 + rng.Intn(6)
	runtime.GOMAXPROCS([]int{2, 4, 16}[rng.Intn(3)])
	kinds := make([]string, k)
	for i := range kinds {
		kinds[i] = c05Kinds[rng.Intn(len(c05Kinds))]
		if kinds[i] == "sender-failure" && mode == mon.Sync {
			kinds[i] = "user"
		}
	}
	errs := make([]error, k)
	for i := range errs {
		errs[i] = fmt.Errorf("close-error-%d-%s", i, kinds[i])
		if (kinds[i] == "user" || kinds[i] == "holder") && rng.Intn(5) == 0 {
			errs[i] = nil // a clean close
		}
	}
	reg := &closerReg{byGo: map[int64]error{}, has: map[int64]bool{}}
	probe := &lifeProbe{reg: reg, panicInactive: rng.Intn(5) == 0}
	parent, parentCancel := context.WithCancel(context.Background())
	defer parentCancel()
	holder := netty.NewChannelHolder(2)
	// an application that leaves exceptions to the built-in tail handler (no exception handler of its own): every transport
	// read then fails with a read-deadline timeout; the tail closes the channel with it
	for i, kd := range kinds {
		if kd == "read-timeout-unhandled" {
			for j := range kinds {
				if j != i && (kinds[j] == "read-failure" || kinds[j] == "in-exception" || kinds[j] == "read-failure-neterr-swallowed" || kinds[j] == "read-timeout-unhandled") {
					kinds[j] = "user"
					errs[j] = fmt.Errorf("close-error-%d-user", j)
				}
			}
			break
		}
	}
	// an application that swallows exceptions cannot also be the one that closes on them
	for _, kd := range kinds {
		if kd == "read-failure-neterr-swallowed" {
			for j := range kinds {
				if kinds[j] == "read-failure" || kinds[j] == "in-exception" {
					kinds[j] = "user"
					errs[j] = fmt.Errorf("close-error-%d-user", j)
				}
			}
		}
	}
	// at most one closer of each in-handler kind (each has one error slot)
	used := map[string]bool{}
	for i, kd := range kinds {
		switch kd {
		case "in-read", "in-event", "in-exception", "in-active", "read-failure", "sender-failure", "parent-context", "read-failure-neterr-swallowed", "read-timeout-unhandled":
			if used[kd] {
				kinds[i] = "user"
				errs[i] = fmt.Errorf("close-error-%d-user", i)
				continue
			}
			used[kd] = true
		}
		switch kd {
		case "in-read":
			probe.errRead = errs[i]
		case "in-event":
			probe.errEvent = errs[i]
		case "in-exception":
			probe.errExc = errs[i]
		case "in-active":
			probe.errActive = errs[i]
			probe.closeActive = true
		case "read-timeout-unhandled":
			errs[i] = tmoErr{true}
			probe.forwardExc = true
		case "read-failure-neterr-swallowed":
			// a fatal (non-timeout) net.Error from the transport, wrapped by the decoding handler, while the
			// application's exception handler only logs: the channel itself has to give up
			errs[i] = tmoErr{false}
			probe.wrapReadErr, probe.swallowExc = true, true
		}
	}
	// perturbation: gates between closers, sender and read loop
	var plan []mon.Step
	planKind := "none"
	switch rng.Intn(5) {
	case 0:
		p := []string{"cEl", "cWait", "cTC", "cCan"}[rng.Intn(4)]
		plan = []mon.Step{{At: p, Occ: 1, Kind: mon.Gate, Until: "closeRet", UntilCount: 1, Timeout: 20 * time.Millisecond}}
		planKind = "winner-held-at-" + p + "-until-a-loser-returned"
	case 1:
		p := []string{"cEl", "cWait", "cTC", "cCan"}[rng.Intn(4)]
		plan = []mon.Step{{At: p, Occ: 1, Kind: mon.Sleep, D: time.Duration(50+rng.Intn(400)) * time.Microsecond}}
		planKind = "winner-delayed-at-" + p
	case 2:
		plan = []mon.Step{{At: []string{"sBat", "tV0", "sRec", "tF0", "sRel"}[rng.Intn(5)], Occ: 1, Kind: mon.Gate, Until: "cEl", UntilCount: 1, Timeout: 20 * time.Millisecond}}
		planKind = "sender-waits-for-close"
	case 3:
		if mode == mon.Sync {
			// a synchronous write stalled inside the transport (peer not reading): only closing the transport ends it
			plan = []mon.Step{{At: "tW0", Occ: 1, Kind: mon.Gate, Until: "tC0", UntilCount: 1, Timeout: 60 * time.Second}}
			planKind = c05StallPlan
		}
	}
	var wrap *[2]int
	if idx%4 == 2 {
		// on the library's own transport wrapper: 'the transport is closed' is then observed at the connection underneath
		wv := [][2]int{{64, 64}, {4096, 4096}, {0, 64}, {64, 0}, {0, 0}}[(idx/4)%5]
		wrap = &wv
	}
	tr := mon.NewRecTransport()
	if rng.Intn(4) == 0 {
		// the transport's own Close reports an error (and is closed all the same): not the error of any Close call
		tr.CloseErr = errors.New("mock transport: close_notify: broken pipe")
		c.Count("trials_with_failing_transport_close", 1)
	}
	rig := mon.NewRig(mon.RigOpts{Mode: mode, Queue: q, Ctx: parent, NoPark: true, Plan: plan, Wrap: wrap, Tr: tr,
		Handlers: []netty.Handler{holder, probe},
		// attribute the elected Close to its goroutine
		OnPoint: func(p netty.VerifPoint) {
			if p == netty.VpCloseElected {
				reg.mu.Lock()
				reg.elected = append(reg.elected, mon.GoID())
				reg.mu.Unlock()
			}
		}})
	handoutTick := mon.Tick()
	if rng.Intn(8) == 0 {
		// the application serves the channel a second time by mistake: refused (a panic), and nothing else may happen
		func() {
			defer func() { recover() }()
			rig.PL.ServeChannel(rig.Ch)
		}()
		c.Count("trials_with_second_serve_channel", 1)
	}
	// in-flight traffic
	var bg sync.WaitGroup
	stopW := make(chan struct{})
	for w := 0; w < 2; w++ {
		bg.Add(1)
		go func(w int) {
			defer bg.Done()
			buf := mon.Payload(w, 0, 64)
			for i := 0; i < 200; i++ {
				select {
				case <-stopW:
					return
				default:
				}
				if _, err := rig.Ch.Write1(buf); err != nil && !errors.Is(err, netty.ErrAsyncNoSpace) {
					return
				}
			}
		}(w)
	}
	rig.T.FeedBytes([]byte("xx"))
	// closers
	type closeObs struct {
		kind        string
		err         error
		goid        int64
		activeAfter bool
		ctxErrAfter error
		call, ret   uint64
		direct      bool
	}
	obs := make([]*closeObs, k)
	start := make(chan struct{})
	var cw sync.WaitGroup
	for i, kd := range kinds {
		o := &closeObs{kind: kd, err: errs[i]}
		obs[i] = o
		cw.Add(1)
		go func(o *closeObs) {
			defer cw.Done()
			<-start
			switch o.kind {
			case "user":
				o.direct = true
				o.goid = mon.GoID()
				reg.register(o.err)
				o.call = mon.Tick()
				rig.Ch.Close(o.err)
				o.ret = mon.Tick()
				o.activeAfter = rig.Ch.IsActive()
				o.ctxErrAfter = rig.Ch.Context().Err()
				rig.S.Mark("closeRet")
			case "holder":
				o.direct = true
				o.goid = mon.GoID()
				reg.register(o.err)
				o.call = mon.Tick()
				holder.CloseAll(o.err)
				o.ret = mon.Tick()
				o.activeAfter = rig.Ch.IsActive()
				o.ctxErrAfter = rig.Ch.Context().Err()
				rig.S.Mark("closeRet")
			case "in-read":
				rig.T.FeedBytes([]byte("c"))
			case "in-event":
				rig.T.FeedBytes([]byte("e"))
			case "in-exception":
				rig.T.FeedBytes([]byte("p"))
			case "in-active":
				// already happened during activation
			case "read-failure", "read-failure-neterr-swallowed", "read-timeout-unhandled":
				rig.T.SetTerminal(o.err)
			case "sender-failure":
				rig.T.AddFault(mon.Fault{Kind: mon.OpWritev, K: 0, Err: o.err})
				rig.T.AddFault(mon.Fault{Kind: mon.OpWrite, K: 0, Err: o.err}) // underneath a wrapper every write is a Write
				rig.Ch.Write1(mon.Payload(9, 0, 32))
			case "parent-context":
				parentCancel()
				rig.T.FeedBytes([]byte("x"))
			}
		}(o)
	}
	close(start)
	done := make(chan struct{})
	go func() { cw.Wait(); close(done) }()
	if planKind == c05StallPlan {
		// the only thing that ends the stalled write is the transport being closed, and only Close does that: a Close call
		// parked on a lock while the transport is still open and the write still stalled can never make progress
		parked := 0
		for i := 0; i < 100 && !rig.T.IsClosed(); i++ {
			time.Sleep(100 * time.Millisecond)
			if rig.S.Count("tW0") >= 1 && !rig.T.IsClosed() && mon.ParkedIn("(*channel).Close", "sync.Mutex.Lock", "sync.RWMutex.Lock", "semacquire") > 0 {
				if parked++; parked >= 5 {
					break
				}
			} else {
				parked = 0
			}
		}
		c.Count("stalled_sync_write_trials", 1)
		if parked >= 5 && !rig.T.IsClosed() {
			ops, _ := rig.T.Snapshot()
			c.Violation("C05:close-never-closes-transport-while-a-sync-write-is-stalled", id,
				fmt.Sprintf("a Close call is parked on a lock while a synchronous write is stalled inside the transport: the transport is never closed (Close count %d), inactive is never delivered, the Close call never returns [mode=%s closers=%v wrapper=%v]", rig.T.CloseCount(), mode, kinds, wrap),
				map[string]interface{}{"marks": rig.S.LogString(80), "ops": tailOpString(ops)})
			rig.S.ReleaseAll()
			close(stopW)
			rig.T.Close()
			rig.Dispose()
			return
		}
	}
	select {
	case <-done:
	case <-time.After(15 * time.Second):
		c.Inconclusive(id, "watchdog: closers stuck")
		close(stopW)
		rig.Dispose()
		return
	}
	// make sure the channel ends (some closer kinds need the read loop to come around)
	rig.T.FeedBytes([]byte("x"))
	close(stopW)
	bg.Wait()
	quiet := rig.Ex.WaitOutstanding(0, 10*time.Second)
	viol := func(key, what string) {
		ops, _ := rig.T.Snapshot()
		c.Violation("C05:"+key, id, fmt.Sprintf("%s [mode=%s Q=%d closers=%v plan=%s wrapper=%v]", what, mode, q, kinds, planKind, wrap),
			map[string]interface{}{"marks": rig.S.LogString(80), "ops": tailOpString(ops)})
	}
	if !quiet {
		if !rig.T.IsClosed() && !rig.Ch.IsActive() && rig.Ch.Context().Err() != nil && wrap != nil {
			probe.mu.Lock()
			nin := len(probe.inactive)
			probe.mu.Unlock()
			if nin > 0 {
				viol("connection-never-closed-after-channel-close", fmt.Sprintf("the channel reports closed (inactive delivered, context done) but the connection underneath the library's transport wrapper NewTransport(conn,%d,%d) was never closed: the read loop stays parked in its Read", wrap[0], wrap[1]))
				rig.T.Close()
				rig.Dispose()
				return
			}
		}
		if !rig.T.IsClosed() && mon.ParkedIn("(*channel).writeOnce", "sleep") > 0 {
			// the background sender's failure path is waiting inside Close for the sender (itself) to finish:
			// a definite stuck state - the transport will never be closed, inactive never delivered
			viol("write-side-failure-never-closes", "after a write-side transport failure the failed sender is parked inside Close waiting for the sender flag it holds itself: the transport is never closed, inactive is never delivered, the context is never cancelled")
			rig.T.Close()
			rig.Dispose()
			return
		}
		onlySwallowed := len(kinds) > 0
		for _, kd := range kinds {
			if kd != "read-failure-neterr-swallowed" {
				onlySwallowed = false
			}
		}
		onlyTimeout := len(kinds) > 0
		for _, kd := range kinds {
			if kd != "read-timeout-unhandled" {
				onlyTimeout = false
			}
		}
		if !rig.T.IsClosed() && onlyTimeout {
			viol("unhandled-read-timeout-did-not-end-the-channel", fmt.Sprintf("every transport read fails with a timeout net.Error, no handler consumes the exception (it reaches the built-in tail handler) and 10 s and %d reads later the channel is still open and its read loop still running", probe.nReads))
			rig.T.Close()
			rig.Dispose()
			return
		}
		if !rig.T.IsClosed() && onlySwallowed {
			viol("fatal-read-failure-did-not-end-the-channel", "every transport read fails with a non-timeout net.Error (wrapped by the decoding handler, swallowed by the application's exception handler) and 10 s later the channel is still open and its read loop still running")
			rig.T.Close()
			rig.Dispose()
			return
		}
		if rig.T.IsClosed() {
			viol("read-loop-did-not-terminate", "the transport is closed (reads fail) but an executor action of the channel is still running after 10 s")
		} else {
			c.Inconclusive(id, fmt.Sprintf("watchdog: channel never closed (closers=%v)", kinds))
		}
		rig.Dispose()
		return
	}
	probe.mu.Lock()
	defer probe.mu.Unlock()
	defer rig.Dispose()
	// active
	if len(probe.activeIn) != 1 || len(probe.activeOut) != 1 {
		viol("active-count", fmt.Sprintf("active delivered %d times (completed %d)", len(probe.activeIn), len(probe.activeOut)))
	} else {
		if len(probe.readIn) > 0 && probe.readIn[0] < probe.activeOut[0] {
			viol("read-before-active-completed", fmt.Sprintf("first read delivered at tick %d before the active event completed (tick %d)", probe.readIn[0], probe.activeOut[0]))
		}
		if handoutTick < probe.activeOut[0] {
			viol("handed-out-before-active-completed", fmt.Sprintf("ServeChannel returned (tick %d) before the active event completed (tick %d)", handoutTick, probe.activeOut[0]))
		}
	}
	if m := atomic.LoadInt32(&probe.maxInRead); m > 1 {
		viol("concurrent-reads", fmt.Sprintf("%d reads were delivered concurrently", m))
	}
	c.Count("reads_observed", probe.nReads)
	if n := rig.T.CloseCount(); n != 1 {
		viol("transport-close-count", fmt.Sprintf("the transport was closed %d times", n))
	}
	if len(probe.inactive) != 1 {
		viol("inactive-count", fmt.Sprintf("inactive delivered %d times", len(probe.inactive)))
	}
	reg.mu.Lock()
	elected := append([]int64(nil), reg.elected...)
	reg.mu.Unlock()
	if len(elected) != 1 {
		viol("close-elected-count", fmt.Sprintf("%d Close calls took effect", len(elected)))
	}
	winnerKind := "framework"
	if len(elected) >= 1 && len(probe.inactive) >= 1 {
		reg.mu.Lock()
		werr, known := reg.byGo[elected[0]], reg.has[elected[0]]
		reg.mu.Unlock()
		if known {
			winnerKind = "registered"
			if probe.inactive[0] != werr {
				viol("inactive-carries-wrong-error", fmt.Sprintf("the Close call that took effect was given %v but inactive carried %v", werr, probe.inactive[0]))
			}
		} else {
			// a Close issued by the framework itself (read loop end => nil, sender failure => the write error)
			ok := probe.inactive[0] == nil
			for i, kd := range kinds {
				if (kd == "sender-failure" || kd == "read-failure" || kd == "read-failure-neterr-swallowed" || kd == "read-timeout-unhandled") && errors.Is(probe.inactive[0], errs[i]) {
					ok = true
				}
			}
			if !ok {
				viol("inactive-carries-wrong-error", fmt.Sprintf("the channel was closed by the framework itself but inactive carried %v", probe.inactive[0]))
			}
		}
		for _, o := range obs {
			if o.direct && o.goid == elected[0] {
				winnerKind = o.kind
				if o.ctxErrAfter == nil {
					viol("context-not-cancelled-after-winning-close", "the Close call that took effect returned but the channel context was not done")
				}
			}
		}
	}
	direct := 0
	for _, o := range obs {
		if !o.direct {
			continue
		}
		direct++
		c.Count("closes_judged", 1)
		if o.activeAfter {
			viol("active-after-close-returned", fmt.Sprintf("IsActive() was true right after a Close call (%s) had returned", o.kind))
		}
	}
	if direct >= 2 {
		c.Count("concurrent_close_calls", int64(direct))
	}
	if rig.Ch.IsActive() || rig.Ch.Context().Err() == nil {
		viol("not-closed-at-quiescence", "after every action returned the channel is still active or its context is not done")
	}
	sig, _ := rig.S.Signature()
	c.Sig(mode, fmt.Sprint(kinds), winnerKind, sig%64)
	c.Count("winner_"+winnerKind, 1)
	if probe.panicInactive {
		c.Count("trials_with_failing_inactive_handler", 1)
	}
	if c.WantSample() && direct >= 2 {
		c.Sample(map[string]interface{}{"case": id, "mode": mode.String(), "closers": kinds, "winner": winnerKind, "inactive_error": fmt.Sprint(probe.inactive), "marks": rig.S.LogString(40)})
	}
}

func tailOpString(ops []mon.Op) string {
	if len(ops) > 16 {
		return "... " + mon.OpString(ops[len(ops)-16:])
	}
	return mon.OpString(ops)
}

// c05Bootstrap: active completed before Connect returned / before the next Accept.
func c05Bootstrap(c *core.Ctx, id string, idx int) {
	rng := c.Rand("bs", idx)
	f := &mon.MockFactory{}
	var acceptTicks []uint64
	var amu sync.Mutex
	f.OnAccept = func(*mon.MockAcceptor) {
		amu.Lock()
		acceptTicks = append(acceptTicks, mon.Tick())
		amu.Unlock()
	}
	var pmu sync.Mutex
	var probes []*lifeProbe
	var initProbe func(ch netty.Channel, client bool)
	delay := time.Duration(rng.Intn(300)) * time.Microsecond
	mkInit := func(client bool) func(ch netty.Channel) {
		return func(ch netty.Channel) { initProbe(ch, client) }
	}
	initProbe = func(ch netty.Channel, client bool) {
		p := &lifeProbe{reg: &closerReg{byGo: map[int64]error{}, has: map[int64]bool{}}, client: client}
		p.gate = func(string) {
			if delay > 0 {
				time.Sleep(delay)
			}
			runtime.Gosched()
		}
		pmu.Lock()
		probes = append(probes, p)
		pmu.Unlock()
		ch.Pipeline().AddLast(p)
	}
	bs := netty.NewBootstrap(netty.WithTransport(f), netty.WithChildInitializer(mkInit(false)), netty.WithClientInitializer(mkInit(true)))
	l := bs.Listen("mock://srv:1")
	l.Async(func(error) {})
	var as []*mon.MockAcceptor
	for dl := time.Now().Add(5 * time.Second); len(as) == 0 && time.Now().Before(dl); {
		as, _ = f.Snapshot()
		runtime.Gosched()
	}
	if len(as) == 0 {
		c.Inconclusive(id, "acceptor not created")
		bs.Shutdown()
		return
	}
	n := 1 + rng.Intn(3)
	for i := 0; i < n; i++ {
		stop := make(chan struct{})
		tm := time.AfterFunc(3*time.Second, func() { close(stop) })
		as[0].InjectStop(stop)
		tm.Stop()
	}
	ch, err := bs.Connect("mock://peer:2")
	connectRet := mon.Tick()
	// wait until the accept loop asked for the next connection after the last inject
	for dl := time.Now().Add(5 * time.Second); time.Now().Before(dl); {
		amu.Lock()
		k := len(acceptTicks)
		amu.Unlock()
		if k >= n+1 {
			break
		}
		runtime.Gosched()
	}
	pmu.Lock()
	ps := append([]*lifeProbe(nil), probes...)
	pmu.Unlock()
	amu.Lock()
	ats := append([]uint64(nil), acceptTicks...)
	amu.Unlock()
	// child channels: probe i's active must have completed before Accept call #i+1 started
	child := 0
	for _, p := range ps {
		p.mu.Lock()
		ai, ao := append([]uint64(nil), p.activeIn...), append([]uint64(nil), p.activeOut...)
		p.mu.Unlock()
		if len(ai) != 1 || len(ao) != 1 {
			c.Violation("C05:active-count", id, fmt.Sprintf("bootstrap channel: active delivered %d times (completed %d)", len(ai), len(ao)), nil)
			continue
		}
		c.Count("bootstrap_handout_checks", 1)
		if p.client {
			if ao[0] > connectRet {
				c.Violation("C05:handed-out-before-active-completed", id, fmt.Sprintf("Connect returned at tick %d before the client channel's active event completed (tick %d)", connectRet, ao[0]), nil)
			}
			continue
		}
		// the next Accept after this channel's activation began
		for _, at := range ats {
			if at > ai[0] {
				if at < ao[0] {
					c.Violation("C05:handed-out-before-active-completed", id, fmt.Sprintf("the acceptor was asked for the next connection at tick %d while the previous channel's active event (ticks %d..%d) had not completed", at, ai[0], ao[0]), nil)
				}
				break
			}
		}
		child++
	}
	_, _ = ch, err
	c.Sig("bootstrap", n, delay > 0, child)
	bs.Shutdown()
	as2, ts := f.Snapshot()
	for _, a := range as2 {
		a.Close()
	}
	for _, t := range ts {
		t.Close()
	}
}

// c05Burst releases n closers from a spin barrier onto a minimal channel.
func c05Burst(c *core.Ctx, id string, idx, r int) {
	n := 4 + (idx+r)%9
	reg := &closerReg{byGo: map[int64]error{}, has: map[int64]bool{}}
	probe := &lifeProbe{reg: reg}
	var elected int32
	rig := mon.NewRig(mon.RigOpts{Mode: mon.Mode((idx / 10) % 3), Queue: 2, NoPark: true, Handlers: []netty.Handler{probe},
		OnPoint: func(p netty.VerifPoint) {
			if p == netty.VpCloseElected {
				atomic.AddInt32(&elected, 1)
			}
		}})
	var ready, goFlag int32
	var wg sync.WaitGroup
	stillActive := int32(0)
	for i := 0; i < n; i++ {
		wg.Add(1)
		go func(i int) {
			defer wg.Done()
			err := fmt.Errorf("burst-%d", i)
			atomic.AddInt32(&ready, 1)
			for atomic.LoadInt32(&goFlag) == 0 {
			}
			rig.Ch.Close(err)
			if rig.Ch.IsActive() {
				atomic.AddInt32(&stillActive, 1)
			}
		}(i)
	}
	for atomic.LoadInt32(&ready) < int32(n) {
		runtime.Gosched()
	}
	atomic.StoreInt32(&goFlag, 1)
	wg.Wait()
	rig.Ex.WaitOutstanding(0, 10*time.Second)
	c.Count("burst_trials", 1)
	c.Count("concurrent_close_calls", int64(n))
	c.Count("closes_judged", int64(n))
	probe.mu.Lock()
	nin := len(probe.inactive)
	probe.mu.Unlock()
	what := fmt.Sprintf("[burst of %d concurrent Close calls, mode=%s]", n, mon.Mode((idx/10)%3))
	if e := atomic.LoadInt32(&elected); e != 1 {
		c.Violation("C05:close-elected-count", id, fmt.Sprintf("%d Close calls took effect %s", e, what), nil)
	}
	if k := rig.T.CloseCount(); k != 1 {
		c.Violation("C05:transport-close-count", id, fmt.Sprintf("the transport was closed %d times %s", k, what), nil)
	}
	if nin != 1 {
		c.Violation("C05:inactive-count", id, fmt.Sprintf("inactive delivered %d times %s", nin, what), nil)
	}
	if atomic.LoadInt32(&stillActive) > 0 {
		c.Violation("C05:active-after-close-returned", id, "IsActive() was true right after a Close call had returned "+what, nil)
	}
	c.Sig("burst", n, (idx/10)%3)
	rig.Dispose()
}
