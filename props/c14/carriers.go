package c14

import (
	"bufio"
	"bytes"
	"io"
	"math/rand"
	"net"
	"strings"
	"testing/iotest"
)

// ---- reader / writer-to behaviours -----------------------------------------

// onlyReader hides every method of the wrapped value except Read.
type onlyReader struct{ io.Reader }

// fragReader delivers data in random fragments; optionally it returns (0, nil)
// before every zeroEvery-th data read (and once more before the end) and/or
// delivers the last fragment together with io.EOF.
type fragReader struct {
	data      []byte
	off       int
	rng       *rand.Rand
	maxFrag   int
	zeroEvery int
	eofData   bool
	reads     int
	lastZero  bool
}

func (f *fragReader) Read(p []byte) (int, error) {
	if len(p) == 0 {
		return 0, nil
	}
	if f.zeroEvery > 0 && !f.lastZero && (f.off >= len(f.data) || f.reads%f.zeroEvery == 0) {
		f.lastZero = true
		return 0, nil
	}
	f.lastZero = false
	if f.off >= len(f.data) {
		return 0, io.EOF
	}
	f.reads++
	n := 1 + f.rng.Intn(f.maxFrag)
	if n > len(p) {
		n = len(p)
	}
	if n > len(f.data)-f.off {
		n = len(f.data) - f.off
	}
	copy(p, f.data[f.off:f.off+n])
	f.off += n
	if f.eofData && f.off == len(f.data) {
		return n, io.EOF
	}
	return n, nil
}

// fragWriterTo is an io.WriterTo (and nothing else) that writes data in random
// fragments.  With reuse it hands the same internal buffer to every Write and
// overwrites it as soon as Write has returned: legal, because an io.Writer
// "must not retain p".
type fragWriterTo struct {
	data    []byte
	rng     *rand.Rand
	maxFrag int
	reuse   bool
	buf     []byte
}

func (f *fragWriterTo) WriteTo(w io.Writer) (int64, error) {
	var total int64
	rest := f.data
	if len(rest) == 0 && f.rng.Intn(2) == 0 {
		if _, err := w.Write(f.buf[:0]); err != nil {
			return 0, err
		}
	}
	for len(rest) > 0 {
		n := 1 + f.rng.Intn(f.maxFrag)
		if n > len(rest) {
			n = len(rest)
		}
		var p []byte
		if f.reuse {
			p = f.buf[:n]
			copy(p, rest[:n])
		} else {
			p = append(make([]byte, 0, n), rest[:n]...)
		}
		m, err := w.Write(p)
		total += int64(m)
		if err != nil {
			return total, err
		}
		if m != n {
			return total, io.ErrShortWrite
		}
		if f.reuse {
			for i := range p {
				p[i] = 0xEE
			}
		}
		rest = rest[n:]
	}
	return total, nil
}

// dualRW implements io.WriterTo and io.Reader (the head handler must prefer WriteTo).
type dualRW struct {
	*fragWriterTo
	io.Reader
}

var fragPalette = []int{1, 2, 7, 100, 1000, 1024, 1500, 5000, 40000}

func pickFrag(rng *rand.Rand, size int) int {
	f := fragPalette[rng.Intn(len(fragPalette))]
	// keep the number of fragments of large messages bounded (speed), except now and then
	if size > 20000 && f < 100 && rng.Intn(8) != 0 {
		f = 100 + rng.Intn(2000)
	}
	return f
}

func clone(b []byte) []byte { return append(make([]byte, 0, len(b)), b...) }

func randBytes(rng *rand.Rand, n int) []byte {
	b := make([]byte, n)
	rng.Read(b)
	return b
}

// ---- carriers --------------------------------------------------------------

// carrier builds one message type around given content.
type carrier struct {
	name  string
	class string // type class as seen by the head handler's switch
	beh   string // reader / writer-to behaviour
	reuse bool   // io.WriterTo that hands one internal buffer to successive Write calls
	head  bool   // accepted by the head handler
	// mk returns a fresh message carrying exactly data (data is never modified; the message
	// never aliases it unless the carrier type demands a caller-owned slice, then a copy is used).
	mk func(data []byte, rng *rand.Rand) interface{}
}

func rd(name, beh string, f func(d []byte, r *rand.Rand) io.Reader) carrier {
	return carrier{name: name, class: "io.Reader", beh: beh, head: true,
		mk: func(d []byte, r *rand.Rand) interface{} { return f(clone(d), r) }}
}

func splitv(d []byte, rng *rand.Rand, maxPart int) [][]byte {
	if len(d) == 0 {
		switch rng.Intn(4) {
		case 0:
			return nil
		case 1:
			return [][]byte{}
		case 2:
			return [][]byte{nil}
		default:
			return [][]byte{{}, nil, {}}
		}
	}
	var out [][]byte
	for len(d) > 0 {
		if rng.Intn(6) == 0 {
			if rng.Intn(2) == 0 {
				out = append(out, nil)
			} else {
				out = append(out, []byte{})
			}
		}
		n := 1 + rng.Intn(maxPart)
		if n > len(d) {
			n = len(d)
		}
		out = append(out, d[:n:n])
		d = d[n:]
	}
	if rng.Intn(4) == 0 {
		out = append(out, []byte{})
	}
	return out
}

func withPrefix(d []byte, rng *rand.Rand) ([]byte, int) {
	p := 1 + rng.Intn(40)
	b := make([]byte, p, p+len(d))
	rng.Read(b)
	return append(b, d...), p
}

var carriers = []carrier{
	{name: "[]byte", class: "[]byte", head: true, mk: func(d []byte, r *rand.Rand) interface{} {
		if len(d) == 0 && r.Intn(2) == 0 {
			return []byte(nil)
		}
		return clone(d)
	}},
	{name: "[][]byte", class: "[][]byte", beh: "random-split", head: true, mk: func(d []byte, r *rand.Rand) interface{} {
		max := len(d)/(1+r.Intn(8)) + 1
		return splitv(clone(d), r, max)
	}},
	{name: "[][]byte-single", class: "[][]byte", beh: "single", head: true, mk: func(d []byte, r *rand.Rand) interface{} {
		return [][]byte{clone(d)}
	}},
	{name: "[][]byte-many", class: "[][]byte", beh: "small-parts", head: true, mk: func(d []byte, r *rand.Rand) interface{} {
		return splitv(clone(d), r, 64)
	}},
	{name: "*bytes.Buffer", class: "*bytes.Buffer", head: true, mk: func(d []byte, r *rand.Rand) interface{} {
		return bytes.NewBuffer(clone(d))
	}},
	{name: "*bytes.Buffer-partread", class: "*bytes.Buffer", beh: "prefix-consumed", head: true, mk: func(d []byte, r *rand.Rand) interface{} {
		b, p := withPrefix(d, r)
		buf := bytes.NewBuffer(b)
		buf.Next(p)
		return buf
	}},
	{name: "*bytes.Reader", class: "io.WriterTo", beh: "bytes.Reader", head: true, mk: func(d []byte, r *rand.Rand) interface{} {
		return bytes.NewReader(clone(d))
	}},
	{name: "*bytes.Reader-partread", class: "io.WriterTo", beh: "bytes.Reader-prefix-consumed", head: true, mk: func(d []byte, r *rand.Rand) interface{} {
		b, p := withPrefix(d, r)
		br := bytes.NewReader(b)
		br.Seek(int64(p), io.SeekStart)
		return br
	}},
	{name: "*strings.Reader", class: "io.WriterTo", beh: "strings.Reader", head: true, mk: func(d []byte, r *rand.Rand) interface{} {
		return strings.NewReader(string(d))
	}},
	{name: "*net.Buffers", class: "io.WriterTo", beh: "net.Buffers", head: true, mk: func(d []byte, r *rand.Rand) interface{} {
		v := net.Buffers(splitv(clone(d), r, len(d)/3+1))
		return &v
	}},
	{name: "writerto-fresh", class: "io.WriterTo", beh: "fragments-fresh-slices", head: true, mk: func(d []byte, r *rand.Rand) interface{} {
		return &fragWriterTo{data: clone(d), rng: r, maxFrag: pickFrag(r, len(d))}
	}},
	{name: "writerto-reuse", class: "io.WriterTo", beh: "fragments-one-reused-buffer", reuse: true, head: true, mk: func(d []byte, r *rand.Rand) interface{} {
		mf := pickFrag(r, len(d))
		return &fragWriterTo{data: clone(d), rng: r, maxFrag: mf, reuse: true, buf: make([]byte, mf)}
	}},
	{name: "writerto+reader-reuse", class: "io.WriterTo", beh: "also-io.Reader", reuse: true, head: true, mk: func(d []byte, r *rand.Rand) interface{} {
		mf := pickFrag(r, len(d))
		return dualRW{&fragWriterTo{data: clone(d), rng: r, maxFrag: mf, reuse: true, buf: make([]byte, mf)}, onlyReader{bytes.NewReader(clone(d))}}
	}},
	{name: "*bufio.Reader-peeked", class: "io.WriterTo", beh: "bufio-buffered-data", reuse: true, head: true, mk: func(d []byte, r *rand.Rand) interface{} {
		br := bufio.NewReaderSize(onlyReader{bytes.NewReader(clone(d))}, []int{16, 64, 4096}[r.Intn(3)])
		br.Peek(1)
		return br
	}},
	{name: "*bufio.Reader-partread", class: "io.WriterTo", beh: "bufio-prefix-consumed", reuse: true, head: true, mk: func(d []byte, r *rand.Rand) interface{} {
		b, p := withPrefix(d, r)
		br := bufio.NewReaderSize(&fragReader{data: b, rng: r, maxFrag: pickFrag(r, len(b))}, []int{16, 64, 4096}[r.Intn(3)])
		io.CopyN(io.Discard, br, int64(p))
		return br
	}},
	{name: "*bufio.Reader-fresh", class: "io.WriterTo", beh: "bufio-nothing-buffered", reuse: true, head: true, mk: func(d []byte, r *rand.Rand) interface{} {
		return bufio.NewReaderSize(onlyReader{bytes.NewReader(clone(d))}, []int{16, 4096}[r.Intn(2)])
	}},
	{name: "io.MultiReader", class: "io.WriterTo", beh: "multireader-of-plain-readers", reuse: true, head: true, mk: func(d []byte, r *rand.Rand) interface{} {
		var rs []io.Reader
		for _, p := range splitv(clone(d), r, len(d)/2+1) {
			rs = append(rs, onlyReader{bytes.NewReader(p)})
		}
		return io.MultiReader(rs...)
	}},
	rd("reader-full", "full-reads", func(d []byte, r *rand.Rand) io.Reader { return onlyReader{bytes.NewReader(d)} }),
	rd("reader-onebyte", "iotest.OneByteReader", func(d []byte, r *rand.Rand) io.Reader { return iotest.OneByteReader(bytes.NewReader(d)) }),
	rd("reader-half", "iotest.HalfReader", func(d []byte, r *rand.Rand) io.Reader { return iotest.HalfReader(bytes.NewReader(d)) }),
	rd("reader-dataerr", "iotest.DataErrReader", func(d []byte, r *rand.Rand) io.Reader { return iotest.DataErrReader(bytes.NewReader(d)) }),
	rd("reader-dataerr-onebyte", "iotest.DataErrReader(OneByteReader)", func(d []byte, r *rand.Rand) io.Reader {
		return iotest.DataErrReader(iotest.OneByteReader(bytes.NewReader(d)))
	}),
	rd("reader-frag", "random-fragments", func(d []byte, r *rand.Rand) io.Reader {
		return &fragReader{data: d, rng: r, maxFrag: pickFrag(r, len(d))}
	}),
	rd("reader-zero", "zero-reads-between-data", func(d []byte, r *rand.Rand) io.Reader {
		return &fragReader{data: d, rng: r, maxFrag: pickFrag(r, len(d)), zeroEvery: 1 + r.Intn(3)}
	}),
	rd("reader-eof", "last-data-with-EOF", func(d []byte, r *rand.Rand) io.Reader {
		return &fragReader{data: d, rng: r, maxFrag: pickFrag(r, len(d)), eofData: true}
	}),
	rd("reader-zero-eof", "zero-reads+last-data-with-EOF", func(d []byte, r *rand.Rand) io.Reader {
		return &fragReader{data: d, rng: r, maxFrag: pickFrag(r, len(d)), zeroEvery: 1 + r.Intn(3), eofData: true}
	}),
	rd("reader-limit", "io.LimitReader-over-longer-stream", func(d []byte, r *rand.Rand) io.Reader {
		n := len(d)
		return io.LimitReader(onlyReader{bytes.NewReader(append(d, randBytes(r, 1+r.Intn(2000))...))}, int64(n))
	}),
	{name: "string", class: "string", head: false, mk: func(d []byte, r *rand.Rand) interface{} { return string(d) }},
}

// unsupported values: never accepted by the head handler.
type badValue struct {
	name   string
	v      interface{}
	helper bool // also a clear-cut unsupported input of the conversion helpers
}

func badValues() []badValue {
	s := "GO-NETTY"
	bs := []byte("GO-NETTY")
	var sb strings.Builder
	sb.WriteString("GO-NETTY")
	return []badValue{
		{"nil", nil, true},
		{"int", 42, true},
		{"string", "GO-NETTY", false}, // accepted by the helpers, not by the head handler
		{"empty-string", "", false},
		{"struct", struct{ A int }{1}, true},
		{"*struct", &struct{ A int }{1}, true},
		{"[]string", []string{"GO", "NETTY"}, true},
		{"[]int", []int{1, 2, 3}, true},
		{"float64", 3.5, true},
		{"bool", true, true},
		{"rune", 'x', true},
		{"byte", byte(7), false},
		{"*int", new(int), true},
		{"map", map[string]string{"a": "b"}, true},
		{"func", func() {}, true},
		{"chan", make(chan []byte, 1), true},
		{"error", io.ErrUnexpectedEOF, true},
		{"*string", &s, false},
		{"*[]byte", &bs, false},
		{"[8]byte", [8]byte{'G', 'O', '-', 'N', 'E', 'T', 'T', 'Y'}, false},
		{"bytes.Buffer-value", *bytes.NewBufferString("GO-NETTY"), false},
		{"*strings.Builder", &sb, false},
		{"[]interface{}", []interface{}{[]byte("GO-NETTY")}, false},
	}
}
