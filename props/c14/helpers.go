package c14

import (
	"encoding/binary"
	"fmt"
	"io"
	"math/rand"

	"github.com/go-netty/go-netty/utils"

	"verif/core"
)

// ---- ToReader / ToBytes / StealBytes / ByteStealer ------------------------------

type convDetail struct {
	Fn       string    `json:"function"`
	Carrier  string    `json:"carrier"`
	Class    string    `json:"class"`
	Beh      string    `json:"behaviour,omitempty"`
	Size     int       `json:"size"`
	Content  string    `json:"content_kind,omitempty"`
	Err      string    `json:"returned_error,omitempty"`
	Panic    string    `json:"panic,omitempty"`
	Diff     *diffInfo `json:"diff,omitempty"`
	WantHead string    `json:"want_head_hex,omitempty"`
}

// drain reads r to the end with buffers of random size, tolerating (0, nil).
func drain(r io.Reader, rng *rand.Rand) (out []byte, err error) {
	idle := 0
	for {
		size := 1 + rng.Intn(5000)
		if rng.Intn(4) == 0 {
			size = 1 + rng.Intn(3)
		}
		buf := make([]byte, size)
		n, e := r.Read(buf)
		out = append(out, buf[:n]...)
		if e == io.EOF {
			return out, nil
		}
		if e != nil {
			return out, e
		}
		if n == 0 {
			if idle++; idle > 1000 {
				return out, io.ErrNoProgress
			}
		} else {
			idle = 0
		}
	}
}

// call runs f and turns a panic into a string.
func call(f func()) (panicked string) {
	defer func() {
		if r := recover(); r != nil {
			panicked = fmt.Sprint(r)
			if panicked == "" {
				panicked = "(empty panic value)"
			}
		}
	}()
	f()
	return ""
}

func runConv(c *core.Ctx, id string, k kase) {
	rng := c.Rand(id)
	car := &carriers[k.carrier]
	want, kind := content(rng, k.size)
	msg := car.mk(want, rng)
	det := convDetail{Fn: k.fn, Carrier: car.name, Class: car.class, Beh: car.beh, Size: k.size, Content: kind, WantHead: excerpt(want, 0)}

	var got []byte
	var err error
	det.Panic = call(func() {
		switch k.fn {
		case "ToReader":
			var r io.Reader
			if r, err = utils.ToReader(msg); err == nil {
				got, err = drain(r, rng)
			}
		case "MustToReader":
			got, err = drain(utils.MustToReader(msg), rng)
		case "ToBytes":
			got, err = utils.ToBytes(msg)
		case "MustToBytes":
			got = utils.MustToBytes(msg)
		case "StealBytes":
			got, err = utils.StealBytes(msg.(io.WriterTo))
		case "ByteStealer":
			var s utils.ByteStealer
			var n int64
			if n, err = msg.(io.WriterTo).WriteTo(&s); err == nil && n != int64(len(s.Data)) {
				err = fmt.Errorf("WriteTo reported %d bytes, ByteStealer holds %d", n, len(s.Data))
			}
			got = s.Data
		}
	})
	c.Count("helper_calls", 1)
	c.Count("helper_"+k.fn, 1)
	c.Count("helper_bytes_compared", int64(len(want)))
	if car.beh != "" {
		c.Count("reader_behaviour_cases", 1)
	}
	c.Sig("conv", k.fn, car.name, car.beh, sizeClass(k.size))

	base := "C14:" + keyPart(k.fn) + "-" + keyPart(car.name)
	switch {
	case det.Panic != "":
		c.Violation(base+"-panics", id, fmt.Sprintf("%s(%s carrying %d bytes) panicked: %s", k.fn, car.name, k.size, det.Panic), det)
	case err != nil:
		det.Err = err.Error()
		c.Violation(base+"-returns-error", id, fmt.Sprintf("%s(%s carrying %d bytes) failed on a supported input: %v", k.fn, car.name, k.size, err), det)
	default:
		if d, ok := diff(got, want); !ok {
			det.Diff = &d
			key := base + "-content-differs"
			if car.reuse && d.GotLen == d.WantLen && (k.fn == "ToBytes" || k.fn == "MustToBytes" || k.fn == "StealBytes" || k.fn == "ByteStealer") {
				// right length, wrong bytes, from a WriterTo that overwrites the buffer it passed to Write
				key = "C14:tobytes-steals-reused-buffer"
			}
			c.Violation(key, id, fmt.Sprintf("%s(%s [%s] carrying %d bytes) returned other bytes than the input carries: %s", k.fn, car.name, car.beh, k.size, d), det)
		} else if c.WantSample() && k.size > 0 && k.size < 64 && car.beh != "" {
			c.Sample(det)
		}
	}
	// a message that is a plain value ([]byte, [][]byte) still carries its content after a helper looked at it: a codec
	// that measures or inspects a message and then forwards the same value must forward the same bytes
	if det.Panic == "" && err == nil {
		var after []byte
		switch m := msg.(type) {
		case []byte:
			after = m
		case [][]byte:
			for _, part := range m {
				after = append(after, part...)
			}
		default:
			return
		}
		c.Count("value_inputs_compared_after_conversion", 1)
		if d, ok := diff(after, want); !ok {
			det.Diff = &d
			c.Violation(base+"-consumes-its-input", id, fmt.Sprintf("after %s(%s carrying %d bytes) had returned (and its result had been read), the message value itself no longer carries its content: %s", k.fn, car.name, k.size, d), det)
		}
	}
}

func runConvBad(c *core.Ctx, id string, k kase) {
	bv := badValues()[k.bad]
	det := convDetail{Fn: k.fn, Carrier: bv.name, Class: "unsupported"}
	var err error
	var res interface{}
	det.Panic = call(func() {
		switch k.fn {
		case "ToReader":
			res, err = utils.ToReader(bv.v)
		case "MustToReader":
			res = utils.MustToReader(bv.v)
		case "ToBytes":
			res, err = utils.ToBytes(bv.v)
		case "MustToBytes":
			res = utils.MustToBytes(bv.v)
		}
	})
	c.Count("helper_calls", 1)
	c.Count("helper_unsupported_inputs", 1)
	c.Sig("convbad", k.fn, bv.name)
	must := k.fn == "MustToReader" || k.fn == "MustToBytes"
	switch {
	case must && det.Panic == "":
		c.Violation("C14:"+keyPart(k.fn)+"-accepts-unsupported-"+keyPart(bv.name), id,
			fmt.Sprintf("%s(%s) returned %v instead of panicking with an error", k.fn, bv.name, res), det)
	case !must && det.Panic != "":
		c.Violation("C14:"+keyPart(k.fn)+"-panics-on-unsupported-"+keyPart(bv.name), id,
			fmt.Sprintf("%s(%s) panicked (%s) instead of returning an error", k.fn, bv.name, det.Panic), det)
	case !must && err == nil:
		c.Violation("C14:"+keyPart(k.fn)+"-accepts-unsupported-"+keyPart(bv.name), id,
			fmt.Sprintf("%s(%s) returned (%v, nil) instead of an error", k.fn, bv.name, res), det)
	}
}

func runCountOf(c *core.Ctx, id string, k kase) {
	rng := c.Rand(id)
	var v [][]byte
	var want int64
	lens := []int{}
	switch k.size % 6 {
	case 0:
		v = nil
	case 1:
		v = [][]byte{}
	default:
		n := 1 + rng.Intn(40)
		for i := 0; i < n; i++ {
			l := 0
			switch rng.Intn(4) {
			case 0:
				l = 0
			case 1:
				l = rng.Intn(4)
			case 2:
				l = rng.Intn(3000)
			default:
				l = sizes[rng.Intn(len(sizes)-1)]
			}
			if l == 0 && rng.Intn(2) == 0 {
				v = append(v, nil)
			} else {
				v = append(v, make([]byte, l))
			}
			want += int64(l)
			lens = append(lens, l)
		}
	}
	got := utils.CountOf(v)
	c.Count("helper_calls", 1)
	c.Count("helper_CountOf", 1)
	c.Sig("countof", len(v), want == 0)
	if got != want {
		c.Violation("C14:countof-wrong-sum", id, fmt.Sprintf("CountOf(%d slices of lengths %v) = %d, want %d", len(v), lens, got, want),
			map[string]interface{}{"lengths": lens, "got": got, "want": want})
	}
}

// ---- NewByteReader ----------------------------------------------------------

type readRec struct {
	N   int    `json:"n"`
	Err string `json:"err,omitempty"`
}

// logReader records what the reader under the ByteReader returned during the current call.
type logReader struct {
	r   io.Reader
	log []readRec
}

func (l *logReader) Read(p []byte) (int, error) {
	n, err := l.r.Read(p)
	rec := readRec{N: n}
	if err != nil {
		rec.Err = err.Error()
	}
	l.log = append(l.log, rec)
	return n, err
}

type brBreach struct {
	Key     string    `json:"key"`
	Call    int       `json:"call_index"`
	Offset  int       `json:"content_offset"`
	GotByte byte      `json:"returned_byte"`
	GotErr  string    `json:"returned_error,omitempty"`
	Want    string    `json:"wanted"`
	Under   []readRec `json:"underlying_reads_during_call"`
	Note    string    `json:"note,omitempty"`
}

// spy sits between the consumer and the ByteReader under test and judges
// every call against the io.ByteReader / io.Reader contract and the reference
// content: a byte returned with a nil error must be the next content byte; an
// error may only be returned once the whole content has been handed out (the
// readers used here fail with io.EOF only, at the true end).
type spy struct {
	br     utils.ByteReader
	lr     *logReader // nil when the carrier itself is a ByteReader
	want   []byte
	pos    int
	calls  int
	breach *brBreach
	// zeroSuspect: a call that answered an empty read of the underlying reader with (0, nil)
	// where the content happened to hold a zero byte (undetectable by content alone)
	zeroSuspect int // call index + 1
}

func (s *spy) suspectNote() string {
	return fmt.Sprintf("ReadByte call #%d had already turned an empty read (0, nil) of the underlying reader into a zero byte, which happened to equal the content byte at that offset", s.zeroSuspect-1)
}

func (s *spy) under() []readRec {
	if s.lr == nil {
		return nil
	}
	return append([]readRec(nil), s.lr.log...)
}

func (s *spy) ReadByte() (byte, error) {
	if s.lr != nil {
		s.lr.log = s.lr.log[:0]
	}
	b, err := s.br.ReadByte()
	s.calls++
	if s.breach != nil {
		return b, err
	}
	u := s.under()
	if err == nil {
		emptyRead := len(u) > 0 && u[len(u)-1].N == 0 && u[len(u)-1].Err == "" && b == 0
		if s.pos < len(s.want) && b == s.want[s.pos] {
			s.pos++
			if emptyRead && s.zeroSuspect == 0 {
				s.zeroSuspect = s.calls
			}
			return b, err
		}
		br := &brBreach{Key: "C14:bytereader-wrong-byte", Call: s.calls - 1, Offset: s.pos, GotByte: b, Under: u}
		if s.pos < len(s.want) {
			br.Want = fmt.Sprintf("byte %#02x", s.want[s.pos])
		} else {
			br.Want = "an error (content exhausted)"
		}
		if emptyRead {
			br.Key = "C14:bytereader-zero-read"
		} else if s.zeroSuspect > 0 {
			br.Key, br.Note = "C14:bytereader-zero-read", s.suspectNote()
		}
		s.breach = br
		return b, err
	}
	if s.pos < len(s.want) {
		br := &brBreach{Key: "C14:bytereader-premature-error", Call: s.calls - 1, Offset: s.pos, GotByte: b, GotErr: err.Error(),
			Want: fmt.Sprintf("byte %#02x with a nil error", s.want[s.pos]), Under: u}
		for _, r := range u {
			if r.N > 0 && r.Err != "" {
				br.Key = "C14:bytereader-data-with-eof"
			}
		}
		s.breach = br
	}
	return b, err
}

func (s *spy) Read(p []byte) (int, error) {
	if s.lr != nil {
		s.lr.log = s.lr.log[:0]
	}
	n, err := s.br.Read(p)
	s.calls++
	if s.breach != nil {
		return n, err
	}
	if n < 0 || n > len(p) || s.pos+n > len(s.want) || string(p[:n]) != string(s.want[s.pos:s.pos+n]) {
		s.breach = &brBreach{Key: "C14:bytereader-read-wrong-data", Call: s.calls - 1, Offset: s.pos, Under: s.under(),
			Want: "the next content bytes", GotErr: fmt.Sprint(err)}
		if s.zeroSuspect > 0 {
			s.breach.Key, s.breach.Note = "C14:bytereader-zero-read", s.suspectNote()
		}
		return n, err
	}
	s.pos += n
	if err != nil && err != io.EOF {
		s.breach = &brBreach{Key: "C14:bytereader-read-error", Call: s.calls - 1, Offset: s.pos, Under: s.under(), Want: "nil or io.EOF", GotErr: err.Error()}
	}
	return n, err
}

func newSpy(msg interface{}, wrapped bool, want []byte) *spy {
	r := msg.(io.Reader)
	s := &spy{want: want}
	if _, isBR := r.(utils.ByteReader); wrapped || !isBR {
		s.lr = &logReader{r: r}
		r = s.lr
	}
	s.br = utils.NewByteReader(r)
	return s
}

type brDetail struct {
	Carrier string    `json:"carrier"`
	Beh     string    `json:"behaviour,omitempty"`
	Variant string    `json:"variant"`
	Size    int       `json:"size"`
	Breach  *brBreach `json:"breach,omitempty"`
	Values  []uint64  `json:"uvarint_values,omitempty"`
	Got     []uint64  `json:"uvarint_decoded,omitempty"`
	GotErr  string    `json:"uvarint_error,omitempty"`
	Encoded string    `json:"encoded_hex,omitempty"`
}

func runReadByte(c *core.Ctx, id string, k kase) {
	rng := c.Rand(id)
	car := &carriers[k.carrier]
	want, _ := content(rng, k.size)
	for i, b := range want {
		if b == 0 { // keep a phantom zero byte distinguishable from content
			want[i] = 0x01
		}
	}
	msg := car.mk(want, rng)
	wrapped := k.fn == "wrapped"
	s := newSpy(msg, wrapped, want)
	mixed := rng.Intn(3) == 0
	det := brDetail{Carrier: car.name, Beh: car.beh, Variant: k.fn, Size: k.size}
	if mixed {
		det.Variant += "+mixed-with-Read"
	}
	limit := 2*len(want) + 64
	var lastErr error
	for s.calls < limit && s.breach == nil {
		if mixed && rng.Intn(4) == 0 {
			// a Read that returns (0, nil) is legal; the underlying readers never do it twice in a
			// row, so 2*len+64 calls always suffice for a conforming byte reader
			if _, err := s.Read(make([]byte, 1+rng.Intn(300))); err != nil {
				lastErr = err
				break
			}
			continue
		}
		if _, err := s.ReadByte(); err != nil {
			lastErr = err
			break
		}
	}
	c.Count("readbyte_calls", int64(s.calls))
	c.Count("readbyte_cases", 1)
	if car.beh != "" {
		c.Count("reader_behaviour_cases", 1)
	}
	c.Sig("readbyte", det.Variant, car.name, car.beh, sizeClass(k.size))
	if s.breach != nil {
		det.Breach = s.breach
		c.Violation(s.breach.Key, id, fmt.Sprintf("NewByteReader(%s [%s], %d bytes): call #%d at content offset %d returned (%#02x, %q), want %s; reads of the underlying reader during that call: %+v %s",
			car.name, car.beh, k.size, s.breach.Call, s.breach.Offset, s.breach.GotByte, s.breach.GotErr, s.breach.Want, s.breach.Under, s.breach.Note), det)
		return
	}
	if lastErr == nil || s.pos != len(want) {
		// no contract breach was seen call by call, yet the content was not handed out completely
		// within len+64 calls: only possible with unbounded (0,nil) progress problems; do not guess.
		c.Inconclusive(id, fmt.Sprintf("byte reader over %s made no progress: %d of %d bytes after %d calls", car.name, s.pos, len(want), s.calls))
	}
}

var uvarintPalette = []uint64{0, 1, 127, 128, 300, 16383, 16384, 1 << 21, 1<<32 - 1, 1 << 32, 1<<63 - 1, 1<<64 - 1}

func runUvarint(c *core.Ctx, id string, k kase) {
	rng := c.Rand(id)
	car := &carriers[k.carrier]
	// first value from the palette, then a few random ones; half of the cases end right after
	// the last varint (so that data-with-EOF hits ReadByte), the others carry a body after it.
	vals := []uint64{uvarintPalette[k.size%len(uvarintPalette)]}
	for n := rng.Intn(4); n > 0; n-- {
		vals = append(vals, rng.Uint64()>>uint(rng.Intn(64)))
	}
	var enc []byte
	for _, v := range vals {
		enc = binary.AppendUvarint(enc, v)
	}
	var body []byte
	if k.size/len(uvarintPalette)%2 == 1 || rng.Intn(2) == 0 {
		body = randBytes(rng, rng.Intn(3000))
	}
	want := append(clone(enc), body...)
	msg := car.mk(want, rng)
	s := newSpy(msg, (k.size+k.rep)%2 == 1, want)
	det := brDetail{Carrier: car.name, Beh: car.beh, Variant: "uvarint", Size: len(want), Values: vals, Encoded: fmt.Sprintf("%x", enc)}
	var derr error
	for range vals {
		var v uint64
		if v, derr = binary.ReadUvarint(s); derr != nil {
			det.GotErr = derr.Error()
			break
		}
		det.Got = append(det.Got, v)
	}
	ok := derr == nil && len(det.Got) == len(vals)
	for i := 0; ok && i < len(vals); i++ {
		ok = det.Got[i] == vals[i]
	}
	var rest []byte
	if ok && s.breach == nil {
		rest, derr = drain(s, rng)
	}
	c.Count("uvarint_decodes", int64(len(vals)))
	c.Count("readbyte_calls", int64(s.calls))
	if car.beh != "" {
		c.Count("reader_behaviour_cases", 1)
	}
	c.Sig("uvarint", car.name, car.beh, k.size, len(body) == 0)
	switch {
	case s.breach != nil:
		det.Breach = s.breach
		c.Violation(s.breach.Key, id, fmt.Sprintf("binary.ReadUvarint(NewByteReader(%s [%s])) over the encoding %x of %v decoded %v (err %q): ReadByte call #%d returned (%#02x, %q), want %s; underlying reads during that call: %+v %s",
			car.name, car.beh, enc, vals, det.Got, det.GotErr, s.breach.Call, s.breach.GotByte, s.breach.GotErr, s.breach.Want, s.breach.Under, s.breach.Note), det)
	case !ok:
		c.Violation("C14:bytereader-uvarint-mismatch", id, fmt.Sprintf("binary.ReadUvarint(NewByteReader(%s)) over %x decoded %v (err %q), want %v, without a visible ReadByte contract breach",
			car.name, enc, det.Got, det.GotErr, vals), det)
	case derr != nil:
		c.Violation("C14:bytereader-read-error", id, fmt.Sprintf("reading the body after the varints through NewByteReader(%s) failed: %v", car.name, derr), det)
	default:
		if d, same := diff(rest, body); !same {
			c.Violation("C14:bytereader-body-after-varint-differs", id, fmt.Sprintf("body read through NewByteReader(%s) after %d varints differs: %s", car.name, len(vals), d), det)
		} else if c.WantSample() && car.beh != "" && len(body) < 16 {
			c.Sample(det)
		}
	}
}
