package c14

import (
	"context"
	"fmt"
	"math/rand"
	"sync"
	"time"

	netty "github.com/go-netty/go-netty"

	"verif/core"
	"verif/mon"
)

const watchdog = 30 * time.Second

// excRec records every exception event and swallows it (so that the channel
// stays open and "exactly one exception" can be told from "closed").
type excRec struct {
	mu   sync.Mutex
	errs []string
}

func (e *excRec) HandleException(ctx netty.ExceptionContext, ex netty.Exception) {
	e.mu.Lock()
	e.errs = append(e.errs, fmt.Sprint(ex))
	e.mu.Unlock()
}

func (e *excRec) list() []string {
	e.mu.Lock()
	defer e.mu.Unlock()
	return append([]string(nil), e.errs...)
}

type sentMsg struct {
	Carrier string `json:"carrier"`
	Size    int    `json:"size"`
	Content string `json:"content_kind,omitempty"`
	Bad     bool   `json:"unsupported,omitempty"`
	WriteOK bool   `json:"write_returned_nil"`
}

type headDetail struct {
	Mode       string    `json:"mode"`
	Messages   []sentMsg `json:"messages"`
	Exceptions []string  `json:"exceptions"`
	Ops        string    `json:"transport_ops"`
	Diff       *diffInfo `json:"diff,omitempty"`
}

// headTrial writes the messages one after another on a fresh channel and
// judges wire and exceptions at quiescence.
type headMsg struct {
	car  *carrier
	bad  *badValue
	data []byte
	kind string
	// low != 0: not a message but a low-level write with a deadline context (1 CtxWrite1, 2 CtxWritev), after which the
	// transport's clock is moved past that deadline: nothing of it may linger on the transport for the messages that follow
	low int
}

func headTrial(c *core.Ctx, id string, m chanMode, msgs []headMsg, rng *rand.Rand) {
	rec := &excRec{}
	tr := mon.NewRecTransport()
	tr.HonourDeadlines = true
	ro := mon.RigOpts{Mode: m.mode, Queue: m.q, Handlers: []netty.Handler{rec}, NoHooks: true, Tr: tr}
	wrapped := ""
	if len(msgs) > 1 && rng.Intn(3) == 0 {
		// on the library's write-buffering transport wrappers, with a slow connection underneath: on a queued channel the
		// sender then works through a backlog in several batches between two flushes
		wv := [][2]int{{0, 64}, {64, 64}, {0, 1024}, {4096, 4096}}[rng.Intn(4)]
		ro.Wrap = &wv
		ro.Plan = []mon.Step{{At: "tW0", Occ: 0, Kind: mon.Sleep, D: time.Duration(50+rng.Intn(200)) * time.Microsecond}}
		wrapped = fmt.Sprintf(" on NewTransport(conn,%d,%d)", wv[0], wv[1])
		c.Count("head_sequences_on_buffering_wrapper", 1)
	}
	lateSender := m.mode != mon.Sync && ro.Wrap == nil && rng.Intn(2) == 0
	if lateSender {
		// the background sender starts late (busy executor): everything written meanwhile waits in the queue
		ro.Plan = append(ro.Plan, mon.Step{At: "x1", Occ: 1, Kind: mon.Gate, Until: "go", UntilCount: 1, Timeout: 20 * time.Millisecond})
	}
	rig := mon.NewRig(ro)
	defer rig.Dispose()

	det := headDetail{Mode: m.name + wrapped}
	var want []byte
	nbad := 0
	for _, hm := range msgs {
		var msg interface{}
		sm := sentMsg{}
		if hm.low != 0 {
			ctx, cancel := context.WithDeadline(context.Background(), tr.Now().Add(time.Hour))
			var err error
			if hm.low == 1 {
				sm.Carrier = "CtxWrite1(deadline context)"
				_, err = rig.Ch.CtxWrite1(ctx, clone(hm.data))
			} else {
				sm.Carrier = "CtxWritev(deadline context)"
				_, err = rig.Ch.CtxWritev(ctx, splitv(clone(hm.data), rng, 700))
			}
			cancel()
			tr.AdvanceClock(2 * time.Hour)
			sm.Size, sm.Content, sm.WriteOK = len(hm.data), hm.kind, err == nil
			want = append(want, hm.data...)
			det.Messages = append(det.Messages, sm)
			c.Count("head_deadline_writes_between_messages", 1)
			continue
		}
		if hm.bad != nil {
			msg, sm.Carrier, sm.Bad = hm.bad.v, hm.bad.name, true
			nbad++
		} else {
			msg = hm.car.mk(hm.data, rng)
			want = append(want, hm.data...)
			sm.Carrier, sm.Size, sm.Content = hm.car.name, len(hm.data), hm.kind
		}
		sm.WriteOK = rig.Ch.Write(msg) == nil
		// Write has returned: byte-slice messages were snapshotted, the memory is the caller's again
		switch v := msg.(type) {
		case []byte:
			for i := range v {
				v[i] = 0xEE
			}
		case [][]byte:
			for _, part := range v {
				for i := range part {
					part[i] = 0xEE
				}
			}
		}
		det.Messages = append(det.Messages, sm)
	}
	rig.S.Mark("go")
	if m.mode != mon.Sync && !rig.Ex.WaitOutstanding(1, watchdog) {
		c.Inconclusive(id, "watchdog: sender did not finish")
		return
	}
	ops, wire := rig.T.Snapshot()
	det.Exceptions = rec.list()
	if len(ops) > 40 {
		det.Ops = mon.OpString(ops[:40]) + fmt.Sprintf(" ... (%d ops)", len(ops))
	} else {
		det.Ops = mon.OpString(ops)
	}
	c.Count("head_messages_checked", int64(len(msgs)))
	c.Count("head_bytes_compared", int64(len(want)))
	c.Count("head_transport_calls", int64(len(ops)))
	c.Count("head_exceptions_seen", int64(len(det.Exceptions)))
	c.Count("head_mode_"+m.name, 1)

	label := "seq"
	if len(msgs) == 1 {
		if msgs[0].bad != nil {
			label = "unsupported-" + keyPart(msgs[0].bad.name)
		} else {
			label = keyPart(msgs[0].car.name)
		}
	}
	// 1. a write on the open channel is always taken
	for i, sm := range det.Messages {
		if !sm.WriteOK {
			c.Violation("C14:head-"+label+"-write-refused-on-open-channel", id,
				fmt.Sprintf("%s channel: Write of message #%d (%s, %d bytes) returned an error although the channel was never closed", m.name, i, sm.Carrier, sm.Size), det)
			return
		}
	}
	// 2. exactly one exception per unsupported message, none for supported ones
	if len(det.Exceptions) != nbad {
		key := "C14:head-" + label + "-raised-exception"
		if len(det.Exceptions) < nbad {
			key = "C14:head-" + label + "-no-exception"
		} else if nbad > 0 {
			key = "C14:head-" + label + "-more-than-one-exception"
		}
		c.Violation(key, id, fmt.Sprintf("%s channel, messages %s: %d exception event(s) observed, want exactly %d (one per unsupported message): %v",
			m.name, describe(det.Messages), len(det.Exceptions), nbad, det.Exceptions), det)
		return
	}
	// 3. the wire carries exactly the supported messages' bytes, in order
	if d, ok := diff(wire, want); !ok {
		det.Diff = &d
		key := "C14:head-" + label + "-wire-differs"
		if len(want) == 0 {
			key = "C14:head-" + label + "-transmitted-bytes"
		}
		c.Violation(key, id, fmt.Sprintf("%s channel, messages %s: wire != content: %s", m.name, describe(det.Messages), d), det)
		return
	}
	// 4. an unsupported message hands nothing at all to the transport
	if nbad == len(msgs) {
		for _, op := range ops {
			if (op.Kind == mon.OpWrite || op.Kind == mon.OpWritev) && len(op.Data) > 0 {
				c.Violation("C14:head-"+label+"-transmitted-bytes", id,
					fmt.Sprintf("%s channel: unsupported message %s handed %d bytes to the transport", m.name, describe(det.Messages), len(op.Data)), det)
				return
			}
		}
	}
	if c.WantSample() && len(msgs) > 1 {
		c.Sample(det)
	}
}

func describe(ms []sentMsg) string {
	s := "["
	for i, m := range ms {
		if i > 0 {
			s += ", "
		}
		if m.Bad {
			s += "unsupported:" + m.Carrier
		} else {
			s += fmt.Sprintf("%s(%d)", m.Carrier, m.Size)
		}
	}
	return s + "]"
}

func runHead(c *core.Ctx, id string, k kase) {
	rng := c.Rand(id)
	car := &carriers[k.carrier]
	data, kind := content(rng, k.size)
	headTrial(c, id, modes[k.mode], []headMsg{{car: car, data: data, kind: kind}}, rng)
	c.Count("head_carrier_size_mode_cells", 1)
	c.Count("head_carrier_"+keyPart(car.class), 1)
	if car.beh != "" {
		c.Count("reader_behaviour_cases", 1)
	}
	c.Max("max_message_bytes", int64(k.size))
	c.Sig("head", car.name, car.beh, sizeClass(k.size), modes[k.mode].name)
}

func runHeadBad(c *core.Ctx, id string, k kase) {
	bv := badValues()[k.bad]
	headTrial(c, id, modes[k.mode], []headMsg{{bad: &bv}}, c.Rand(id))
	c.Count("head_unsupported_cases", 1)
	c.Sig("headbad", bv.name, modes[k.mode].name)
}

func runHeadSeq(c *core.Ctx, id string, k kase) {
	rng := c.Rand(id)
	bvs := badValues()
	n := 2 + rng.Intn(4)
	var msgs []headMsg
	shape := ""
	for i := 0; i < n; i++ {
		if rng.Intn(4) == 0 {
			bv := bvs[rng.Intn(len(bvs))]
			msgs = append(msgs, headMsg{bad: &bv})
			shape += "!"
			continue
		}
		if rng.Intn(6) == 0 {
			sz := []int{1, 100, 1500}[rng.Intn(3)]
			data, kind := content(rng, sz)
			data[0] = byte(0xF0 + i)
			msgs = append(msgs, headMsg{low: 1 + rng.Intn(2), data: data, kind: kind})
			shape += "D"
			continue
		}
		ci := rng.Intn(len(carriers))
		for !carriers[ci].head {
			ci = rng.Intn(len(carriers))
		}
		sz := seqSizes[rng.Intn(len(seqSizes))]
		if rng.Intn(3) == 0 {
			sz = rng.Intn(3000)
		}
		data, kind := content(rng, sz)
		if sz > 0 {
			// make every message of a sequence recognisable: first byte = position
			data[0] = byte(0xF0 + i)
		}
		msgs = append(msgs, headMsg{car: &carriers[ci], data: data, kind: kind})
		shape += string(rune('a' + ci))
	}
	headTrial(c, id, modes[k.mode], msgs, rng)
	c.Count("head_sequences", 1)
	c.Sig("headseq", shape, modes[k.mode].name)
}
