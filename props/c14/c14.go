// Package c14 checks property C14: every message type accepted at the head of
// the pipeline is transmitted byte-exact (sync and queued channels), any other
// type raises an exception and transmits nothing, and the conversion helpers in
// utils return exactly the content of every supported input.
package c14

import (
	"bytes"
	"fmt"
	"io"
	"math/bits"
	"math/rand"
	"strconv"
	"strings"

	"verif/core"
	"verif/mon"
)

func init() {
	core.Register(&core.Prop{
		ID:    "C14",
		Level: "exploration",
		Rule: "part A: one real channel (recording transport, empty user pipeline) per case; message = carrier(content) for every carrier type accepted by the head handler " +
			"([]byte, [][]byte, *bytes.Buffer, stdlib and custom io.WriterTo incl. buffer-reusing ones, io.Reader with 10 delivery behaviours) x size palette (0,1,chunk edges 1023/1024/1025, pool classes, 65537, 200000, jittered in thorough) " +
			"x {sync, queued q=1,8,64}; oracle wire == content after sender quiescence; 23 unsupported values must give exactly one exception and an empty wire; random mixed sequences check order. " +
			"part B: ToReader/MustToReader/ToBytes/MustToBytes/StealBytes/ByteStealer/CountOf against the reference content for every carrier x size, error/panic for unsupported values, and []byte / [][]byte inputs still carry their content afterwards; " +
			"NewByteReader(...).ReadByte judged call by call against the io.ByteReader contract (also through binary.ReadUvarint and mixed with Read). " +
			"distinct_nontrivial = distinct (part, function, carrier, behaviour, size class, channel mode)",
		Assumptions: []string{
			"the mock transport accepts every write; one writer per channel (ordering under concurrency is C01/C09)",
			"reader behaviours are legal io.Reader behaviours: (0,nil) at most once in a row, (n>0,io.EOF), fragments of any size, io.EOF as only error",
			"a WriterTo may reuse/overwrite its buffer once Write has returned (io.Writer: 'must not retain p')",
			"helpers may alias their input (content is compared at return time); named slice types are not probed as unsupported inputs of the helpers",
			"bounds: sizes <= 200003 bytes, sequences of <= 5 messages",
		},
		Shards:     func(tier string) int { return 8 },
		TimeoutSec: func(tier string) int { return map[bool]int{true: 240, false: 1800}[tier != "thorough"] },
		Required:   []string{"head_messages_checked", "head_exceptions_seen", "helper_calls", "readbyte_calls", "uvarint_decodes", "reader_behaviour_cases"},
		Run:        run,
	})
}

type chanMode struct {
	name string
	mode mon.Mode
	q    int
}

var modes = []chanMode{{"sync", mon.Sync, 0}, {"q1", mon.Blocking, 1}, {"q8", mon.Blocking, 8}, {"q64", mon.Blocking, 64}}

var sizes = []int{0, 1, 2, 17, 1023, 1024, 1025, 2047, 2048, 2049, 3072, 4096, 4097, 8192, 16384, 32768, 32769, 65536, 65537, 200000}

var seqSizes = []int{0, 0, 1, 5, 17, 1023, 1024, 1025, 2049, 5000, 9000}

var convFns = []string{"ToReader", "MustToReader", "ToBytes", "MustToBytes", "StealBytes", "ByteStealer"}

// kase is one case descriptor; everything random inside a case derives from c.Rand(id).
type kase struct {
	part    string // head | headbad | headseq | conv | convbad | countof | readbyte | uvarint
	carrier int
	size    int
	mode    int
	fn      string
	bad     int
	rep     int
}

func (k kase) id() string {
	switch k.part {
	case "head":
		return fmt.Sprintf("head/%s/%d/%s/r%d", carriers[k.carrier].name, k.size, modes[k.mode].name, k.rep)
	case "headbad":
		return fmt.Sprintf("headbad/%d/%s/r%d", k.bad, modes[k.mode].name, k.rep)
	case "headseq":
		return fmt.Sprintf("headseq/%s/n%d/r%d", modes[k.mode].name, k.size, k.rep)
	case "conv":
		return fmt.Sprintf("conv/%s/%s/%d/r%d", k.fn, carriers[k.carrier].name, k.size, k.rep)
	case "convbad":
		return fmt.Sprintf("convbad/%s/%d/r%d", k.fn, k.bad, k.rep)
	case "countof":
		return fmt.Sprintf("countof/n%d/r%d", k.size, k.rep)
	case "readbyte":
		return fmt.Sprintf("readbyte/%s/%s/%d/r%d", k.fn, carriers[k.carrier].name, k.size, k.rep)
	default:
		return fmt.Sprintf("uvarint/%s/v%d/r%d", carriers[k.carrier].name, k.size, k.rep)
	}
}

// jitter keeps palette sizes in rep 0 and moves them by a few bytes around the
// boundary in odd repetitions.
func jitter(c *core.Ctx, size, rep int, labels ...interface{}) int {
	if rep%2 == 0 {
		return size
	}
	s := size + c.Rand(append(labels, "jitter", size, rep)...).Intn(7) - 3
	if s < 0 {
		s = 0
	}
	return s
}

// capabilities of each carrier's message type, probed once on an empty message.
var carrierIsReader, carrierIsWriterTo, carrierIsByteReader []bool

func probeCarriers() {
	if carrierIsReader != nil {
		return
	}
	for _, car := range carriers {
		m := car.mk(nil, rand.New(rand.NewSource(1)))
		_, r := m.(io.Reader)
		_, w := m.(io.WriterTo)
		carrierIsReader = append(carrierIsReader, r)
		carrierIsWriterTo = append(carrierIsWriterTo, w)
		_, b := m.(io.ByteReader)
		carrierIsByteReader = append(carrierIsByteReader, r && b)
	}
}

func isReaderCarrier(ci int) bool { return carrierIsReader[ci] }

// convApplies: is the carrier a supported input of the helper?
func convApplies(fn string, ci int) bool {
	switch fn {
	case "ToReader", "MustToReader":
		cl := carriers[ci].class
		return cl == "[]byte" || cl == "[][]byte" || cl == "string" || carrierIsReader[ci]
	case "StealBytes", "ByteStealer":
		return carrierIsWriterTo[ci]
	}
	return true
}

func buildCases(c *core.Ctx) []kase {
	probeCarriers()
	var ks []kase
	reps := c.Scale(2, 40)
	for rep := 0; rep < reps; rep++ {
		for ci := range carriers {
			for _, sz := range sizes {
				s := jitter(c, sz, rep, "A", ci)
				if carriers[ci].head {
					for mi := range modes {
						ks = append(ks, kase{part: "head", carrier: ci, size: s, mode: mi, rep: rep})
					}
				}
				for _, fn := range convFns {
					if !convApplies(fn, ci) {
						continue
					}
					ks = append(ks, kase{part: "conv", carrier: ci, size: s, fn: fn, rep: rep})
				}
				if isReaderCarrier(ci) {
					ks = append(ks, kase{part: "readbyte", carrier: ci, size: s, fn: "wrapped", rep: rep})
					if carrierIsByteReader[ci] {
						ks = append(ks, kase{part: "readbyte", carrier: ci, size: s, fn: "direct", rep: rep})
					}
				}
			}
			if isReaderCarrier(ci) {
				for v := 0; v < 12; v++ {
					ks = append(ks, kase{part: "uvarint", carrier: ci, size: v, rep: rep})
				}
			}
		}
		for n := 0; n < 240; n++ {
			ks = append(ks, kase{part: "headseq", mode: n % len(modes), size: n, rep: rep})
		}
		for n := 0; n < 60; n++ {
			ks = append(ks, kase{part: "countof", size: n, rep: rep})
		}
		if rep == 0 {
			for b, bv := range badValues() {
				for mi := range modes {
					ks = append(ks, kase{part: "headbad", bad: b, mode: mi, rep: rep})
				}
				if !bv.helper {
					continue
				}
				for _, fn := range []string{"ToReader", "MustToReader", "ToBytes", "MustToBytes"} {
					ks = append(ks, kase{part: "convbad", bad: b, fn: fn, rep: rep})
				}
			}
		}
	}
	// spread the expensive cases over the shards (pure function of the seed)
	c.Rand("shuffle").Shuffle(len(ks), func(i, j int) { ks[i], ks[j] = ks[j], ks[i] })
	return ks
}

func run(c *core.Ctx) {
	runRefusals(c)
	ks := buildCases(c)
	for i, k := range ks {
		if !c.Mine(i) {
			continue
		}
		id := k.id()
		switch k.part {
		case "head", "headbad", "headseq":
			if !c.Case(id) {
				continue
			}
		default:
			if !c.CaseQuiet(id) {
				continue
			}
		}
		switch k.part {
		case "head":
			runHead(c, id, k)
		case "headbad":
			runHeadBad(c, id, k)
		case "headseq":
			runHeadSeq(c, id, k)
		case "conv":
			runConv(c, id, k)
		case "convbad":
			runConvBad(c, id, k)
		case "countof":
			runCountOf(c, id, k)
		case "readbyte":
			runReadByte(c, id, k)
		case "uvarint":
			runUvarint(c, id, k)
		}
	}
}

// ---- shared helpers -----------------------------------------------------------

func inPalette(n int) bool {
	for _, s := range sizes {
		if s == n {
			return true
		}
	}
	return false
}

func sizeClass(n int) string {
	if inPalette(n) {
		return strconv.Itoa(n)
	}
	return "~2^" + strconv.Itoa(bits.Len(uint(n)))
}

// content builds the reference content of a case: random bytes, a position
// counter pattern (exposes reordering/duplication in a readable way) or zeros
// with sparse marks (exposes stale pool bytes).
func content(rng *rand.Rand, size int) ([]byte, string) {
	b := make([]byte, size)
	switch rng.Intn(4) {
	case 0:
		for i := range b {
			b[i] = byte(i) ^ byte(i>>8)*31 ^ byte(i>>16)*17
		}
		return b, "counter"
	case 1:
		for i := 0; i < len(b); i += 97 {
			b[i] = byte(1 + i/97)
		}
		return b, "sparse"
	default:
		rng.Read(b)
		return b, "random"
	}
}

type diffInfo struct {
	GotLen   int    `json:"got_len"`
	WantLen  int    `json:"want_len"`
	FirstOff int    `json:"first_diff_offset"`
	GotHex   string `json:"got_at_diff_hex"`
	WantHex  string `json:"want_at_diff_hex"`
}

func (d diffInfo) String() string {
	return fmt.Sprintf("got %d bytes, want %d bytes, first difference at offset %d (got %q want %q)", d.GotLen, d.WantLen, d.FirstOff, d.GotHex, d.WantHex)
}

func excerpt(b []byte, off int) string {
	if off > len(b) {
		off = len(b)
	}
	end := off + 12
	if end > len(b) {
		end = len(b)
	}
	return fmt.Sprintf("%x", b[off:end])
}

// diff compares got with want; ok when equal (nil and empty are the same content).
func diff(got, want []byte) (diffInfo, bool) {
	if bytes.Equal(got, want) {
		return diffInfo{}, true
	}
	n := len(got)
	if len(want) < n {
		n = len(want)
	}
	off := n
	for i := 0; i < n; i++ {
		if got[i] != want[i] {
			off = i
			break
		}
	}
	return diffInfo{len(got), len(want), off, excerpt(got, off), excerpt(want, off)}, false
}

func keyPart(s string) string {
	s = strings.ReplaceAll(s, "[]", "sl-")
	out := make([]byte, 0, len(s))
	for i := 0; i < len(s); i++ {
		ch := s[i]
		switch {
		case ch >= 'a' && ch <= 'z', ch >= '0' && ch <= '9', ch == '-':
			out = append(out, ch)
		case ch >= 'A' && ch <= 'Z':
			out = append(out, ch+32)
		case ch == '.' || ch == '+' || ch == '_' || ch == ' ':
			out = append(out, '-')
		}
	}
	return string(out)
}
