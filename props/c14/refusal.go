package c14

import (
	"bytes"
	"fmt"
	"time"

	netty "github.com/go-netty/go-netty"

	"verif/core"
	"verif/mon"
)

type roReader struct{ r *bytes.Reader }

func (r roReader) Read(p []byte) (int, error) { return r.r.Read(p) }

type swallowExc struct{ n int }

func (s *swallowExc) HandleException(ctx netty.ExceptionContext, ex netty.Exception) { s.n++ }

// runRefusals: byte-exactness across an error path. On a non-blocking queued channel whose sender is held
// back, a streamed (io.Reader) message is refused because the queue is full (an exception, nothing sent);
// the messages accepted before and after it must still be transmitted byte-exact.
func runRefusals(c *core.Ctx) {
	total := c.Scale(40, 800)
	for i := 0; i < total; i++ {
		if !c.Mine(i) {
			continue
		}
		id := fmt.Sprintf("refusal%d", i)
		if !c.Case(id) {
			continue
		}
		rng := c.Rand("refusal", i)
		q := 1 + rng.Intn(3)
		big := []int{513, 600, 1000, 1024}[rng.Intn(4)] // the pool class of the streaming chunk buffer
		plan := []mon.Step{
			{At: "x1", Occ: 1, Kind: mon.Gate, Until: "go1", UntilCount: 1, Timeout: 3 * time.Second},
			{At: "x2", Occ: 1, Kind: mon.Gate, Until: "go2", UntilCount: 1, Timeout: 3 * time.Second},
		}
		exc := &swallowExc{}
		rig := mon.NewRig(mon.RigOpts{Mode: mon.NonBlock, Queue: q, Plan: plan, Handlers: []netty.Handler{exc}})
		var want []byte
		msg := func(tag byte, n int) []byte { return bytes.Repeat([]byte{tag}, n) }
		// 1. fill the queue behind the held sender
		for k := 0; k < q; k++ {
			m := msg(byte('a'+k), 100+rng.Intn(200))
			want = append(want, m...)
			rig.Ch.Write(m)
		}
		// 2. a streamed message is refused (queue full): exception, nothing transmitted
		rig.Ch.Write(roReader{bytes.NewReader(msg('R', big))})
		refused := exc.n
		// 3. the sender drains
		rig.S.Mark("go1")
		rig.Ex.WaitOutstanding(1, 5*time.Second)
		// 4. two more messages of the chunk buffer's size class wait in the queue together
		n2 := q
		if n2 > 2 {
			n2 = 2
		}
		if q == 1 {
			n2 = 1
		}
		for k := 0; k < n2; k++ {
			m := msg(byte('p'+k), big-rng.Intn(10))
			want = append(want, m...)
			rig.Ch.Write(m)
		}
		rig.S.Mark("go2")
		rig.Ex.WaitOutstanding(1, 5*time.Second)
		wire := rig.T.Wire()
		c.Count("refusal_sequences", 1)
		c.Count("head_messages_checked", int64(q+n2))
		c.Sig("refusal", q, big, refused)
		if refused != 1 {
			c.Count("refusal_sequences_without_refusal", 1)
		} else if !bytes.Equal(wire, want) {
			d := 0
			for d < len(wire) && d < len(want) && wire[d] == want[d] {
				d++
			}
			c.Violation("C14:accepted-message-altered-after-a-refused-stream", id,
				fmt.Sprintf("non-blocking channel Q=%d: after an io.Reader message of %d bytes was refused (queue full), the accepted []byte messages were not transmitted byte-exact: %d bytes expected, %d on the wire, first difference at %d (wire has %q, expected %q)",
					q, big, len(want), len(wire), d, clip(wire, d), clip(want, d)), nil)
		}
		rig.Dispose()
	}
}

func clip(b []byte, at int) string {
	if at >= len(b) {
		return ""
	}
	e := at + 8
	if e > len(b) {
		e = len(b)
	}
	return string(b[at:e])
}
