package c15

import (
	"bufio"
	"bytes"
	"fmt"
	"io"
	"net/http"
	"net/textproto"
	"strings"

	"verif/core"
	"verif/mon"
)

// parsed is one response read back from the wire.
type parsed struct {
	Status  int
	Hdr     http.Header
	Body    []byte
	BodyErr string
}

// parseWire reads responses until the wire is exhausted or stops parsing.
func parseWire(wire []byte, reqs []reqSpec) (out []parsed, perr string, rest int) {
	src := bytes.NewReader(wire)
	br := bufio.NewReader(src)
	for j := 0; ; j++ {
		if _, err := br.Peek(1); err != nil {
			return out, "", 0
		}
		left := br.Buffered() + src.Len()
		var rq *http.Request
		if j < len(reqs) {
			rq = &http.Request{Method: reqs[j].Method}
		}
		resp, err := http.ReadResponse(br, rq)
		if err != nil {
			return out, err.Error(), left
		}
		body, berr := io.ReadAll(resp.Body)
		resp.Body.Close()
		p := parsed{Status: resp.StatusCode, Hdr: resp.Header, Body: body}
		if berr != nil {
			p.BodyErr = berr.Error()
		}
		out = append(out, p)
		if berr != nil {
			return out, "", 0
		}
	}
}

// finding is one failed predicate; At is the request index it concerns, Resp
// tells whether it concerns the response (true) or the handler invocation.
type finding struct {
	Key  string
	At   int
	Resp bool
	What string
}

func firstDiff(a, b []byte) int {
	n := len(a)
	if len(b) < n {
		n = len(b)
	}
	for i := 0; i < n; i++ {
		if a[i] != b[i] {
			return i
		}
	}
	return n
}

func judge(c *core.Ctx, id string, t *trial, o *observed) {
	var fs []finding
	add := func(key string, at int, resp bool, format string, a ...interface{}) {
		fs = append(fs, finding{"C15:" + key, at, resp, fmt.Sprintf(format, a...)})
	}
	n, m := len(t.Reqs), t.Serve

	// ---- A. handler invocations: once per request, in order, own method/target/headers/body
	matched := 0
	for j := 0; j < len(o.Seen) && j < m; j++ {
		r, p, s := &t.Reqs[j], &t.Progs[j], o.Seen[j]
		bad := ""
		switch {
		case s.Method != r.Method || s.Target != r.Target || s.Proto != r.Proto:
			bad = fmt.Sprintf("saw %s %s %s", s.Method, s.Target, s.Proto)
		default:
			for _, kv := range r.Hdrs {
				k := textproto.CanonicalMIMEHeaderKey(kv[0])
				var want []string
				for _, kv2 := range r.Hdrs {
					if textproto.CanonicalMIMEHeaderKey(kv2[0]) == k {
						want = append(want, kv2[1])
					}
				}
				if got := s.Hdr.Values(k); strings.Join(got, "\x00") != strings.Join(want, "\x00") {
					bad = fmt.Sprintf("header %s = %q, sent %q", k, got, want)
					break
				}
			}
		}
		if bad == "" && s.BodyRead {
			var want []byte
			switch {
			case p.Read < 0:
				want = r.Body
			case p.Read > 0:
				want = r.Body[:p.Read]
			}
			if !bytes.Equal(s.Body, want) || s.ReadErr != "" {
				d := firstDiff(s.Body, want)
				bad = fmt.Sprintf("read %d body bytes (err %q), expected %d; first difference at %d", len(s.Body), s.ReadErr, len(want), d)
			}
		}
		if bad != "" {
			add("handler-request-mismatch", j, false, "handler invocation #%d should see request #%d (%s %s %s) but %s", j, j, r.Method, r.Target, r.Proto, bad)
			break
		}
		matched++
	}
	if matched > 1 {
		c.Count("keepalive_continuations", int64(matched-1))
	}
	switch {
	case len(o.Seen) > m && m < n:
		key := "kept-open-after-close-request"
		if t.CloseWhy == "undelimited" {
			key = "kept-open-after-undelimited-response"
		}
		s := o.Seen[m]
		add(key, m, false, "connection had to be closed after response #%d (%s) but the handler was invoked again with %s %s", m-1, t.CloseWhy, s.Method, s.Target)
	case len(o.Seen) > m:
		s := o.Seen[m]
		add("handler-invoked-for-unsent-request", m, false, "%d requests were sent but the handler was invoked %d times; invocation #%d saw %s %s", n, len(o.Seen), m, s.Method, s.Target)
	case len(o.Seen) < m && matched == len(o.Seen):
		add("handler-not-invoked", len(o.Seen), false, "handler invoked %d times, %d requests had to be served", len(o.Seen), m)
	}

	// ---- B. responses: one per served request, in order, programmed status/headers/body
	resps, perr, rest := parseWire(o.Wire, t.Reqs)
	c.Count("responses_parsed", int64(len(resps)))
	good := 0
	for j := 0; j < len(resps) && j < m; j++ {
		p, got := &t.Progs[j], &resps[j]
		want := respBody(j, p.total())
		switch {
		case got.Status != p.wantStatus():
			add("response-status-mismatch", j, true, "response #%d has status %d, handler programmed %d", j, got.Status, p.wantStatus())
		case got.BodyErr != "" || !bytes.Equal(got.Body, want):
			add("response-body-mismatch", j, true, "response #%d (%s, writes %v) body has %d bytes (read error %q), handler wrote %d; first difference at %d",
				j, p.Mode, p.Writes, len(got.Body), got.BodyErr, len(want), firstDiff(got.Body, want))
		default:
			for _, kv := range p.Hdrs {
				found := false
				for _, v := range got.Hdr.Values(kv[0]) {
					found = found || v == kv[1]
				}
				if !found {
					add("response-header-mismatch", j, true, "response #%d lacks header %s: %q (has %q)", j, kv[0], preview([]byte(kv[1]), 40), got.Hdr.Values(kv[0]))
					break
				}
			}
		}
		if len(fs) > 0 && fs[len(fs)-1].Resp && fs[len(fs)-1].At == j {
			break
		}
		good++
	}
	switch {
	case perr != "":
		add("response-unparseable", len(resps), true, "after %d responses the remaining %d wire bytes do not parse as a response: %s: %s", len(resps), rest, perr, preview(o.Wire[len(o.Wire)-rest:], 80))
	case len(resps) > m:
		add("response-count-mismatch", m, true, "%d responses on the wire, exactly %d had to be emitted (%d requests sent, close required after #%d: %q)", len(resps), m, n, m-1, t.CloseWhy)
	case len(resps) < m && good == len(resps):
		add("response-count-mismatch", len(resps), true, "%d responses on the wire, %d requests had to be answered", len(resps), m)
	}

	// ---- C. close comes after the last response byte was written and flushed
	closeAt := -1
	for i, op := range o.Ops {
		if op.Kind == mon.OpClose && !op.Rejected && closeAt < 0 {
			closeAt = i
		}
	}
	if closeAt >= 0 {
		c.Count("closes_checked", 1)
		if u := o.Ops[closeAt].Unflush; u > 0 {
			add("close-before-flush", m-1, true, "transport closed while %d written bytes were not flushed (ops %s)", u, opTail(o.Ops))
		}
	}
	for i, op := range o.Ops {
		if op.Rejected && op.Kind != mon.OpClose {
			add("close-before-flush", m-1, true, "transport op #%d %s(%dB) came after the transport was closed: response bytes lost (ops %s)", i, op.Kind, len(op.Data), opTail(o.Ops))
			break
		}
	}

	// ---- attribution to the two input classes whose handling is known to be defective
	taintAt, taintKey := -1, ""
	for j := 0; j < m; j++ {
		if len(t.Progs[j].FlushAt) > 0 {
			taintAt, taintKey = j, "C15:handler-flush-nil-writer"
			break
		}
		if t.Progs[j].leavesBodyUnread(&t.Reqs[j]) {
			taintAt, taintKey = j, "C15:unread-body-parsed-as-next-request"
			break
		}
	}
	c.Count("sequences", 1)
	c.Count("requests", int64(n))
	if taintAt < 0 {
		c.Count("clean_sequences_judged", 1)
		c.Count("clean_responses_judged", int64(good))
	} else if strings.HasSuffix(taintKey, "nil-writer") {
		c.Count("flush_sequences", 1)
	} else {
		c.Count("unread_body_sequences", 1)
	}
	if len(resps) > 0 {
		c.Sig(t.sig())
	}
	if c.WantSample() && len(fs) == 0 && n > 1 {
		d := t.describe()
		d["ops"] = opTail(o.Ops)
		d["responses"] = len(resps)
		c.Sample(d)
	}
	if len(fs) == 0 {
		return
	}
	reported := map[string]bool{}
	for _, f := range fs {
		key := f.Key
		if taintAt >= 0 {
			// Flush: the response of the flushing request and everything after it;
			// unread body: everything after the request whose body stayed unread.
			flushTaint := strings.HasSuffix(taintKey, "nil-writer")
			if (flushTaint && (f.At > taintAt || (f.At == taintAt && f.Resp))) || (!flushTaint && f.At > taintAt) {
				key = taintKey
			}
		}
		if reported[key] {
			continue
		}
		reported[key] = true
		what := f.What
		if key == taintKey {
			r, p := &t.Reqs[taintAt], &t.Progs[taintAt]
			if strings.HasSuffix(taintKey, "nil-writer") {
				what = fmt.Sprintf("handler of request #%d (%s %s) calls Flush() after %v of its %d writes; then: %s", taintAt, r.Method, r.Target, p.FlushAt, len(p.Writes), f.What)
			} else {
				what = fmt.Sprintf("handler of request #%d (%s %s, %d-byte body %s, chunked=%v) read only %d bytes of it; then: %s", taintAt, r.Method, r.Target, len(r.Body), preview(r.Body, 44), r.Chunked, maxInt(p.Read, 0), f.What)
			}
		}
		what += fmt.Sprintf(" [%s, %s, %d requests; channel ended with %q]", t.Mode, t.FragKind, n, errStrings(o.Inactive))
		c.Violation(key, id, what, witness(t, o, resps, fs))
	}
}

func maxInt(a, b int) int {
	if a > b {
		return a
	}
	return b
}

func errStrings(es []error) []string {
	var out []string
	for _, e := range es {
		if e == nil {
			out = append(out, "<nil>")
		} else {
			out = append(out, e.Error())
		}
	}
	return out
}

func opTail(ops []mon.Op) string {
	var b []string
	start := 0
	if len(ops) > 40 {
		start = len(ops) - 40
		b = append(b, "...")
	}
	for _, o := range ops[start:] {
		s := o.Kind
		if o.Kind == mon.OpWrite || o.Kind == mon.OpWritev {
			s += fmt.Sprintf("%d", len(o.Data))
		}
		if o.Rejected {
			s += "!"
		}
		b = append(b, s)
	}
	return strings.Join(b, " ")
}

func witness(t *trial, o *observed, resps []parsed, fs []finding) map[string]interface{} {
	d := t.describe()
	var sv []string
	for i, s := range o.Seen {
		sv = append(sv, fmt.Sprintf("#%d %s %s %s x-req-id=%q body-read=%dB err=%q last-step=%s panic=%q returned=%v", i, s.Method, s.Target, s.Proto, s.Hdr.Get("X-Req-Id"), len(s.Body), s.ReadErr, s.Step, s.Panic, s.Done))
	}
	var rv []string
	for i, r := range resps {
		rv = append(rv, fmt.Sprintf("#%d status=%d body=%dB err=%q", i, r.Status, len(r.Body), r.BodyErr))
	}
	var fv []string
	for _, f := range fs {
		fv = append(fv, f.Key+": "+f.What)
	}
	d["handler_log"] = sv
	d["responses"] = rv
	d["findings"] = fv
	d["ops"] = opTail(o.Ops)
	d["wire_bytes"] = len(o.Wire)
	d["wire_head"] = preview(o.Wire, 300)
	d["inactive"] = errStrings(o.Inactive)
	d["stream_head"] = preview(t.Stream, 300)
	return d
}
