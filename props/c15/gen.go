package c15

import (
	"bytes"
	"fmt"
	"math/rand"
	"sort"
	"strings"

	"verif/mon"
)

// reqSpec is one generated HTTP request.
type reqSpec struct {
	Method  string
	Target  string
	Proto   string // "HTTP/1.0" | "HTTP/1.1"
	Conn    string // "" | "close" | "keep-alive"
	Hdrs    [][2]string
	Body    []byte // decoded body
	Chunked bool   // body sent with Transfer-Encoding: chunked (HTTP/1.1 only)
	Chunks  []int  // chunk sizes when Chunked
	CL0     bool   // send "Content-Length: 0" for an empty non-chunked body
	Class   string // body class (signature)
}

// asksClose: does the request ask to close the connection after its response
// (HTTP semantics: "Connection: close", or HTTP/1.0 without keep-alive).
func (r *reqSpec) asksClose() bool {
	if r.Conn == "close" {
		return true
	}
	return r.Proto == "HTTP/1.0" && r.Conn != "keep-alive"
}

// encode renders the request; it returns the bytes and the offsets of the end
// of the request line and of the header block (relative to the start).
func (r *reqSpec) encode() (b []byte, lineEnd, hdrEnd int) {
	var w bytes.Buffer
	fmt.Fprintf(&w, "%s %s %s\r\n", r.Method, r.Target, r.Proto)
	lineEnd = w.Len()
	w.WriteString("Host: example.test\r\n")
	if r.Conn != "" {
		fmt.Fprintf(&w, "Connection: %s\r\n", r.Conn)
	}
	for _, kv := range r.Hdrs {
		fmt.Fprintf(&w, "%s: %s\r\n", kv[0], kv[1])
	}
	switch {
	case r.Chunked:
		w.WriteString("Transfer-Encoding: chunked\r\n")
	case len(r.Body) > 0 || r.CL0:
		fmt.Fprintf(&w, "Content-Length: %d\r\n", len(r.Body))
	}
	w.WriteString("\r\n")
	hdrEnd = w.Len()
	if r.Chunked {
		off := 0
		for _, n := range r.Chunks {
			if n <= 0 || off >= len(r.Body) {
				continue
			}
			if off+n > len(r.Body) {
				n = len(r.Body) - off
			}
			fmt.Fprintf(&w, "%x\r\n", n)
			w.Write(r.Body[off : off+n])
			w.WriteString("\r\n")
			off += n
		}
		if off < len(r.Body) {
			fmt.Fprintf(&w, "%x\r\n", len(r.Body)-off)
			w.Write(r.Body[off:])
			w.WriteString("\r\n")
		}
		w.WriteString("0\r\n\r\n")
	} else {
		w.Write(r.Body)
	}
	return w.Bytes(), lineEnd, hdrEnd
}

// hasFramedBytes: are there bytes on the wire after the header block.
func (r *reqSpec) hasFramedBytes() bool { return r.Chunked || len(r.Body) > 0 }

// prog is the handler program for one request.
type prog struct {
	Read     int  // -1 = read to EOF, 0 = do not touch the body, k>0 = read exactly k (< len) bytes
	ReadLate bool // read the request body after the response has been written
	Status   int  // 0 = no explicit WriteHeader
	Hdrs     [][2]string
	Mode     string // "cl" | "chunked" | "none"
	Writes   []int
	FlushAt  []int // explicit Flush() after that many Write calls (0 = before the first Write)
}

func (p *prog) total() int {
	n := 0
	for _, w := range p.Writes {
		n += w
	}
	return n
}

func (p *prog) wantStatus() int {
	if p.Status == 0 {
		return 200
	}
	return p.Status
}

// leavesBodyUnread: bytes of the request's framing stay unread when the handler returns.
func (p *prog) leavesBodyUnread(r *reqSpec) bool {
	return p.Read >= 0 && r.hasFramedBytes()
}

func (p *prog) selfDelimiting() bool { return p.Mode == "cl" || p.Mode == "chunked" }

// respBody is the deterministic response body of request idx.
func respBody(idx, n int) []byte {
	const al = "abcdefghijklmnopqrstuvwxyz0123456789"
	b := make([]byte, n)
	for i := range b {
		b[i] = al[(i+idx*5+i/36)%len(al)]
	}
	return b
}

// phantomProg answers requests that were never sent (only reachable on a defective tree).
var phantomProg = prog{Read: -1, Mode: "cl", Writes: []int{7}}

// trial is one generated case.
type trial struct {
	Mode     mon.Mode
	Queue    int
	Reqs     []reqSpec
	Progs    []prog
	Family   string // clean | unread | flush | directed-*
	FragKind string
	MaxChunk int
	Cuts     []int // stream offsets at which a new ReadStep starts
	Stream   []byte
	Starts   []int // start offset of every request in Stream
	// Serve: number of requests that must be served = index (1-based) of the first
	// request after which the connection has to be closed, or len(Reqs).
	Serve int
	// CloseWhy: "" (no request requires closing), "request" or "undelimited".
	CloseWhy string
}

func printable(rng *rand.Rand, n int) []byte {
	const al = "ABCDEFGHIJKLMNOPQRSTUVWXYZabcdefghijklmnopqrstuvwxyz0123456789 -_/:;=?&%.,"
	b := make([]byte, n)
	for i := range b {
		b[i] = al[rng.Intn(len(al))]
	}
	return b
}

var (
	methods  = []string{"GET", "POST", "PUT", "DELETE"}
	statuses = []int{200, 201, 202, 400, 403, 404, 500, 503}
	targets  = []string{"/", "/a/b", "/search?q=a%20b&n=10", "/p?empty=", "/x/y/z.html?k=v&k=w", "/api/v1/items?id=7#f"}
	reqHdrs  = [][][2]string{
		{},
		{{"Accept", "*/*"}, {"User-Agent", "c15-probe/1.0"}},
		{{"X-A", "1"}, {"X-B", "two words; and=more"}, {"Content-Type", "application/octet-stream"}},
		{{"X-Long", strings.Repeat("v0123456789", 40)}},
		{{"X-Dup", "first"}, {"X-Dup", "second"}, {"Accept-Language", "en, de;q=0.5"}},
	}
	respHdrs = [][][2]string{
		{},
		{{"Content-Type", "text/plain; charset=utf-8"}},
		{{"Cache-Control", "no-cache"}, {"X-Trace", "abc def"}},
		{{"Set-Cookie", "a=1; Path=/"}, {"Set-Cookie", "b=2"}, {"Content-Type", "application/json"}},
		{{"X-Long-R", strings.Repeat("r9876543210", 60)}},
		// values with characters that mean something to formatting, quoting or escaping layers
		{{"Location", "/search?q=100%25&next=%2Fhome%20page"}, {"X-Progress", "100%"}},
		{{"X-Format", "%s %d %v %!"}, {"X-Quote", `say "hi" \ back\slash`}, {"Content-Type", "text/plain; charset=utf-8"}},
		{{"X-Empty", ""}, {"X-Unicode", "gr\u00fc\u00dfe"}},
	}
	writeSizes = []int{0, 1, 13, 100, 1000, 1900, 2047, 2048, 2049, 3000, 4096, 5000}
)

const smuggled = "GET /zz HTTP/1.1\r\nHost: smuggled.test\r\n\r\n"

func genBody(rng *rand.Rand) ([]byte, string) {
	switch k := rng.Intn(100); {
	case k < 2:
		// head plus body beyond one mebibyte (uploads): nothing about a request is bounded by the size of its head
		return printable(rng, 1<<20+1+rng.Intn(300000)), "huge"
	case k < 30:
		return nil, "empty"
	case k < 50:
		return printable(rng, 1+rng.Intn(64)), "small"
	case k < 65:
		return printable(rng, 65+rng.Intn(1936)), "medium"
	case k < 75:
		return printable(rng, 2001+rng.Intn(3000)), "large"
	case k < 80:
		return printable(rng, []int{2047, 2048, 2049, 4095, 4096, 4097, 5000}[rng.Intn(7)]), "edge"
	case k < 90:
		return []byte(smuggled), "smuggle"
	case k < 95:
		return append(printable(rng, 1+rng.Intn(40)), smuggled...), "smuggle-suffix"
	default:
		return []byte("line1\r\nline2\r\n\r\nHTTP/1.1 200 OK\r\n\r\n0\r\n\r\n"), "crlf"
	}
}

func genReq(rng *rand.Rand, tag string, idx int) reqSpec {
	r := reqSpec{}
	r.Method = methods[rng.Intn(len(methods))]
	r.Proto = []string{"HTTP/1.1", "HTTP/1.1", "HTTP/1.0"}[rng.Intn(3)]
	r.Conn = []string{"", "", "keep-alive", "keep-alive", "close"}[rng.Intn(5)]
	if r.Proto == "HTTP/1.0" && rng.Intn(3) > 0 {
		r.Conn = "keep-alive" // otherwise nearly every sequence would end at the first 1.0 request
	}
	t := targets[rng.Intn(len(targets))]
	if i := strings.IndexByte(t, '#'); i >= 0 {
		t = t[:i]
	}
	sep := "?"
	if strings.Contains(t, "?") {
		sep = "&"
	}
	r.Target = fmt.Sprintf("%s%sri=%d", t, sep, idx)
	r.Hdrs = append([][2]string{{"X-Req-Id", fmt.Sprintf("%s-%d", tag, idx)}}, reqHdrs[rng.Intn(len(reqHdrs))]...)
	if r.Method == "GET" || r.Method == "DELETE" {
		if rng.Intn(4) > 0 {
			r.Class = "empty"
		} else {
			r.Body, r.Class = genBody(rng)
		}
	} else {
		r.Body, r.Class = genBody(rng)
	}
	if r.Proto == "HTTP/1.1" && rng.Intn(3) == 0 {
		r.Chunked = true
		left := len(r.Body)
		for left > 0 {
			n := 1 + rng.Intn(left)
			if rng.Intn(2) == 0 && n > 64 {
				n = 1 + rng.Intn(64)
			}
			r.Chunks = append(r.Chunks, n)
			left -= n
		}
	}
	r.CL0 = rng.Intn(2) == 0
	return r
}

func genProg(rng *rand.Rand, r *reqSpec, family string) prog {
	p := prog{Read: -1}
	p.ReadLate = rng.Intn(5) == 0
	if rng.Intn(3) > 0 {
		p.Status = statuses[rng.Intn(len(statuses))]
	}
	p.Hdrs = respHdrs[rng.Intn(len(respHdrs))]
	switch k := rng.Intn(10); {
	case k < 5:
		p.Mode = "cl"
	case k < 8 && r.Proto == "HTTP/1.1":
		p.Mode = "chunked"
	case k < 8:
		p.Mode = "cl"
	case k == 8:
		p.Mode = "none"
	default:
		p.Mode = "cl"
	}
	nw := rng.Intn(5)
	for i := 0; i < nw; i++ {
		if rng.Intn(3) == 0 {
			p.Writes = append(p.Writes, rng.Intn(3000))
		} else {
			p.Writes = append(p.Writes, writeSizes[rng.Intn(len(writeSizes))])
		}
	}
	if family == "unread" && r.hasFramedBytes() && rng.Intn(2) == 0 {
		if len(r.Body) > 1 && rng.Intn(2) == 0 {
			p.Read = 1 + rng.Intn(len(r.Body)-1)
			if r.Class == "smuggle-suffix" {
				p.Read = len(r.Body) - len(smuggled)
			}
		} else {
			p.Read = 0
		}
	}
	if family == "flush" && rng.Intn(2) == 0 {
		nf := 1 + rng.Intn(2)
		for i := 0; i < nf; i++ {
			p.FlushAt = append(p.FlushAt, rng.Intn(len(p.Writes)+1))
		}
		sort.Ints(p.FlushAt)
	}
	return p
}

// directed cases: minimal witnesses of the two defects known on the pinned tree
// plus a few plain sequences; every one is run in both channel modes.
func directed(k int) ([]reqSpec, []prog, string) {
	get := func(t string) reqSpec {
		return reqSpec{Method: "GET", Target: t, Proto: "HTTP/1.1", Hdrs: [][2]string{{"X-Req-Id", "d" + t}}, Class: "empty"}
	}
	ok := func(n int) prog { return prog{Read: -1, Mode: "cl", Writes: []int{n}} }
	switch k {
	case 0: // unread 41-byte body that is itself a request
		post := reqSpec{Method: "POST", Target: "/a", Proto: "HTTP/1.1", Hdrs: [][2]string{{"X-Req-Id", "d/a"}}, Body: []byte(smuggled), Class: "smuggle"}
		p := ok(4)
		p.Read = 0
		return []reqSpec{post, get("/b")}, []prog{p, ok(5)}, "directed-unread-smuggle"
	case 1: // unread 16-byte body that is not a request
		post := reqSpec{Method: "POST", Target: "/a", Proto: "HTTP/1.1", Hdrs: [][2]string{{"X-Req-Id", "d/a"}}, Body: []byte("0123456789abcdef"), Class: "small"}
		p := ok(4)
		p.Read = 0
		return []reqSpec{post, get("/b")}, []prog{p, ok(5)}, "directed-unread-junk"
	case 2: // handler flushes after its only write; a second request follows
		p := ok(5)
		p.FlushAt = []int{1}
		return []reqSpec{get("/a"), get("/b")}, []prog{p, ok(6)}, "directed-flush-end"
	case 3: // handler flushes between two writes (chunked)
		p := prog{Read: -1, Mode: "chunked", Writes: []int{10, 20}, FlushAt: []int{1}}
		return []reqSpec{get("/a"), get("/b")}, []prog{p, ok(6)}, "directed-flush-mid"
	case 4: // three pipelined keep-alive requests, then one asking to close, then one that must not be served
		c := get("/d")
		c.Conn = "close"
		return []reqSpec{get("/a"), get("/b"), get("/c"), c, get("/never")},
			[]prog{ok(3), {Read: -1, Mode: "chunked", Writes: []int{2048, 1}}, ok(0), ok(2500), ok(1)}, "directed-clean-pipeline"
	case 5: // chunked request body read to EOF, then a close-delimited response, then one that must not be served
		post := reqSpec{Method: "PUT", Target: "/up?x=1", Proto: "HTTP/1.1", Hdrs: [][2]string{{"X-Req-Id", "d/up"}}, Body: []byte(strings.Repeat("chunky-", 100)), Chunked: true, Chunks: []int{1, 64, 300}, Class: "medium"}
		return []reqSpec{post, get("/b"), get("/never")},
			[]prog{{Read: -1, Status: 201, Mode: "cl", Writes: []int{100, 2048}}, {Read: -1, Status: 404, Mode: "none", Writes: []int{1000, 3000}}, ok(1)}, "directed-clean-undelimited"
	}
	return nil, nil, ""
}

const nDirected = 6

func genTrial(rng *rand.Rand, idx int) *trial {
	t := &trial{}
	t.Mode = mon.Mode(idx % 2) // Sync, Blocking
	t.Queue = []int{1, 2, 16, 64}[rng.Intn(4)]
	if idx < 2*nDirected {
		t.Reqs, t.Progs, t.Family = directed(idx / 2)
	} else {
		switch k := rng.Intn(100); {
		case k < 56:
			t.Family = "clean"
		case k < 80:
			t.Family = "unread"
		default:
			t.Family = "flush"
		}
		n := 1 + rng.Intn(5)
		tag := fmt.Sprintf("s%d", idx)
		for i := 0; i < n; i++ {
			t.Reqs = append(t.Reqs, genReq(rng, tag, i))
			t.Progs = append(t.Progs, genProg(rng, &t.Reqs[i], t.Family))
		}
	}
	// serve count from the HTTP semantics of the generated case
	t.Serve = len(t.Reqs)
	for i := range t.Reqs {
		if t.Reqs[i].asksClose() {
			t.Serve, t.CloseWhy = i+1, "request"
			break
		}
		if !t.Progs[i].selfDelimiting() {
			t.Serve, t.CloseWhy = i+1, "undelimited"
			break
		}
	}
	if t.CloseWhy != "" && t.Serve == len(t.Reqs) {
		// a request that must never be served: makes a connection that stays open observable
		t.Reqs = append(t.Reqs, reqSpec{Method: "GET", Target: "/after-close", Proto: "HTTP/1.1", Hdrs: [][2]string{{"X-Req-Id", "after-close"}}, Class: "empty"})
		t.Progs = append(t.Progs, prog{Read: -1, Mode: "cl", Writes: []int{11}})
	}
	// stream and fragmentation
	type mark struct{ lineEnd, hdrEnd, end int }
	var marks []mark
	for i := range t.Reqs {
		b, le, he := t.Reqs[i].encode()
		off := len(t.Stream)
		t.Starts = append(t.Starts, off)
		t.Stream = append(t.Stream, b...)
		marks = append(marks, mark{off + le, off + he, off + len(b)})
	}
	cut := map[int]bool{}
	add := func(o int) {
		if o > 0 && o < len(t.Stream) {
			cut[o] = true
		}
	}
	switch k := rng.Intn(8); k {
	case 0:
		t.FragKind = "whole"
	case 1:
		t.FragKind = "per-request"
		for _, m := range marks {
			add(m.end)
		}
	case 2:
		t.FragKind = "maxchunk-tiny"
		t.MaxChunk = 1 + rng.Intn(3)
	case 3:
		t.FragKind = "maxchunk"
		t.MaxChunk = []int{5, 16, 100, 1000, 4095, 4096}[rng.Intn(6)]
	case 4:
		t.FragKind = "split-request-line"
		for i, m := range marks {
			add(t.Starts[i] + 1 + rng.Intn(m.lineEnd-t.Starts[i]-1))
			add(m.lineEnd - 1) // between CR and LF
		}
	case 5:
		t.FragKind = "split-headers"
		for _, m := range marks {
			add(m.lineEnd + 1 + rng.Intn(m.hdrEnd-m.lineEnd-1))
			add(m.lineEnd + 1 + rng.Intn(m.hdrEnd-m.lineEnd-1))
			add(m.hdrEnd - 2) // inside the blank line
		}
	case 6:
		t.FragKind = "boundaries"
		for _, m := range marks {
			for _, o := range []int{m.lineEnd, m.hdrEnd, m.hdrEnd + 1, m.end - 1, m.end, m.end + 1} {
				if rng.Intn(2) == 0 {
					add(o)
				}
			}
		}
	default:
		t.FragKind = "random"
		nc := 1 + rng.Intn(12)
		for i := 0; i < nc; i++ {
			add(rng.Intn(len(t.Stream)))
		}
	}
	if idx < 2*nDirected {
		t.FragKind, t.MaxChunk, cut = "whole", 0, map[int]bool{}
	}
	for o := range cut {
		t.Cuts = append(t.Cuts, o)
	}
	sort.Ints(t.Cuts)
	return t
}

func (t *trial) steps() []mon.ReadStep {
	var st []mon.ReadStep
	prev := 0
	for _, c := range append(append([]int(nil), t.Cuts...), len(t.Stream)) {
		if c > prev {
			st = append(st, mon.ReadStep{Data: t.Stream[prev:c]})
			prev = c
		}
	}
	return st
}

func sizeClass(n int) string {
	switch {
	case n == 0:
		return "0"
	case n < 1900:
		return "s"
	case n <= 2200:
		return "b" // around the 2048-byte response buffer
	default:
		return "L"
	}
}

// sig identifies the case up to equivalence.
func (t *trial) sig() string {
	var b strings.Builder
	fmt.Fprintf(&b, "%s|%s|n%d|", t.Mode, t.FragKind, len(t.Reqs))
	for i := range t.Reqs {
		r, p := &t.Reqs[i], &t.Progs[i]
		rd := "all"
		if p.Read == 0 {
			rd = "none"
		} else if p.Read > 0 {
			rd = "part"
		}
		fmt.Fprintf(&b, "%s %s %s %s c%v;rd=%s l%v st%v %s w%d%s f%d|", r.Method, r.Proto[5:], r.Conn, r.Class, r.Chunked,
			rd, p.ReadLate, p.Status != 0, p.Mode, len(p.Writes), sizeClass(p.total()), len(p.FlushAt))
	}
	return b.String()
}

func preview(b []byte, n int) string {
	if len(b) > n {
		return fmt.Sprintf("%q...(%d bytes)", b[:n], len(b))
	}
	return fmt.Sprintf("%q", b)
}

// describe renders the inputs of the case for witnesses and samples.
func (t *trial) describe() map[string]interface{} {
	var rs []string
	for i := range t.Reqs {
		r, p := &t.Reqs[i], &t.Progs[i]
		rs = append(rs, fmt.Sprintf("#%d %s %s %s conn=%q body=%dB(%s chunked=%v) %s | handler: read=%d late=%v status=%d hdrs=%d mode=%s writes=%v flushAfterWrites=%v",
			i, r.Method, r.Target, r.Proto, r.Conn, len(r.Body), r.Class, r.Chunked, preview(r.Body, 48),
			p.Read, p.ReadLate, p.Status, len(p.Hdrs), p.Mode, p.Writes, p.FlushAt))
	}
	return map[string]interface{}{
		"channel":       fmt.Sprintf("%s q=%d", t.Mode, t.Queue),
		"family":        t.Family,
		"fragmentation": fmt.Sprintf("%s maxchunk=%d cuts=%d", t.FragKind, t.MaxChunk, len(t.Cuts)),
		"stream_bytes":  len(t.Stream),
		"requests":      rs,
		"must_serve":    t.Serve,
		"close_after":   t.CloseWhy,
	}
}
