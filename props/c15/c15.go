// Package c15 checks property C15: the HTTP server codec emits exactly one
// well-formed response per request, in order, and closes the connection only
// after the last response has been flushed.
//
// Technique: runtime monitoring.  A real channel (sync or queued-blocking) with
// the pipeline [xhttp.ServerCodec(), xhttp.Handler(h)] runs on a recording
// transport that is fed a generated request stream under a fragmentation plan;
// h interprets a generated program per request and records what it saw.  The
// oracle parses the recorded wire with net/http.ReadResponse and compares the
// handler log, the responses and the transport's op order with the outcome
// computed from the HTTP semantics of the generated case (never from the code).
package c15

import (
	"fmt"
	"io"
	"net/http"
	"strconv"
	"sync"
	"time"

	netty "github.com/go-netty/go-netty"
	"github.com/go-netty/go-netty/codec/xhttp"

	"verif/core"
	"verif/mon"
)

func init() {
	core.Register(&core.Prop{
		ID:    "C15",
		Level: "exploration",
		Rule: "case = 1..5 pipelined HTTP/1.0|1.1 requests (GET/POST/PUT/DELETE, Connection close/keep-alive/absent, bodies 0..5000 B with Content-Length or chunked, query targets, 5 header sets) " +
			"x one handler program per request (read all/none/k bytes of the body, early or late; explicit or implicit status; response header set; Content-Length | chunked (1.1) | neither; 0..4 writes of sizes around the 2048-byte buffer; optional Flush calls) " +
			"x fragmentation plan (whole, per request, max read chunk 1..4096, cuts inside request line / headers / at framing boundaries, random cuts) x channel mode (sync, queued-blocking q=1..64); " +
			"56% of the sequences are 'clean' (bodies read to EOF, no Flush) so that they are judged independently of the unread-body and Flush input classes; " +
			"a case is non-trivial when at least one request was served and its response parsed; distinct = (mode, fragmentation kind, per request: method/proto/connection/body class/chunked, program shape)",
		Assumptions: []string{
			"net/http.ReadRequest / ReadResponse are the trusted reference parser ('a standard HTTP parser')",
			"not generated: HEAD, Expect, 1xx/204/304, trailers, response Connection headers, Content-Length that differs from what is written, chunked responses to HTTP/1.0, truncated request streams",
			"the request stream ends with EOF after the last request; a connection that was kept open is then closed by the codec, which the property allows",
			"status text, header casing, header order and extra headers (server) are not judged; programmed response headers are checked as a subset",
			"a request after which the connection must be closed is always followed by one more request, which must not be served",
			"watchdog (20 s per case) expiry is inconclusive",
		},
		Shards:           func(tier string) int { return 16 },
		TimeoutSec:       func(tier string) int { return map[bool]int{true: 240, false: 2400}[tier != "thorough"] },
		CrashIsViolation: true,
		Required:         []string{"sequences", "requests", "responses_parsed", "closes_checked", "keepalive_continuations", "clean_sequences_judged"},
		Run:              run,
	})
}

// seen is what the handler observed for one invocation.
type seen struct {
	Method, Target, Proto string
	Hdr                   http.Header
	Body                  []byte
	ReadErr               string
	Step                  string // last step started (witness for panics)
	Panic                 string
	BodyRead, Done        bool
}

type handler struct {
	mu    sync.Mutex
	progs []prog
	log   []*seen
}

func (h *handler) snapshot() []*seen {
	h.mu.Lock()
	defer h.mu.Unlock()
	return append([]*seen(nil), h.log...)
}

func (h *handler) ServeHTTP(w http.ResponseWriter, r *http.Request) {
	s := &seen{Method: r.Method, Target: r.RequestURI, Proto: r.Proto, Hdr: r.Header.Clone()}
	h.mu.Lock()
	idx := len(h.log)
	h.log = append(h.log, s)
	h.mu.Unlock()
	p := phantomProg
	if idx < len(h.progs) {
		p = h.progs[idx]
	}
	defer func() {
		if e := recover(); e != nil {
			s.Panic = fmt.Sprint(e)
			panic(e) // a real handler does not swallow panics of the ResponseWriter
		}
		s.Done = true
	}()
	readBody := func() {
		s.Step = "read-body"
		switch {
		case p.Read < 0:
			b, err := io.ReadAll(r.Body)
			s.Body = b
			if err != nil {
				s.ReadErr = err.Error()
			}
		case p.Read > 0:
			buf := make([]byte, p.Read)
			n, err := io.ReadFull(r.Body, buf)
			s.Body = buf[:n]
			if err != nil {
				s.ReadErr = err.Error()
			}
		}
		s.BodyRead = true
	}
	if !p.ReadLate {
		readBody()
	}
	s.Step = "set-headers"
	for _, kv := range p.Hdrs {
		w.Header().Add(kv[0], kv[1])
	}
	body := respBody(idx, p.total())
	switch p.Mode {
	case "cl":
		w.Header().Set("Content-Length", strconv.Itoa(len(body)))
	case "chunked":
		w.Header().Set("Transfer-Encoding", "chunked")
	}
	if p.Status != 0 {
		s.Step = "WriteHeader"
		w.WriteHeader(p.Status)
	}
	flush := func(after int) {
		for _, f := range p.FlushAt {
			if f == after {
				s.Step = fmt.Sprintf("Flush-after-%d-writes", after)
				w.(http.Flusher).Flush()
			}
		}
	}
	flush(0)
	off := 0
	for i, n := range p.Writes {
		s.Step = fmt.Sprintf("Write#%d(%dB)", i, n)
		w.Write(body[off : off+n])
		off += n
		flush(i + 1)
	}
	if p.ReadLate {
		readBody()
	}
	s.Step = "return"
}

// observed is everything recorded in one trial.
type observed struct {
	Seen     []*seen
	Ops      []mon.Op
	Wire     []byte
	Inactive []error
}

func run(c *core.Ctx) {
	total := c.Scale(1500, 40000)
	stuck := 0
	for idx := 0; idx < total; idx++ {
		if !c.Mine(idx) {
			continue
		}
		id := fmt.Sprintf("s%d", idx)
		if !c.Case(id) {
			continue
		}
		t := genTrial(c.Rand("trial", idx), idx)
		o, why := execute(t)
		if o == nil {
			c.Inconclusive(id, why+" "+fmt.Sprint(t.describe()))
			if stuck++; stuck >= 3 {
				c.Count("aborted_after_watchdogs", 1)
				break
			}
			continue
		}
		judge(c, id, t, o)
	}
}

// execute runs one trial and returns what was recorded (nil = watchdog).
func execute(t *trial) (*observed, string) {
	tr := mon.NewRecTransport()
	tr.Feed(t.steps()...)
	if t.MaxChunk > 0 {
		tr.SetMaxReadChunk(t.MaxChunk)
	}
	// the peer half-closes after the last request byte: once the script is
	// exhausted every further Read returns EOF and the channel winds down.
	tr.SetTerminal(io.EOF)
	h := &handler{progs: t.Progs}
	opts := mon.RigOpts{
		Mode: t.Mode, Queue: t.Queue, Tr: tr, NoPark: true, QuietTail: true, NoHooks: true,
		Handlers: []netty.Handler{xhttp.ServerCodec(), xhttp.Handler(h)},
	}
	if t.Mode != mon.Sync && len(t.Reqs)%2 == 1 {
		// queued channel: every time the background sender has released the write queue it is held briefly
		// until a Close has been elected - the window in which Close decides whether everything was flushed
		opts.NoHooks = false
		opts.Plan = []mon.Step{{At: "sRel", Occ: 0, Kind: mon.Gate, Until: "cEl", UntilCount: 1, Timeout: 15 * time.Millisecond}}
	}
	rig := mon.NewRig(opts)
	defer rig.Dispose()
	select {
	case <-tr.Closed():
	case <-time.After(20 * time.Second):
		return nil, fmt.Sprintf("watchdog: transport not closed after 20 s (script exhausted=%v, handler invocations=%d)", tr.ScriptExhausted(), len(h.snapshot()))
	}
	// the read loop (action 0) and every sender action must have returned
	// before the logs are final.
	if !rig.Ex.WaitOutstanding(0, 20*time.Second) {
		return nil, "watchdog: read loop / sender still running 20 s after the transport was closed"
	}
	o := &observed{Seen: h.snapshot()}
	o.Ops, o.Wire = tr.Snapshot()
	_, o.Inactive = rig.Tail.Snapshot()
	return o, ""
}
