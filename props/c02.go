package props

import (
	"context"
	"errors"
	"fmt"
	netty "github.com/go-netty/go-netty"
	"runtime"
	"sync"
	"time"

	"verif/core"
	"verif/mon"
	"verif/props/wl"
)

func init() {
	core.Register(&core.Prop{
		ID:    "C02",
		Level: "exploration",
		Rule: "trial = queued (and sync) channel, 1..4 writers x few writes; plans: sender parked after its final flush / after recycling / at executor start until all calls returned (the lost-wake-up window with nothing left to rescue a stranded payload), " +
			"pairwise windows, PCT delays, stress; plus one or two calls through each single entry point (incl. ReadFrom over data+EOF readers) on an idle channel; oracle at logical quiescence (all calls returned AND every sender action handed to the tracking executor has returned): accepted set == set on the wire, unflushed == 0; " +
			"distinct_nontrivial = distinct event-order signatures among trials with >=2 role alternations",
		Assumptions: []string{
			"bounded progress: 'eventually' is judged at logical quiescence, never after a sleep; a watchdog expiry (20 s) is inconclusive",
			"the executor runs every action it is given (tracking executor starts one goroutine per action, possibly delayed)",
		},
		Shards:     func(tier string) int { return 8 },
		TimeoutSec: func(tier string) int { return map[bool]int{true: 300, false: 1800}[tier != "thorough"] },
		Required:   []string{"window_hits", "accepted_payloads"},
		Run:        runC02,
	})
}

func runC02(c *core.Ctx) {
	fi := 0
	for rep := 0; rep < c.Scale(2, 20); rep++ {
		for _, q := range []int{2, 4, 8, 16, 64} {
			for _, op := range []string{mon.OpWritev, mon.OpFlush} {
				for ek := 0; ek < 3; ek++ {
					fi++
					if !c.Mine(fi) {
						continue
					}
					id := fmt.Sprintf("sender-fault/q%d/%s/e%d/r%d", q, op, ek, rep)
					if c.CaseQuiet(id) {
						c02Fault(c, id, q, op, ek)
					}
				}
			}
		}
	}
	// one or two calls through a single entry point on an otherwise idle channel: nothing else will ever wake the sender,
	// so whatever the call leaves behind (also the last chunk of a ReadFrom whose reader returns data together with io.EOF)
	// stays where it is
	li := 0
	for rep := 0; rep < c.Scale(1, 10); rep++ {
		for _, mode := range []mon.Mode{mon.Blocking, mon.NonBlock} {
			for _, q := range []int{1, 2, 8, 64} {
				for e := 0; e < len(wl.EntryName); e++ {
					for _, size := range []int{1, 100, 1023, 1024} {
						for per := 1; per <= 2; per++ {
							li++
							if !c.Mine(li) {
								continue
							}
							id := fmt.Sprintf("lone/m%d/q%d/%s/s%d/n%d/r%d", mode, q, wl.EntryName[e], size, per, rep)
							if !c.CaseQuiet(id) {
								continue
							}
							cfg := wl.Cfg{Mode: mode, Queue: q, Writers: 1, PerWriter: per, Sizes: []int{size}, Entries: []int{e},
								Procs: 2, PlanKind: "lone-call-on-idle-channel", NoCtxKinds: true}
							runtime.GOMAXPROCS(cfg.Procs)
							h := wl.Run(cfg, c.Rand("lone", li), 8*time.Second)
							c.Count("lone_call_trials", 1)
							judgeC02(c, id, h)
							h.Rig.Dispose()
						}
					}
				}
			}
		}
	}
	plans := wl.WindowPlans(20 * time.Millisecond)
	total := c.Scale(6000, 100000)
	stuck := 0
	for idx := 0; idx < total; idx++ {
		if !c.Mine(idx) {
			continue
		}
		if c.Enough() {
			break
		}
		id := fmt.Sprintf("t%d", idx)
		if !c.CaseQuiet(id) {
			continue
		}
		rng := c.Rand("cfg", idx)
		var cfg wl.Cfg
		if idx%2 == 0 {
			// decisive scripts: small trials, the last enqueue lands in the window
			cfg.Mode = mon.Mode(1 + (idx/2)%2)
			cfg.Queue = []int{1, 2, 8, 64}[(idx/4)%4]
			cfg.Writers = 1 + rng.Intn(4)
			cfg.PerWriter = 1 + rng.Intn(3)
			cfg.Sizes = []int{1, 16, 17, 100, 1024, 1025}
			cfg.Procs = c01Procs[rng.Intn(len(c01Procs))]
			n := cfg.Writers * cfg.PerWriter
			at := []string{"sFl", "tF0", "tF1", "sRec", "x1", "tV1"}[(idx/16)%6]
			p := wl.LastWriteWindowPlan(n, at, 40*time.Millisecond)
			cfg.Plan, cfg.PlanKind = p.Steps, p.Name
		} else {
			cfg = genCfg(c, idx, plans)
		}
		runtime.GOMAXPROCS(cfg.Procs)
		h := wl.Run(cfg, c.Rand("trial", idx), 8*time.Second)
		judgeC02(c, id, h)
		h.Rig.Dispose()
		if !h.Quiesced {
			if stuck++; stuck >= 2 {
				c.Count("aborted_after_watchdogs", 1)
				break
			}
		}
	}
	runtime.GOMAXPROCS(runtime.NumCPU())
	si := 0
	for rep := 0; rep < c.Scale(6, 120); rep++ {
		for _, q := range []int{1, 2, 3, 8} {
			for _, e := range []int{wl.ECtxWrite1, wl.ECtxWritev} {
				si++
				if !c.Mine(si) {
					continue
				}
				id := fmt.Sprintf("seam/q%d/%s/r%d", q, wl.EntryName[e], rep)
				if c.CaseQuiet(id) {
					c02Seam(c, id, q, e)
				}
			}
		}
	}
}

// swallowExc is an application exception handler that only records: the channel stays open unless the library closes it.
type swallowExc struct {
	mu   sync.Mutex
	seen []error
}

func (s *swallowExc) HandleException(ctx netty.ExceptionContext, ex netty.Exception) {
	s.mu.Lock()
	s.seen = append(s.seen, ex)
	s.mu.Unlock()
}

// c02Fault: one transport call of the background sender fails (timeout / non-timeout net.Error / plain error) while more
// accepted payloads wait behind the failing batch, and the application's exception handler does not close the channel.
// Whatever the library does about the failure: if the channel is still open at quiescence, nothing accepted may be left
// parked in the queue (payloads of the failed batch were handed to the transport and count as handed).
func c02Fault(c *core.Ctx, id string, q int, op string, ek int) {
	var ferr error
	switch ek {
	case 0:
		ferr = tmoErr{true}
	case 1:
		ferr = tmoErr{false}
	default:
		ferr = errors.New("c02 plain transport failure")
	}
	plan := []mon.Step{{At: "x1", Occ: 1, Kind: mon.Gate, Until: "go", UntilCount: 1, Timeout: 3 * time.Second}}
	sw := &swallowExc{}
	rig := mon.NewRig(mon.RigOpts{Mode: mon.NonBlock, Queue: q, Plan: plan, Handlers: []netty.Handler{sw}})
	defer rig.Dispose()
	rig.T.AddFault(mon.Fault{Kind: op, K: 1, Err: ferr})
	n := 0
	for k := 0; k < q; k++ {
		if _, err := rig.Ch.Write1(mon.Payload(1, k, 48)); err == nil {
			n++
		}
	}
	rig.S.Mark("go")
	if !rig.Ex.WaitOutstanding(1, 8*time.Second) && !rig.Ex.WaitOutstanding(0, time.Second) {
		c.Inconclusive(id, "watchdog after the injected sender fault")
		return
	}
	// settle: a closing channel finishes asynchronously
	rig.Ex.WaitOutstanding(0, 300*time.Millisecond)
	c.Count("sender_fault_trials", 1)
	c.Sig("sender-fault", q, op, ek)
	if !rig.Ch.IsActive() {
		c.Count("sender_fault_closed_channel", 1)
		return
	}
	c.Count("sender_fault_channel_stayed_open", 1)
	ops, _ := rig.T.Snapshot()
	handed := map[int]bool{}
	for _, o := range ops {
		if o.Kind != mon.OpWrite && o.Kind != mon.OpWritev {
			continue
		}
		recs, _ := mon.ParseWire(o.Data)
		for _, r := range recs {
			handed[r.Seq] = true
		}
	}
	if len(handed) < n {
		c.Violation("C02:accepted-payload-stranded-after-sender-fault", id, fmt.Sprintf("queue size %d: the sender's %s #1 failed with %v, the application consumed the exception and the channel is still open; all %d write calls had returned success, no sender action is outstanding, and only %d payloads were ever handed to the transport: the rest is parked in the queue until some later write; ops=%s",
			q, map[string]string{mon.OpWritev: "Writev", mon.OpFlush: "Flush"}[op], ferr, n, len(handed), mon.OpString(ops)), map[string]interface{}{"marks": rig.S.LogString(60)})
	}
}

// seamCtx is a caller context whose Done() is evaluated by the library right before it commits to the
// enqueue select: a seam "writer is about to enqueue" that exists in the unchanged code.
type seamCtx struct {
	context.Context
	once sync.Once
	fn   func()
}

func (s *seamCtx) Done() <-chan struct{} {
	s.once.Do(s.fn)
	return nil
}

// c02Seam: the queue is full behind a parked sender; while the last writer is about to enqueue, the sender
// is released, drains and flushes everything and exits. The writer's enqueue then succeeds with no sender
// running: it must start one.
func c02Seam(c *core.Ctx, id string, q, entry int) {
	plan := []mon.Step{{At: "tV0", Occ: 1, Kind: mon.Gate, Until: "go", UntilCount: 1, Timeout: 3 * time.Second}}
	rig := mon.NewRig(mon.RigOpts{Mode: mon.Blocking, Queue: q, Plan: plan, QuietTail: true})
	defer rig.Dispose()
	rng := c.Rand("seam", id)
	write := func(ctx context.Context, seq, e int) error {
		_, err := wl.DoWrite(rig.Ch, ctx, e, mon.Payload(1, seq, 32), rng)
		return err
	}
	if err := write(context.Background(), 0, wl.EWrite1); err != nil {
		c.Inconclusive(id, "first write failed")
		return
	}
	if !rig.S.Await("tV0", 1, 3*time.Second) {
		c.Inconclusive(id, "sender did not reach its first Writev")
		return
	}
	for k := 1; k <= q; k++ {
		if err := write(context.Background(), k, wl.EWrite1); err != nil {
			c.Inconclusive(id, "filling write failed")
			return
		}
	}
	exited := false
	sc := &seamCtx{Context: context.Background()}
	sc.fn = func() {
		rig.S.Mark("go")
		// wait until the sender has written, flushed, released and exited
		exited = rig.Ex.WaitOutstanding(1, 500*time.Millisecond)
	}
	if err := write(sc, q+1, entry); err != nil {
		c.Inconclusive(id, "the decisive write was refused: "+err.Error())
		return
	}
	rig.S.Mark("go")
	if !rig.Ex.WaitOutstanding(1, 8*time.Second) {
		c.Inconclusive(id, "watchdog")
		return
	}
	c.Count("seam_trials", 1)
	if exited {
		c.Count("seam_trials_sender_exited_before_enqueue", 1)
		c.Count("window_hits", 1)
		c.Sig("seam", q, entry)
	}
	ops, wire := rig.T.Snapshot()
	recs, _ := mon.ParseWire(wire)
	c.Count("accepted_payloads", int64(q+2))
	c.Count("payloads_on_wire", int64(len(recs)))
	if len(recs) != q+2 {
		c.Violation("C02:accepted-payload-stranded", id, fmt.Sprintf("queue size %d: the last writer enqueued right after the sender had drained, flushed and exited; %d of %d accepted payloads were handed to the transport and no sender action is outstanding: the rest is parked in the queue; entry=%s ops=%s",
			q, len(recs), q+2, wl.EntryName[entry], mon.OpString(ops)), map[string]interface{}{"marks": rig.S.LogString(60)})
	} else if rig.T.Unflushed() != 0 {
		c.Violation("C02:written-but-not-flushed", id, "after the seam script bytes were written but never flushed", nil)
	}
}

func judgeC02(c *core.Ctx, id string, h *wl.History) {
	if !h.Quiesced {
		if h.SenderSpins && h.WritersDone {
			recs, _ := wl.Resolve(h)
			_, accepted, onWire := wl.CheckC02(h, recs)
			if accepted > onWire {
				c.Violation("C02:sender-spins-without-draining", id, fmt.Sprintf("all write calls returned, %d of %d accepted payloads were never handed to the transport, and the sender action keeps cycling (%d loop iterations, %d transport writes) without draining the queue [%s]",
					accepted-onWire, accepted, h.SpinLoops, h.Rig.S.Count("tV0"), h.Cfg), wl.Summary(h, 100))
				return
			}
		}
		c.Inconclusive(id, "watchdog: trial did not reach quiescence: "+h.Cfg.String())
		return
	}
	recs, _ := wl.Resolve(h)
	viols, accepted, onWire := wl.CheckC02(h, recs)
	c.Count("accepted_payloads", int64(accepted))
	c.Count("payloads_on_wire", int64(onWire))
	hits := wl.WindowHits(h.Rig.S.Log())
	c.Count("window_hits", int64(hits))
	if hits > 0 {
		c.Count("trials_with_window_hit", 1)
	}
	c.Count("gates_honoured", int64(h.Rig.S.GateHit))
	c.Count("gates_not_honoured", int64(h.Rig.S.GateMiss))
	sig, alt := h.Rig.S.Signature()
	if alt >= 2 {
		c.SigHash(sig)
	}
	if c.WantSample() && hits > 0 {
		c.Sample(wl.Summary(h, 12))
	}
	for _, v := range viols {
		c.Violation("C02:"+v.Key, id, v.What+" ["+h.Cfg.String()+"]", wl.Summary(h, 400))
	}
}
