// Package concodec drives a codec pipeline with several goroutines writing
// concurrently to one channel while the transport stalls the first low-level
// write until every writer has passed the codecs once: per-codec state that is
// shared between messages in flight (scratch headers, reused encode buffers)
// then shows up on the wire. Used by C04 (frame encoders) and C16 (format codecs).
package concodec

import (
	"sync"
	"sync/atomic"
	"time"

	netty "github.com/go-netty/go-netty"

	"verif/mon"
)

// passProbe counts outbound messages that have left the codecs (it sits between the codecs and the head).
type passProbe struct{ n int32 }

func (p *passProbe) HandleWrite(ctx netty.OutboundContext, m netty.Message) {
	atomic.AddInt32(&p.n, 1)
	ctx.HandleWrite(m)
}

// Result of a run.
type Result struct {
	Wire    []byte
	Stalled bool // the first transport write was held until all writers had passed the codecs
	Excs    []error
	Done    bool
}

// Run writes perWriter[w] from goroutine w through codecs (pipeline order) on a channel of the given mode.
func Run(mode mon.Mode, queue int, codecs []netty.Handler, perWriter [][]netty.Message) Result {
	counts := make([]int, len(perWriter))
	for w := range perWriter {
		counts[w] = len(perWriter[w])
	}
	return RunGen(mode, queue, codecs, counts, func(w, i int) netty.Message { return perWriter[w][i] }, nil)
}

// RunGen is Run with every message produced just before it is written (gen, called on the writer's goroutine) and an
// optional hook called on the same goroutine right after the Write call has returned (e.g. to reuse the caller's buffer).
func RunGen(mode mon.Mode, queue int, codecs []netty.Handler, counts []int, gen func(w, i int) netty.Message, after func(w, i int)) Result {
	probe := &passProbe{}
	hs := append([]netty.Handler{probe}, codecs...)
	rig := mon.NewRig(mon.RigOpts{Mode: mode, Queue: queue, Handlers: hs, QuietTail: true, NoHooks: true})
	defer rig.Dispose()
	W := len(counts)
	var first int32
	stalled := int32(0)
	rig.T.OnOp = func(kind string, phase int) {
		if phase != 0 || (kind != mon.OpWrite && kind != mon.OpWritev) {
			return
		}
		if atomic.CompareAndSwapInt32(&first, 0, 1) {
			// hold the first low-level write until every writer has a message between the codecs and the head
			dl := time.Now().Add(100 * time.Millisecond)
			for time.Now().Before(dl) {
				if int(atomic.LoadInt32(&probe.n)) >= W {
					atomic.StoreInt32(&stalled, 1)
					break
				}
				time.Sleep(20 * time.Microsecond)
			}
		}
	}
	var wg sync.WaitGroup
	for w := 0; w < W; w++ {
		wg.Add(1)
		go func(w int) {
			defer wg.Done()
			for i := 0; i < counts[w]; i++ {
				rig.Ch.Write(gen(w, i))
				if after != nil {
					after(w, i)
				}
			}
		}(w)
	}
	done := make(chan struct{})
	go func() { wg.Wait(); close(done) }()
	res := Result{}
	select {
	case <-done:
		res.Done = true
	case <-time.After(20 * time.Second):
	}
	rig.Ex.WaitOutstanding(1, 10*time.Second)
	res.Wire = rig.T.Wire()
	res.Stalled = atomic.LoadInt32(&stalled) == 1
	res.Excs, _ = rig.Tail.Snapshot()
	return res
}
