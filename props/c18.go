package props

import (
	"context"
	"errors"
	"fmt"
	"math/rand"
	"sort"
	"time"

	netty "github.com/go-netty/go-netty"

	"verif/core"
	"verif/mon"
	"verif/props/wl"
)

func init() {
	core.Register(&core.Prop{
		ID:    "C18",
		Level: "exploration",
		Rule: "scripted trials: the sender is gated at a hook point while it holds a batch of one, Q further payloads are offered, then one more call is issued and judged: non-blocking mode must refuse exactly that one with the queue-full error and never park (goroutine-state inspection), " +
			"blocking mode must be observed parked and is then given one stimulus (space freed, caller context cancelled / deadline, already-cancelled context, parent context ended, Close); plus random stress with a slowed sender judged offline for (a) accepted-after-return minus entered-Writev <= Q + Q/2+1 at every event, " +
			"(c) every queue-full error had a provably full queue during the call, and outcome consistency (success => on the wire, error => never on the wire); distinct_nontrivial = distinct (mode, Q, entry point, stimulus, outcome) and stress event-order signatures",
		Assumptions: []string{
			"'parked' is observed through runtime.Stack: a goroutine inside (*channel).asyncWrite[v] in state [select]/[chan send], seen on two consecutive dumps",
			"the measured outstanding count under-approximates the true one (accepted counted after return, transmitted at Writev entry): it cannot raise a false alarm",
		},
		Shards:     func(tier string) int { return 8 },
		TimeoutSec: func(tier string) int { return map[bool]int{true: 300, false: 1800}[tier != "thorough"] },
		Required:   []string{"parked_observed", "nospace_refusals_judged", "stress_records"},
		Run:        runC18,
	})
}

var c18Stimuli = []string{"space", "ctx-cancel", "ctx-deadline", "ctx-already-cancelled", "parent-cancel", "close-nil", "close-err"}

func runC18(c *core.Ctx) {
	idx := 0
	reps := c.Scale(3, 40)
	for rep := 0; rep < reps; rep++ {
		for _, q := range []int{1, 2, 3, 8} {
			for entry := 0; entry <= wl.EReadFrom; entry++ {
				// non-blocking exact sequence (also through ReadFrom: one pooled chunk per call here)
				idx++
				if c.Mine(idx) {
					id := fmt.Sprintf("nb/q%d/%s/r%d", q, wl.EntryName[entry], rep)
					if c.Case(id) {
						c18Scripted(c, id, mon.NonBlock, q, entry, "", c.Rand("nb", idx))
					}
				}
				for _, st := range c18Stimuli {
					idx++
					if !c.Mine(idx) || entry == wl.EReadFrom {
						continue
					}
					if (st == "ctx-cancel" || st == "ctx-deadline" || st == "ctx-already-cancelled") && entry != wl.ECtxWrite1 && entry != wl.ECtxWritev {
						continue
					}
					id := fmt.Sprintf("bl/q%d/%s/%s/r%d", q, wl.EntryName[entry], st, rep)
					if c.Case(id) {
						c18Scripted(c, id, mon.Blocking, q, entry, st, c.Rand("bl", idx))
					}
				}
			}
		}
	}
	// writes that begin while a Close is pending behind a stalled sender
	for rep := 0; rep < c.Scale(1, 10); rep++ {
		for _, q := range []int{1, 2, 8} {
			for _, mode := range []mon.Mode{mon.NonBlock, mon.Blocking} {
				for entry := 0; entry < wl.NEntries; entry++ {
					idx++
					if !c.Mine(idx) {
						continue
					}
					if mode == mon.Blocking && entry != wl.ECtxWrite1 && entry != wl.ECtxWritev {
						continue
					}
					id := fmt.Sprintf("pending-close/%s/q%d/%s/r%d", mode, q, wl.EntryName[entry], rep)
					if c.Case(id) {
						c18PendingClose(c, id, mode, q, entry)
					}
				}
			}
		}
	}
	// stress with a slowed sender
	total := c.Scale(1500, 30000)
	for t := 0; t < total; t++ {
		if !c.Mine(t) {
			continue
		}
		if c.Enough() {
			break
		}
		id := fmt.Sprintf("stress/t%d", t)
		if !c.CaseQuiet(id) {
			continue
		}
		rng := c.Rand("stress", t)
		cfg := wl.Cfg{Mode: mon.Mode(1 + t%2), Queue: []int{1, 2, 3, 8}[(t/2)%4], Writers: 1 + rng.Intn(4), PerWriter: 6 + rng.Intn(20),
			Sizes: []int{0, 1, 16, 100, 1024}}
		pts := []string{"tV0", "sBat", "sRec", "sLoop", "x1", "tF0"}
		for i := 0; i < 1+rng.Intn(2); i++ {
			cfg.Plan = append(cfg.Plan, mon.Step{At: pts[rng.Intn(len(pts))], Occ: 0, Kind: mon.Sleep, D: time.Duration(20+rng.Intn(300)) * time.Microsecond})
		}
		cfg.PlanKind = "slow-sender"
		h := wl.Run(cfg, rng, 10*time.Second)
		if h.WritersDone && h.Quiesced {
			c18Offline(c, id, h)
		} else {
			c.Inconclusive(id, "watchdog: "+cfg.String())
		}
		h.Rig.Dispose()
	}
}

// c18PendingClose: the sender is stalled with a full queue behind it and Close has been called (it waits for the sender:
// IsActive is already false, nothing has been cancelled yet). A write that begins now still has to behave like the
// property says: in non-blocking mode it does not wait (the queue is full: queue-full error), in blocking mode a call
// whose context has already ended returns. A call parked on a bare channel receive inside the channel's write path -
// outside the queue/context select - is the definite violation.
func c18PendingClose(c *core.Ctx, id string, mode mon.Mode, q, entry int) {
	plan := []mon.Step{{At: "sBat", Occ: 1, Kind: mon.Gate, Until: "release", UntilCount: 1, Timeout: 60 * time.Second}}
	rig := mon.NewRig(mon.RigOpts{Mode: mode, Queue: q, Plan: plan, QuietTail: true})
	defer rig.Dispose()
	defer rig.S.Mark("release")
	if _, err := rig.Ch.Write1(mon.Payload(1, 0, 32)); err != nil || !rig.S.Await("sBat", 1, 8*time.Second) {
		c.Inconclusive(id, "sender never reached the gate")
		return
	}
	for k := 1; k <= q; k++ {
		if _, err := rig.Ch.Write1(mon.Payload(1, k, 32)); err != nil {
			c.Inconclusive(id, "filling write refused")
			return
		}
	}
	closed := make(chan struct{})
	go func() { defer close(closed); rig.Ch.Close(errSentinel) }()
	for i := 0; i < 5000 && rig.Ch.IsActive(); i++ {
		time.Sleep(100 * time.Microsecond)
	}
	if rig.Ch.IsActive() {
		c.Inconclusive(id, "Close was not elected")
		return
	}
	ctx := context.Background()
	if mode == mon.Blocking {
		cctx, cancel := context.WithCancel(ctx)
		cancel()
		ctx = cctx
	}
	done := make(chan c18Res, 1)
	go func() {
		n, err := wl.DoWrite(rig.Ch, ctx, entry, mon.Payload(2, 0, 32), rand.New(rand.NewSource(1)))
		done <- c18Res{n, err}
	}()
	parked := 0
	var res c18Res
	returned := false
	for i := 0; i < 600 && !returned; i++ { // at most ~0.6 s: a bounded-wait Close gives up after about a second
		select {
		case res = <-done:
			returned = true
		case <-time.After(time.Millisecond):
			if mon.ParkedIn("go-netty.(*channel).", "chan receive") > 0 {
				if parked++; parked >= 20 {
					i = 600
				}
			} else {
				parked = 0
			}
		}
	}
	c.Count("pending_close_calls", 1)
	c.Sig("pending-close", mode, q, entry, returned)
	switch {
	case !returned && parked >= 20:
		key, what := "nonblocking-write-waits-while-close-is-pending", "a write on a non-blocking channel with a full queue that began while Close was pending behind a stalled sender is parked on a bare channel receive instead of returning the queue-full error"
		if mode == mon.Blocking {
			key, what = "blocking-write-ignores-ended-context-while-close-is-pending", "a blocking-mode write whose context had already ended, begun while Close was pending behind a stalled sender, is parked on a bare channel receive instead of returning the context's error"
		}
		c.Violation("C18:"+key, id, fmt.Sprintf("%s [mode=%s Q=%d entry=%s]", what, mode, q, wl.EntryName[entry]), map[string]interface{}{"marks": rig.S.LogString(60)})
	case !returned:
		c.Count("pending_close_calls_not_returned_not_judged", 1)
	case res.err == nil:
		c.Violation("C18:accepted-beyond-capacity", id, fmt.Sprintf("a write that began with a full queue behind a stalled sender (Close pending) was accepted [mode=%s Q=%d entry=%s]", mode, q, wl.EntryName[entry]), nil)
	}
	rig.S.Mark("release")
	select {
	case <-closed:
	case <-time.After(10 * time.Second):
		c.Inconclusive(id, "watchdog: Close did not complete after the sender was released")
	}
	if !returned {
		select {
		case <-done:
		case <-time.After(5 * time.Second):
		}
	}
}

// c18Offline judges bound (a), refusal soundness (c) and outcome consistency on a finished history.
func c18Offline(c *core.Ctx, id string, h *wl.History) {
	q := h.Cfg.Queue
	b := q/2 + 1
	type ev struct {
		tick  uint64
		delta int
	}
	var evs []ev
	var okCalls []uint64 // call ticks of successful calls
	var entered []ev     // (Writev entry tick, parts)
	for w := range h.Writes {
		for _, r := range h.Writes[w] {
			if r.OK {
				evs = append(evs, ev{r.Ret, +1})
				okCalls = append(okCalls, r.Call)
			}
		}
	}
	for _, o := range h.Ops {
		if o.Kind == mon.OpWritev {
			evs = append(evs, ev{o.In, -o.Parts})
			entered = append(entered, ev{o.In, o.Parts})
		}
	}
	sort.Slice(evs, func(i, j int) bool { return evs[i].tick < evs[j].tick })
	sort.Slice(okCalls, func(i, j int) bool { return okCalls[i] < okCalls[j] })
	cur, max := 0, 0
	for _, e := range evs {
		cur += e.delta
		if cur > max {
			max = cur
		}
	}
	c.Max("max_outstanding_over_bound_permille", int64(max*1000/(q+b)))
	if max > q+b {
		c.Violation("C18:outstanding-exceeds-queue-plus-batch", id,
			fmt.Sprintf("measured accepted-but-unsent payloads reached %d, more than queue size %d plus batch capacity %d [%s]", max, q, b, h.Cfg), wl.Summary(h, 200))
	}
	// (c) refusals
	for w := range h.Writes {
		for _, r := range h.Writes[w] {
			if !r.NoSpace {
				continue
			}
			c.Count("nospace_refusals_judged", 1)
			if h.Cfg.Mode == mon.Blocking {
				c.Violation("C18:queue-full-error-in-blocking-mode", id, fmt.Sprintf("%s returned the queue-full error on a blocking-mode channel [%s]", wl.EntryName[r.Entry], h.Cfg), wl.Summary(h, 200))
				continue
			}
			started := sort.Search(len(okCalls), func(i int) bool { return okCalls[i] >= r.Ret })
			gone := 0
			for _, e := range entered {
				if e.tick < r.Call {
					gone += e.delta
				}
			}
			if started-gone < q {
				c.Violation("C18:queue-full-error-while-not-full", id,
					fmt.Sprintf("%s (w=%d seq=%d) returned the queue-full error although at most %d payloads can have been queued during the call (successful calls begun before it returned: %d, payloads that had entered Writev before it began: %d), queue size %d [%s]",
						wl.EntryName[r.Entry], r.W, r.Seq, started-gone, started, gone, q, h.Cfg), wl.Summary(h, 200))
			}
		}
	}
	// outcome consistency
	recs, v1 := wl.CheckC01(h)
	c.Count("stress_records", int64(len(recs)))
	for _, v := range v1 {
		if v.Key == "failed-write-transmitted" {
			c.Violation("C18:refused-payload-transmitted", id, v.What+" ["+h.Cfg.String()+"]", wl.Summary(h, 200))
		}
	}
	v2, _, _ := wl.CheckC02(h, recs)
	for _, v := range v2 {
		if v.Key == "accepted-payload-stranded" {
			c.Violation("C18:accepted-payload-not-transmitted", id, v.What+" ["+h.Cfg.String()+"]", wl.Summary(h, 200))
		}
	}
	sig, alt := h.Rig.S.Signature()
	if alt >= 2 {
		c.SigHash(sig)
	}
}

type c18Res struct {
	n   int64
	err error
}

// c18Scripted runs the exact sequence: 1 payload into the gated sender's batch, Q accepted, one more judged.
func c18Scripted(c *core.Ctx, id string, mode mon.Mode, q, entry int, stim string, rng *rand.Rand) {
	parent, parentCancel := context.WithCancel(context.Background())
	defer parentCancel()
	plan := []mon.Step{{At: "sBat", Occ: 1, Kind: mon.Gate, Until: "release", UntilCount: 1, Timeout: 60 * time.Second}}
	tr := mon.NewRecTransport()
	if rng.Intn(2) == 0 {
		// a transport without deadline support: on a queued channel the caller's context deadline concerns the wait for
		// queue space only, the transport belongs to the background sender
		tr.DeadlineErr = errors.New("mock transport: deadlines not supported")
	}
	rig := mon.NewRig(mon.RigOpts{Mode: mode, Queue: q, Plan: plan, QuietTail: true, Ctx: parent, Tr: tr})
	released := false
	release := func() {
		if !released {
			released = true
			rig.S.Mark("release")
		}
	}
	defer rig.Dispose()
	defer release()
	bg := context.Background()
	if mode == mon.NonBlock && (entry == wl.ECtxWrite1 || entry == wl.ECtxWritev) {
		// non-blocking mode must not wait whatever context the caller passes
		switch rng.Intn(3) {
		case 1:
			var cancel context.CancelFunc
			bg, cancel = context.WithCancel(bg)
			defer cancel()
		case 2:
			var cancel context.CancelFunc
			bg, cancel = context.WithTimeout(bg, time.Hour)
			defer cancel()
		}
	}
	viol := func(key, what string) {
		ops, _ := rig.T.Snapshot()
		c.Violation("C18:"+key, id, fmt.Sprintf("%s [mode=%s Q=%d entry=%s stimulus=%s]", what, mode, q, wl.EntryName[entry], stim),
			map[string]interface{}{"marks": rig.S.LogString(80), "ops": mon.OpString(ops)})
	}
	// call runs one write in its own goroutine and waits for return or (optionally) for it to be seen parked.
	call := func(ctx context.Context, seq int, wantPark bool) (res c18Res, returned, parked bool) {
		done := make(chan c18Res, 1)
		buf := mon.Payload(1, seq, 32)
		go func() {
			n, err := wl.DoWrite(rig.Ch, ctx, entry, buf, rand.New(rand.NewSource(int64(seq))))
			done <- c18Res{n, err}
		}()
		deadline := time.Now().Add(8 * time.Second)
		seen := 0
		for time.Now().Before(deadline) {
			select {
			case r := <-done:
				return r, true, false
			case <-time.After(300 * time.Microsecond):
			}
			if wantPark || time.Until(deadline) < 7*time.Second {
				if mon.ParkedIn("(*channel).asyncWrite") > 0 {
					seen++
					if seen >= 2 {
						// leave the goroutine parked; the caller collects the result later
						go func() { r := <-done; done <- r }()
						return c18Res{}, false, true
					}
				} else {
					seen = 0
				}
			}
		}
		return c18Res{}, false, false
	}
	// 1) first payload -> sender starts, drains it, parks at the gate holding a batch of one
	r0, ret, _ := call(bg, 0, false)
	if !ret && mon.ParkedInAll([]string{"(*channel).async", "(*channel).writeOnce"}) > 0 {
		// the writer's own goroutine is inside the sender loop (held at the harness's gate between draining and writing):
		// the call does not return although the queue is empty - it will be busy for as long as the transport is
		viol("write-call-runs-the-sender-itself", "a write on an empty queue did not return: its goroutine is parked inside writeOnce (the background sender's loop), so the call lasts as long as the transport takes and ignores its context")
		return
	}
	if !ret || r0.err != nil {
		c.Inconclusive(id, fmt.Sprintf("first write did not succeed: ret=%v err=%v", ret, r0.err))
		return
	}
	if !rig.S.Await("sBat", 1, 8*time.Second) {
		c.Inconclusive(id, "sender never reached the gate")
		return
	}
	// 2) Q further payloads must be accepted without waiting
	for k := 1; k <= q; k++ {
		r, ret, parked := call(bg, k, false)
		if parked {
			viol("write-waited-with-space-available", fmt.Sprintf("write #%d of %d parked although the queue had room (sender holds 1 payload, %d queued)", k, q, k-1))
			return
		}
		if !ret {
			c.Inconclusive(id, "watchdog while filling the queue")
			return
		}
		if r.err != nil {
			if errors.Is(r.err, netty.ErrAsyncNoSpace) {
				viol("queue-full-error-while-not-full", fmt.Sprintf("write #%d returned the queue-full error with only %d of %d slots used (sender holds 1 payload in its batch)", k, k-1, q))
			} else {
				viol("write-refused-with-space-available", fmt.Sprintf("write #%d of %d failed with %v although the queue had room", k, q, r.err))
			}
			return
		}
	}
	// 3) the decisive call
	seq := q + 1
	if mode == mon.NonBlock {
		r, ret, parked := call(bg, seq, false)
		c.Count("nonblocking_decisive_calls", 1)
		switch {
		case parked:
			viol("nonblocking-write-parked", "a write on a non-blocking channel with a full queue was observed parked inside asyncWrite instead of returning")
		case !ret:
			c.Inconclusive(id, "watchdog on the decisive non-blocking call")
		case r.err == nil:
			viol("accepted-beyond-capacity", fmt.Sprintf("with 1 payload in the sender's batch and %d queued, one more payload was accepted: %d accepted-but-unsent > queue size %d + batch being sent 1", q, q+2, q))
		case !errors.Is(r.err, netty.ErrAsyncNoSpace):
			viol("wrong-error-on-full-queue", fmt.Sprintf("full queue in non-blocking mode returned %v, want the queue-full error", r.err))
		default:
			c.Count("nospace_refusals_judged", 1)
		}
		c.Sig("nb", q, entry, ret, parked, r.err == nil)
		release()
		rig.Ex.WaitOutstanding(1, 8*time.Second)
		c18Wire(c, id, rig, q, seq, r.err == nil && ret, viol)
		return
	}
	// blocking mode
	ctx, cancel := context.WithCancel(bg)
	defer cancel()
	switch stim {
	case "ctx-deadline":
		var c2 context.CancelFunc
		ctx, c2 = context.WithTimeout(bg, 30*time.Millisecond)
		defer c2()
	case "ctx-already-cancelled":
		cancel()
	}
	done := make(chan c18Res, 1)
	buf := mon.Payload(1, seq, 32)
	go func() {
		n, err := wl.DoWrite(rig.Ch, ctx, entry, buf, rand.New(rand.NewSource(int64(seq))))
		done <- c18Res{n, err}
	}()
	// observe: returned, or parked on two consecutive dumps
	var res c18Res
	returned, parked := false, false
	deadline := time.Now().Add(8 * time.Second)
	seen := 0
	for time.Now().Before(deadline) && !returned && !parked {
		select {
		case res = <-done:
			returned = true
		case <-time.After(300 * time.Microsecond):
			if mon.ParkedIn("(*channel).asyncWrite") > 0 {
				if seen++; seen >= 2 {
					parked = true
				}
			} else {
				seen = 0
			}
		}
	}
	early := stim == "ctx-already-cancelled" || stim == "ctx-deadline"
	switch {
	case parked:
		c.Count("parked_observed", 1)
	case returned && res.err == nil:
		viol("accepted-beyond-capacity", fmt.Sprintf("with 1 payload in the sender's batch and %d queued, a blocking-mode write returned success without waiting", q))
		return
	case returned && early && (errors.Is(res.err, context.Canceled) || errors.Is(res.err, context.DeadlineExceeded)):
		// the context ended before we could see it parked: legitimate
		c.Count("returned_with_context_error_before_observation", 1)
	case returned:
		viol("blocking-write-did-not-wait", fmt.Sprintf("a blocking-mode write on a full queue returned %v instead of waiting for space, its context or close", res.err))
		return
	default:
		c.Inconclusive(id, "watchdog: decisive call neither returned nor was seen parked")
		return
	}
	// while the first writer is parked, a second caller whose context has already ended must not wait at all
	if parked && (entry == wl.ECtxWrite1 || entry == wl.ECtxWritev) {
		cctx, ccancel := context.WithCancel(bg)
		ccancel()
		second := make(chan c18Res, 1)
		go func() {
			n, err := wl.DoWrite(rig.Ch, cctx, entry, mon.Payload(2, 77, 32), rand.New(rand.NewSource(77)))
			second <- c18Res{n, err}
		}()
		select {
		case r2 := <-second:
			c.Count("second_writer_calls", 1)
			if r2.err == nil {
				viol("accepted-beyond-capacity", "a second write (already-cancelled context) returned success while the queue was full and another writer was parked")
				return
			}
		case <-time.After(4 * time.Second):
			if mon.ParkedIn("(*channel).CtxWrite", "sync.Mutex.Lock", "semacquire") > 0 {
				viol("second-writer-blocked-behind-parked-writer", "while one writer waits for queue space, a second CtxWrite call whose context had already ended is blocked on a lock (it observes neither its context nor the channel) instead of returning its context error")
			} else {
				c.Inconclusive(id, "watchdog: second writer did not return")
			}
			return
		}
	}
	// stimulus
	var closeDone chan struct{}
	if !returned {
		switch stim {
		case "space":
			release()
		case "ctx-cancel":
			cancel()
		case "ctx-deadline", "ctx-already-cancelled":
		case "parent-cancel":
			parentCancel()
		case "close-nil", "close-err":
			closeDone = make(chan struct{})
			go func() {
				defer close(closeDone)
				if stim == "close-nil" {
					rig.Ch.Close(nil)
				} else {
					rig.Ch.Close(errSentinel)
				}
			}()
			// Close waits for the sender; once it is polling, let the sender go
			rig.S.Await("cPoll", 1, 2*time.Second)
			release()
		}
		select {
		case res = <-done:
		case <-time.After(4 * time.Second):
			// still parked inside the select although its wake-up condition holds since seconds
			if mon.ParkedIn("(*channel).asyncWrite") > 0 && stim != "close-nil" && stim != "close-err" {
				viol("parked-write-ignores-"+stim, "4 s after the stimulus the write is still parked inside asyncWrite: blocking mode did not react to "+stim)
			} else {
				c.Inconclusive(id, "watchdog: parked call did not return after stimulus "+stim)
			}
			return
		}
	}
	release()
	if closeDone != nil {
		<-closeDone
		rig.Ex.WaitOutstanding(0, 8*time.Second)
	} else {
		rig.Ex.WaitOutstanding(1, 8*time.Second)
	}
	outcome := "error"
	if res.err == nil {
		outcome = "success"
	}
	switch stim {
	case "space":
		if res.err != nil {
			viol("parked-write-failed-after-space-freed", fmt.Sprintf("the parked write returned %v after queue space became available (no context ended, channel open)", res.err))
		}
	case "ctx-cancel", "ctx-already-cancelled":
		if res.err == nil || !errors.Is(res.err, context.Canceled) {
			viol("wrong-result-on-context-cancel", fmt.Sprintf("the write waiting for queue space returned (%d, %v) after its context was cancelled, want context.Canceled", res.n, res.err))
		}
	case "ctx-deadline":
		if res.err == nil || !errors.Is(res.err, context.DeadlineExceeded) {
			viol("wrong-result-on-context-deadline", fmt.Sprintf("the write waiting for queue space returned (%d, %v) after its deadline passed, want context.DeadlineExceeded", res.n, res.err))
		}
	case "parent-cancel":
		if res.err == nil {
			viol("success-after-channel-context-ended", "the write waiting for queue space returned success when the channel's context ended while the queue was still full")
		}
	}
	c.Sig("bl", q, entry, stim, outcome, parked)
	c18Wire(c, id, rig, q, seq, res.err == nil, viol)
	if c.WantSample() {
		ops, _ := rig.T.Snapshot()
		c.Sample(map[string]interface{}{"case": id, "parked_observed": parked, "result": fmt.Sprint(res.err), "marks": rig.S.LogString(60), "ops": mon.OpString(ops)})
	}
}

// c18Wire checks outcome consistency of the decisive payload: success => on the wire, error => never.
func c18Wire(c *core.Ctx, id string, rig *mon.Rig, q, seq int, success bool, viol func(key, what string)) {
	ops, _ := rig.T.Snapshot()
	found := false
	nrecs := 0
	for _, o := range ops {
		if o.Kind != mon.OpWrite && o.Kind != mon.OpWritev {
			continue
		}
		recs, _ := mon.ParseWire(o.Data)
		for _, r := range recs {
			nrecs++
			if r.W == 1 && r.Seq == seq {
				found = true
			}
		}
	}
	c.Count("scripted_wire_records", int64(nrecs))
	if success && !found {
		viol("accepted-payload-not-transmitted", "the decisive write reported success but its payload never reached the transport")
	}
	if !success && found {
		viol("refused-payload-transmitted", "the decisive write returned an error but its payload was handed to the transport")
	}
}
