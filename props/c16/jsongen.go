package c16

import (
	"encoding/json"
	"fmt"
	"math"
	"math/big"
	"math/rand"
	"strconv"
	"strings"
	"unicode/utf8"
)

// ---- abstract JSON value (the reference model) ------------------------------

type kind int

const (
	kNull kind = iota
	kBool
	kInt   // exact integer (big)
	kFloat // finite float64
	kStr   // valid UTF-8
	kArr
	kObj // unique keys
)

type node struct {
	k    kind
	b    bool
	i    *big.Int
	f    float64
	s    string
	arr  []*node
	keys []string
	vals []*node
}

// shape summarises a tree for signatures / counters.
type shape struct {
	depth, nodes              int
	bigInt, float, uniKey     bool
	arr, null, escStr, emptyC bool
}

func (s shape) String() string {
	return fmt.Sprintf("d%d/n%d/big%v/f%v/uk%v/a%v/z%v/esc%v/e%v", s.depth, bucket(s.nodes), s.bigInt, s.float, s.uniKey, s.arr, s.null, s.escStr, s.emptyC)
}

func bucket(n int) int {
	b := 0
	for n > 0 {
		n >>= 1
		b++
	}
	return b
}

var two53 = new(big.Int).Lsh(big.NewInt(1), 53)

func (n *node) shapeInto(s *shape, d int) {
	s.nodes++
	if (n.k == kArr || n.k == kObj) && d > s.depth {
		s.depth = d // container nesting level (top-level object = 1)
	}
	switch n.k {
	case kNull:
		s.null = true
	case kInt:
		if new(big.Int).Abs(n.i).Cmp(two53) > 0 {
			s.bigInt = true
		}
	case kFloat:
		s.float = true
	case kStr:
		if needsEscape(n.s) {
			s.escStr = true
		}
	case kArr:
		s.arr = true
		if len(n.arr) == 0 {
			s.emptyC = true
		}
		for _, c := range n.arr {
			c.shapeInto(s, d+1)
		}
	case kObj:
		if len(n.keys) == 0 {
			s.emptyC = true
		}
		for i, c := range n.vals {
			if needsEscape(n.keys[i]) || !isASCII(n.keys[i]) {
				s.uniKey = true
			}
			c.shapeInto(s, d+1)
		}
	}
}

func isASCII(s string) bool {
	for i := 0; i < len(s); i++ {
		if s[i] >= 0x80 {
			return false
		}
	}
	return true
}

func needsEscape(s string) bool {
	for i := 0; i < len(s); i++ {
		if s[i] < 0x20 || s[i] == '"' || s[i] == '\\' {
			return true
		}
	}
	return false
}

// ---- generators --------------------------------------------------------------

var strPieces = []string{
	"", "a", "key", "hello world", "x_y-z.0", "\"", "\\", "/", "\\\"", "\x00", "\x01", "\b", "\f", "\n", "\r", "\t", "\x1f", "\x7f",
	"\u00e9", "\u00df", "\u65e5\u672c\u8a9e", "\u043a\u043b\u044e\u0447", "\U0001F600", "\U0001D11E", "\u2028", "\u2029", "<script>", "&amp;",
	"\ufffd", "\ufeff", "\u00a0", "\ud7ff", "\ue000", "\uffff", "\U0010ffff", "\u0080", "\u07ff", "\u0800",
	"{}", "[]", "null", "true", "1e5", "\\u0041", "'", "`", " ", "  ", ":", ",",
}

func genString(rng *rand.Rand) string {
	switch rng.Intn(24) {
	case 0:
		return ""
	case 1: // longer than the decoder's initial 512-byte buffer
		return strings.Repeat(strPieces[rng.Intn(len(strPieces))]+"p", 300+rng.Intn(400))
	case 2: // random valid runes
		var sb strings.Builder
		for i, n := 0, rng.Intn(12); i < n; i++ {
			r := rune(rng.Intn(0x110000))
			if !utf8.ValidRune(r) {
				r = rune(rng.Intn(0xd800))
			}
			sb.WriteRune(r)
		}
		return sb.String()
	}
	var sb strings.Builder
	for i, n := 0, 1+rng.Intn(4); i < n; i++ {
		sb.WriteString(strPieces[rng.Intn(len(strPieces))])
	}
	return sb.String()
}

func pow2(n uint) *big.Int { return new(big.Int).Lsh(big.NewInt(1), n) }

func genInt(rng *rand.Rand) *big.Int {
	var v *big.Int
	switch rng.Intn(14) {
	case 0:
		v = big.NewInt(int64(rng.Intn(3)))
	case 1:
		v = big.NewInt(int64(rng.Intn(1 << 16)))
	case 2:
		v = pow2(31)
	case 3:
		v = pow2(53)
	case 4:
		v = new(big.Int).Add(pow2(53), big.NewInt(1+int64(rng.Intn(1000))))
	case 5:
		v = new(big.Int).Sub(pow2(63), big.NewInt(1)) // MaxInt64
	case 6:
		v = pow2(63) // -2^63 when negated = MinInt64
	case 7:
		v = new(big.Int).Sub(pow2(64), big.NewInt(1)) // MaxUint64
	case 8:
		v = pow2(64)
	case 9:
		v = pow2(70)
	case 10:
		v = new(big.Int).Sub(pow2(70), big.NewInt(rng.Int63n(1<<40)))
	case 11:
		v = new(big.Int).SetUint64(rng.Uint64())
	case 12: // uniformly below 2^70
		v = new(big.Int).Rand(rng, pow2(70))
	default:
		v = big.NewInt(rng.Int63())
	}
	if rng.Intn(2) == 0 {
		v.Neg(v)
	}
	return v
}

var floatPalette = []float64{0.5, -0.5, 0.1, 1e21, 1e20, 1e-7, 1e-6, 123456789.125, math.MaxFloat64, -math.MaxFloat64,
	math.SmallestNonzeroFloat64, math.Pi, -math.E, 1.7976931348623157e308, 2.2250738585072014e-308, 9007199254740993.0, 3.0, 1e300, 1.5e-300, 0.30000000000000004}

func genFloat(rng *rand.Rand) float64 {
	if rng.Intn(2) == 0 {
		return floatPalette[rng.Intn(len(floatPalette))]
	}
	for {
		f := math.Float64frombits(rng.Uint64())
		if !math.IsNaN(f) && !math.IsInf(f, 0) {
			return f
		}
	}
}

// genValue draws a value; containers only while depth allows.
func genValue(rng *rand.Rand, depth int) *node {
	max := 9
	if depth >= 4 {
		max = 7 // leaves only
	}
	switch rng.Intn(max) {
	case 0:
		return &node{k: kNull}
	case 1:
		return &node{k: kBool, b: rng.Intn(2) == 0}
	case 2, 3:
		return &node{k: kInt, i: genInt(rng)}
	case 4:
		return &node{k: kFloat, f: genFloat(rng)}
	case 5, 6:
		return &node{k: kStr, s: genString(rng)}
	case 7:
		n := &node{k: kArr, arr: []*node{}}
		homog := rng.Intn(6) // 0: all strings, 1: all int64, else mixed
		for i, c := 0, rng.Intn(5); i < c; i++ {
			switch homog {
			case 0:
				n.arr = append(n.arr, &node{k: kStr, s: genString(rng)})
			case 1:
				n.arr = append(n.arr, &node{k: kInt, i: big.NewInt(rng.Int63() - rng.Int63())})
			default:
				n.arr = append(n.arr, genValue(rng, depth+1))
			}
		}
		return n
	default:
		return genObject(rng, depth+1)
	}
}

// genObject draws an object whose own nesting level is depth (top level = 1).
func genObject(rng *rand.Rand, depth int) *node {
	n := &node{k: kObj}
	cnt := rng.Intn(6)
	if rng.Intn(12) == 0 {
		cnt = 0
	}
	seen := map[string]bool{}
	for i := 0; i < cnt; i++ {
		key := genString(rng)
		if len(key) > 64 && rng.Intn(4) != 0 {
			key = key[:0]
		}
		for seen[key] {
			key += strconv.Itoa(i)
		}
		seen[key] = true
		n.keys = append(n.keys, key)
		n.vals = append(n.vals, genValue(rng, depth))
	}
	return n
}

// ---- carriers (what is handed to Channel.Write) ------------------------------------

func fitsInt64(v *big.Int) bool  { return v.IsInt64() }
func fitsUint64(v *big.Int) bool { return v.IsUint64() }

// toGo builds a Go value tree that encoding/json marshals to the model value,
// drawing a concrete Go type for every node.
func toGo(n *node, rng *rand.Rand) interface{} {
	switch n.k {
	case kNull:
		switch rng.Intn(4) {
		case 0:
			return (*int)(nil)
		case 1:
			return map[string]interface{}(nil)
		case 2:
			return []interface{}(nil)
		}
		return nil
	case kBool:
		return n.b
	case kInt:
		var opts []interface{}
		opts = append(opts, json.Number(n.i.String()), new(big.Int).Set(n.i))
		if fitsInt64(n.i) {
			v := n.i.Int64()
			opts = append(opts, v, v)
			if int64(int32(v)) == v {
				opts = append(opts, int32(v), int(v))
			}
			if int64(int8(v)) == v {
				opts = append(opts, int8(v))
			}
		}
		if fitsUint64(n.i) {
			opts = append(opts, n.i.Uint64(), n.i.Uint64())
		}
		return opts[rng.Intn(len(opts))]
	case kFloat:
		if rng.Intn(4) == 0 {
			return json.Number(strconv.FormatFloat(n.f, "eg"[rng.Intn(2)], -1, 64))
		}
		return n.f
	case kStr:
		return n.s
	case kArr:
		if len(n.arr) > 0 && rng.Intn(2) == 0 {
			allS, allI := true, true
			for _, c := range n.arr {
				allS = allS && c.k == kStr
				allI = allI && c.k == kInt && fitsInt64(c.i)
			}
			if allS {
				out := make([]string, len(n.arr))
				for i, c := range n.arr {
					out[i] = c.s
				}
				return out
			}
			if allI {
				out := make([]int64, len(n.arr))
				for i, c := range n.arr {
					out[i] = c.i.Int64()
				}
				return out
			}
		}
		out := make([]interface{}, len(n.arr))
		for i, c := range n.arr {
			out[i] = toGo(c, rng)
		}
		return out
	default:
		return toGoMap(n, rng)
	}
}

func toGoMap(n *node, rng *rand.Rand) interface{} {
	if len(n.keys) > 0 && rng.Intn(3) == 0 {
		allS := true
		for _, c := range n.vals {
			allS = allS && c.k == kStr
		}
		if allS {
			out := map[string]string{}
			for i, c := range n.vals {
				out[n.keys[i]] = c.s
			}
			return out
		}
	}
	out := make(map[string]interface{}, len(n.keys))
	for i, c := range n.vals {
		out[n.keys[i]] = toGo(c, rng)
	}
	return out
}

// render writes the model value as JSON text with the harness' own serializer:
// random insignificant whitespace, random (legal) string escapes, varied float
// formats.  loose=false gives compact output without '\n'.
func render(sb *strings.Builder, n *node, rng *rand.Rand, loose bool) {
	ws := func() {
		if !loose {
			return
		}
		for rng.Intn(4) == 0 {
			sb.WriteByte(" \t\n\r"[rng.Intn(4)])
		}
	}
	switch n.k {
	case kNull:
		sb.WriteString("null")
	case kBool:
		sb.WriteString(strconv.FormatBool(n.b))
	case kInt:
		sb.WriteString(n.i.String())
	case kFloat:
		f := "eg"[rng.Intn(2)]
		s := strconv.FormatFloat(n.f, f, -1, 64)
		if rng.Intn(2) == 0 {
			s = strings.ToUpper(s)
		}
		sb.WriteString(s)
	case kStr:
		renderString(sb, n.s, rng, loose)
	case kArr:
		sb.WriteByte('[')
		ws()
		for i, c := range n.arr {
			if i > 0 {
				sb.WriteByte(',')
				ws()
			}
			render(sb, c, rng, loose)
			ws()
		}
		sb.WriteByte(']')
	default:
		sb.WriteByte('{')
		ws()
		for i, c := range n.vals {
			if i > 0 {
				sb.WriteByte(',')
				ws()
			}
			renderString(sb, n.keys[i], rng, loose)
			ws()
			sb.WriteByte(':')
			ws()
			render(sb, c, rng, loose)
			ws()
		}
		sb.WriteByte('}')
	}
}

func renderString(sb *strings.Builder, s string, rng *rand.Rand, vary bool) {
	hex := func(v rune) {
		h := fmt.Sprintf("%04x", v)
		if rng.Intn(2) == 0 {
			h = strings.ToUpper(h)
		}
		sb.WriteString("\\u" + h)
	}
	uni := func(r rune) {
		if r >= 0x10000 {
			r -= 0x10000
			hex(0xd800 + (r>>10)&0x3ff)
			hex(0xdc00 + r&0x3ff)
			return
		}
		hex(r)
	}
	sb.WriteByte('"')
	for _, r := range s {
		short := map[rune]string{'"': `\"`, '\\': `\\`, '\b': `\b`, '\f': `\f`, '\n': `\n`, '\r': `\r`, '\t': `\t`, '/': `\/`}
		switch {
		case r == '"' || r == '\\' || r < 0x20:
			if e, ok := short[r]; ok && rng.Intn(3) != 0 {
				sb.WriteString(e)
			} else {
				uni(r)
			}
		case vary && rng.Intn(6) == 0:
			if e, ok := short[r]; ok {
				sb.WriteString(e)
			} else {
				uni(r)
			}
		default:
			sb.WriteRune(r)
		}
	}
	sb.WriteByte('"')
}

func renderText(n *node, rng *rand.Rand, loose bool) string {
	var sb strings.Builder
	render(&sb, n, rng, loose)
	return sb.String()
}

// ---- struct carrier ------------------------------------------------------------------

type recInner struct {
	K string   `json:"k"`
	V []int64  `json:"v"`
	P *float64 `json:"p"`
}

type rec struct {
	ID     int64                  `json:"id"`
	U      uint64                 `json:"u"`
	Name   string                 `json:"naïve name"`
	Flag   bool                   `json:"flag"`
	Score  float64                `json:"score"`
	Big    json.Number            `json:"big"`
	Tags   []string               `json:"tags"`
	Opt    *recInner              `json:"opt"`
	Omit   string                 `json:"omit,omitempty"`
	Skip   string                 `json:"-"`
	Extra  map[string]interface{} `json:"extra"`
	Raw    json.RawMessage        `json:"raw"`
	NoTag  int
	hidden int
}

func iNode(v *big.Int) *node { return &node{k: kInt, i: v} }
func sNode(s string) *node   { return &node{k: kStr, s: s} }
func fNode(f float64) *node  { return &node{k: kFloat, f: f} }
func nullNode() *node        { return &node{k: kNull} }
func (n *node) put(k string, v *node) {
	n.keys = append(n.keys, k)
	n.vals = append(n.vals, v)
}

// genStruct draws a struct value together with the model of what it denotes.
func genStruct(rng *rand.Rand) (interface{}, *node) {
	r := &rec{Skip: "never sent", hidden: 7}
	t := &node{k: kObj}
	r.ID = rng.Int63() - rng.Int63()
	if rng.Intn(4) == 0 {
		r.ID = []int64{math.MinInt64, math.MaxInt64, 1<<53 + 1, -(1<<53 + 1)}[rng.Intn(4)]
	}
	t.put("id", iNode(big.NewInt(r.ID)))
	r.U = rng.Uint64()
	if rng.Intn(4) == 0 {
		r.U = math.MaxUint64
	}
	t.put("u", iNode(new(big.Int).SetUint64(r.U)))
	r.Name = genString(rng)
	t.put("naïve name", sNode(r.Name))
	r.Flag = rng.Intn(2) == 0
	t.put("flag", &node{k: kBool, b: r.Flag})
	r.Score = genFloat(rng)
	t.put("score", fNode(r.Score))
	bi := genInt(rng)
	r.Big = json.Number(bi.String())
	t.put("big", iNode(bi))
	switch rng.Intn(3) {
	case 0:
		t.put("tags", nullNode())
	case 1:
		r.Tags = []string{}
		t.put("tags", &node{k: kArr})
	default:
		a := &node{k: kArr}
		for i, c := 0, 1+rng.Intn(3); i < c; i++ {
			s := genString(rng)
			r.Tags = append(r.Tags, s)
			a.arr = append(a.arr, sNode(s))
		}
		t.put("tags", a)
	}
	if rng.Intn(3) == 0 {
		t.put("opt", nullNode())
	} else {
		in := &recInner{K: genString(rng)}
		o := &node{k: kObj}
		o.put("k", sNode(in.K))
		if rng.Intn(2) == 0 {
			o.put("v", nullNode())
		} else {
			a := &node{k: kArr}
			in.V = []int64{}
			for i, c := 0, rng.Intn(4); i < c; i++ {
				v := rng.Int63() - rng.Int63()
				in.V = append(in.V, v)
				a.arr = append(a.arr, iNode(big.NewInt(v)))
			}
			o.put("v", a)
		}
		if rng.Intn(2) == 0 {
			o.put("p", nullNode())
		} else {
			f := genFloat(rng)
			in.P = &f
			o.put("p", fNode(f))
		}
		r.Opt = in
		t.put("opt", o)
	}
	if rng.Intn(2) == 0 {
		r.Omit = "x" + genString(rng)
		t.put("omit", sNode(r.Omit))
	}
	if rng.Intn(3) == 0 {
		t.put("extra", nullNode())
	} else {
		o := genObject(rng, 2)
		m := make(map[string]interface{}, len(o.keys))
		for i, c := range o.vals {
			m[o.keys[i]] = toGo(c, rng)
		}
		r.Extra = m
		t.put("extra", o)
	}
	if rng.Intn(3) == 0 {
		t.put("raw", nullNode())
	} else {
		v := genValue(rng, 2)
		r.Raw = json.RawMessage(renderText(v, rng, true))
		t.put("raw", v)
	}
	r.NoTag = rng.Intn(1000)
	t.put("NoTag", iNode(big.NewInt(int64(r.NoTag))))
	if rng.Intn(2) == 0 {
		return *r, t
	}
	return r, t
}

// ---- comparison ------------------------------------------------------------------------

// diff returns "" when got (what the JSON codec delivered) equals the model
// value, else a path + reason.  Numbers: with useNumber the delivered
// json.Number must denote exactly the model integer (or parse to exactly the
// model float64); without it the delivered float64 must be the correctly
// rounded float64 of the model number.
func diff(n *node, got interface{}, useNumber bool, path string) string {
	switch n.k {
	case kNull:
		if got != nil {
			return fmt.Sprintf("%s: want null, got %T", path, got)
		}
	case kBool:
		if b, ok := got.(bool); !ok || b != n.b {
			return fmt.Sprintf("%s: want %v, got %T %v", path, n.b, got, got)
		}
	case kStr:
		if s, ok := got.(string); !ok || s != n.s {
			return fmt.Sprintf("%s: want string %q, got %T %s", path, clip(n.s, 80), got, clip(fmt.Sprintf("%q", got), 80))
		}
	case kInt, kFloat:
		return diffNum(n, got, useNumber, path)
	case kArr:
		a, ok := got.([]interface{})
		if !ok || len(a) != len(n.arr) {
			return fmt.Sprintf("%s: want array of %d, got %T %s", path, len(n.arr), got, clip(fmt.Sprint(got), 80))
		}
		for i, c := range n.arr {
			if d := diff(c, a[i], useNumber, fmt.Sprintf("%s[%d]", path, i)); d != "" {
				return d
			}
		}
	default:
		m, ok := got.(map[string]interface{})
		if !ok {
			return fmt.Sprintf("%s: want object with %d keys, got %T", path, len(n.keys), got)
		}
		if len(m) != len(n.keys) {
			return fmt.Sprintf("%s: want object with %d keys, got %d keys", path, len(n.keys), len(m))
		}
		for i, c := range n.vals {
			v, present := m[n.keys[i]]
			if !present {
				return fmt.Sprintf("%s: key %q missing", path, n.keys[i])
			}
			if d := diff(c, v, useNumber, path+"."+strconv.Quote(n.keys[i])); d != "" {
				return d
			}
		}
	}
	return ""
}

func diffNum(n *node, got interface{}, useNumber bool, path string) string {
	if useNumber {
		num, ok := got.(json.Number)
		if !ok {
			return fmt.Sprintf("%s: useNumber set, want json.Number, got %T %v", path, got, got)
		}
		if n.k == kInt {
			r, ok := new(big.Rat).SetString(string(num))
			if !ok || !r.IsInt() || r.Num().Cmp(n.i) != 0 {
				return fmt.Sprintf("%s: want exact integer %s, got json.Number %q", path, n.i, string(num))
			}
			return ""
		}
		f, err := strconv.ParseFloat(string(num), 64)
		if err != nil || f != n.f {
			return fmt.Sprintf("%s: want float %v, got json.Number %q", path, n.f, string(num))
		}
		return ""
	}
	f, ok := got.(float64)
	if !ok {
		return fmt.Sprintf("%s: useNumber unset, want float64, got %T %v", path, got, got)
	}
	want := n.f
	if n.k == kInt {
		want, _ = strconv.ParseFloat(n.i.String(), 64) // correctly rounded
	}
	if f != want {
		return fmt.Sprintf("%s: want float64 %v, got %v", path, want, f)
	}
	return ""
}
