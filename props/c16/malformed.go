package c16

import (
	"bytes"
	"encoding/json"
	"math/big"
	"math/rand"
)

// malCase is one frame content that is not "one complete valid JSON object".
//
// class: empty | truncated | null | array | number | string | bool | garbage |
// bad-syntax | mutated  (must raise, deliver nothing)   or   trailing (may
// deliver exactly obj, or raise).
type malCase struct {
	class string
	body  []byte
	obj   *node // trailing: the object the frame begins with
}

func (m malCase) mustRaise() bool { return m.class != "trailing" }

var wsVariants = [][2]string{{"", ""}, {" ", ""}, {"", " "}, {"\t\r\n ", " \n"}}

// handCases: frames that are malformed by construction (independent of any
// JSON implementation).
func handCases() []malCase {
	var out []malCase
	add := func(class string, bodies ...string) {
		for _, b := range bodies {
			out = append(out, malCase{class: class, body: []byte(b)})
		}
	}
	add("empty", "", " ", "\n", "\t \r\n  ")
	nonobj := []struct{ class, text string }{
		{"null", "null"},
		{"array", "[1]"}, {"array", "[]"}, {"array", `[{"a":1}]`}, {"array", `[null]`},
		{"number", "1"}, {"number", "0"}, {"number", "-0.5e3"}, {"number", "1180591620717411303424"},
		{"string", `"s"`}, {"string", `""`}, {"string", `"{}"`}, {"string", `"{\"a\":1}"`},
		{"bool", "true"}, {"bool", "false"},
	}
	for _, n := range nonobj {
		for _, w := range wsVariants {
			add(n.class, w[0]+n.text+w[1])
		}
	}
	add("null", "null{}", `null {"a":1}`, "null,", "nullx") // begins with null (or is garbage): never an object
	add("garbage", "garbage", "\x00", "\x00\x00\x00\x00", "\xff\xfe\xfd", "}", "]", ",", ":", "}{", "<html>", "nul", "tru", "-", "+1", "'a'", "\\", "\x7f{}", "/*c*/{}", "//c", "\x01{\"a\":1}", "x{\"a\":1}")
	add("bad-syntax", "{", "{{}}", "{]", "{garbage}", `{"a"}`, `{"a":}`, `{"a" 1}`, `{'a':1}`, `{a:1}`, `{"a":1,}`, `{,"a":1}`, `{"a":1 "b":2}`,
		`{"a":01}`, `{"a":+1}`, `{"a":.5}`, `{"a":1.}`, `{"a":1e}`, `{"a":-}`, `{"a":tru}`, `{"a":nul}`, `{"a":NaN}`, `{"a":Infinity}`, `{"a":"\x"}`, `{"a":"\u12"}`, `{"a":"\u12g4"}`,
		`{"a":"unterminated`, `{"a":"unterminated}`, `{"a":[1,}`, `{"a":[1,]}`, `{"a":[1}`, `{"a":1]`, `{"a":{"b":1}`, `{"a":"`+"\t"+`"}`, `{"a":"`+"\x01"+`"}`, `{"a":"`+"\x00"+`"}`,
		`{"a":1;"b":2}`, `{"a"::1}`, `{1:1}`, `{null:1}`, `{"a":undefined}`, `{"a":0x10}`, `{"a":1_000}`, `{"a":"b" "c"}`, `{"a":[1 2]}`, `{"a":truefalse}`)
	return out
}

// smallObjects are the texts whose every strict prefix is tried.
var smallObjects = []string{
	`{}`, `{"a":1}`, `{"a":"b"}`, `{"a":null}`, `{"a":true,"b":false}`, `{"k":[1,2,{"x":null}]}`, `{"a":{"b":{"c":{}}}}`,
	`{"n":-12.5e+3}`, `{"s":"é😀\\\""}`, ` {"a" : 1 }`, `{"é":"日本"}`, `{"a":1180591620717411303424}`, `{"":""}`, `{"a":[]}`, `{"a":"x","b":[true,null,1.5,"y"]}`,
}

// truncations of text at every offset before the object is complete.
func truncations(class, text string) []malCase {
	end := bytes.LastIndexByte([]byte(text), '}') // object complete only once this byte is included
	var out []malCase
	for cut := 0; cut <= end; cut++ {
		out = append(out, malCase{class: class, body: []byte(text[:cut])})
	}
	return out
}

var trailers = []string{"x", "}", "]", ",", ":", "null", "{}", `{"other":1}`, " garbage", "\x00", "1", `"`, "\xff", " }", "[", "{"}

func sentinelNode() *node {
	n := &node{k: kObj}
	n.put("__c16_sentinel__", iNode(big.NewInt(1)))
	return n
}

const sentinelText = `{"__c16_sentinel__":1}`

// smallObject draws a small object model (depth <= 3, few members).
func smallObject(rng *rand.Rand) *node {
	n := genObject(rng, 2)
	if len(n.keys) > 3 {
		n.keys, n.vals = n.keys[:3], n.vals[:3]
	}
	return n
}

// trailingCase: a valid object followed by non-whitespace trailing bytes.
func trailingCase(rng *rand.Rand) malCase {
	o := smallObject(rng)
	text := renderText(o, rng, rng.Intn(2) == 0)
	if rng.Intn(3) == 0 {
		text = " \t"[rng.Intn(2):][:1] + text
	}
	tr := trailers[rng.Intn(len(trailers))]
	if rng.Intn(3) == 0 {
		tr = " " + tr
	}
	return malCase{class: "trailing", body: []byte(text + tr), obj: o}
}

const mutAlphabet = "{}[]:,\"\\ 019-+.eEtfnul\x00\xffax'/"

// mutate applies 1-3 random byte edits to a valid compact object text.
func mutate(rng *rand.Rand, text []byte) []byte {
	b := append([]byte{}, text...)
	for i, n := 0, 1+rng.Intn(3); i < n; i++ {
		pos := 0
		if len(b) > 0 {
			pos = rng.Intn(len(b))
		}
		ch := mutAlphabet[rng.Intn(len(mutAlphabet))]
		switch op := rng.Intn(5); {
		case op == 0 && len(b) > 0: // delete
			b = append(b[:pos], b[pos+1:]...)
		case op == 1: // insert
			b = append(b[:pos], append([]byte{ch}, b[pos:]...)...)
		case op == 2 && len(b) > 0: // replace
			b[pos] = ch
		case op == 3 && len(b) > 1: // swap with neighbour
			q := (pos + 1) % len(b)
			b[pos], b[q] = b[q], b[pos]
		case len(b) > 0: // cut and append
			b = append(b[:pos], ch)
		}
	}
	return b
}

// refClass classifies a frame with the reference decoder (encoding/json used
// directly, trusted): "invalid", "nonobject", "object", "object+trailing".
func refClass(body []byte) string {
	dec := json.NewDecoder(bytes.NewReader(body))
	dec.UseNumber()
	var v interface{}
	if err := dec.Decode(&v); err != nil {
		return "invalid"
	}
	if _, ok := v.(map[string]interface{}); !ok {
		return "nonobject"
	}
	rest := body[dec.InputOffset():]
	if len(bytes.TrimLeft(rest, " \t\r\n")) == 0 {
		return "object"
	}
	return "object+trailing"
}
