package c16

import (
	"math/rand"
)

// sizes around the buffer-pool classes and the bufio / decoder buffer sizes.
var (
	smallSizes = []int{0, 1, 2, 3, 7, 15, 16, 17, 63, 64, 65, 255, 256, 257, 511, 512, 513, 1023, 1024, 1025}
	midSizes   = []int{2047, 2048, 2049, 4095, 4096, 4097, 8191, 8192, 8193}
	bigSizes   = []int{65535, 65536, 65537, 131073}
)

var textClasses = []string{"ascii", "random-bytes", "nul-heavy", "all-nul", "delimiter-heavy", "utf8-multibyte", "high-bytes", "invalid-utf8-seqs", "json-looking", "bom"}

var invalidSeqs = []string{"\x80", "\xbf", "\xc0\x80", "\xc1\xbf", "\xed\xa0\x80", "\xed\xbf\xbf", "\xf5\x80\x80\x80", "\xff", "\xfe", "\xe2\x82", "\xf0\x9f\x98", "\xc3", "\xf4\x90\x80\x80", "ok"}

func genSize(rng *rand.Rand) int {
	switch r := rng.Intn(20); {
	case r < 9:
		return smallSizes[rng.Intn(len(smallSizes))]
	case r < 13:
		return rng.Intn(1500)
	case r < 17:
		return midSizes[rng.Intn(len(midSizes))]
	case r < 18:
		return 1025 + rng.Intn(20000)
	default:
		return bigSizes[rng.Intn(len(bigSizes))]
	}
}

// genText returns exactly n bytes of the given content class (as a string; it
// is an arbitrary byte sequence, not necessarily valid UTF-8).
func genText(rng *rand.Rand, class, n int) string {
	b := make([]byte, 0, n+16)
	for len(b) < n {
		switch class {
		case 0:
			b = append(b, byte(0x20+rng.Intn(0x5f)))
		case 1:
			b = append(b, byte(rng.Intn(256)))
		case 2:
			if rng.Intn(2) == 0 {
				b = append(b, 0)
			} else {
				b = append(b, byte(rng.Intn(256)))
			}
		case 3:
			b = append(b, 0)
		case 4:
			b = append(b, []string{"\n", "\r\n", "\r", "\x00", "\n\n", "line", "\r\n\r\n", ";", "\t"}[rng.Intn(9)]...)
		case 5:
			b = append(b, string(rune([]int{0xe9, 0x65e5, 0x1f600, 0x2028, 0x7ff, 0x800, 0xffff, 0x10ffff, 'a'}[rng.Intn(9)]))...)
		case 6:
			b = append(b, byte(0x80+rng.Intn(0x80)))
		case 7:
			b = append(b, invalidSeqs[rng.Intn(len(invalidSeqs))]...)
		case 8:
			b = append(b, []string{`{"a":1}`, `[`, `"`, `\u0000`, `null`, `}`, `\`, ` `}[rng.Intn(8)]...)
		default:
			if len(b) == 0 {
				b = append(b, "\xef\xbb\xbf"...)
			} else {
				b = append(b, byte('a'+rng.Intn(26)))
			}
		}
	}
	return string(b[:n])
}
