package c16

import (
	"bytes"
	"encoding/binary"
	"encoding/json"
	"fmt"

	netty "github.com/go-netty/go-netty"
	"github.com/go-netty/go-netty/codec/format"
	"github.com/go-netty/go-netty/codec/frame"

	"verif/core"
	"verif/mon"
	"verif/props/concodec"
)

// runConcurrent: round trips under concurrent writers. One codec instance serves every goroutine writing to
// its channel; encode state shared between two messages in flight makes an object arrive as another one.
// The wire (4-byte length frames) is decoded with the standard library and compared as a multiset.
func runConcurrent(c *core.Ctx) {
	total := c.Scale(60, 1200)
	for i := 0; i < total; i++ {
		if !c.Mine(i) {
			continue
		}
		id := fmt.Sprintf("conc%d", i)
		if !c.Case(id) {
			continue
		}
		rng := c.Rand("conc", i)
		if i%5 == 4 {
			mixedDelimiter(c, id, i)
			continue
		}
		text := i%3 == 2
		mode := mon.Mode((i / 3) % 2)
		W := 2 + rng.Intn(3)
		per := 3 + rng.Intn(6)
		msgs := make([][]netty.Message, W)
		want := map[string]int{}
		for w := range msgs {
			for s := 0; s < per; s++ {
				if text {
					str := fmt.Sprintf("w%d-s%d-%s", w, s, string(bytes.Repeat([]byte{byte('a' + w)}, 10+rng.Intn(300))))
					msgs[w] = append(msgs[w], str)
					want[str]++
				} else {
					obj := map[string]interface{}{"id": fmt.Sprintf("w%d-s%d", w, s), "n": json.Number(fmt.Sprintf("90071992547409%02d", 93+w*7+s)),
						"pad": string(bytes.Repeat([]byte{byte('A' + w)}, rng.Intn(200))), "k": []interface{}{float64(w), float64(s)}}
					b, _ := json.Marshal(obj)
					msgs[w] = append(msgs[w], obj)
					want[canonJSON(b)]++
				}
			}
		}
		var fmtCodec netty.Handler
		if text {
			fmtCodec = format.TextCodec()
		} else {
			fmtCodec = format.JSONCodec(true, false)
		}
		res := concodec.Run(mode, 8, []netty.Handler{frame.LengthFieldCodec(binary.BigEndian, 1<<20, 0, 4, 0, 4), fmtCodec}, msgs)
		c.Count("concurrent_writer_trials", 1)
		if res.Stalled {
			c.Count("concurrent_writer_trials_with_pileup", 1)
			c.Sig("conc", text, mode, W)
		}
		if !res.Done {
			c.Inconclusive(id, "watchdog: concurrent writers stuck")
			continue
		}
		got := map[string]int{}
		off, bad := 0, ""
		for off < len(res.Wire) {
			if off+4 > len(res.Wire) {
				bad = "truncated frame header on the wire"
				break
			}
			n := int(binary.BigEndian.Uint32(res.Wire[off:]))
			if off+4+n > len(res.Wire) {
				bad = "frame runs past the end of the wire"
				break
			}
			body := res.Wire[off+4 : off+4+n]
			if text {
				got[string(body)]++
			} else {
				got[canonJSON(body)]++
			}
			off += 4 + n
			c.Count("concurrent_frames_checked", 1)
		}
		if bad == "" {
			for k, n := range want {
				if got[k] != n {
					bad = fmt.Sprintf("value %.80q was written %d time(s) but is on the wire %d time(s)", k, n, got[k])
					break
				}
			}
			for k, n := range got {
				if want[k] != n && bad == "" {
					bad = fmt.Sprintf("value %.80q is on the wire %d time(s) but was written %d time(s)", k, n, want[k])
				}
			}
		}
		if bad != "" {
			key := "C16:json-roundtrip-mismatch:concurrent-writers"
			if text {
				key = "C16:text-roundtrip-mismatch:concurrent-writers"
			}
			c.Violation(key, id, fmt.Sprintf("%d goroutines writing through one codec instance (%s channel): %s", W, mode, bad), map[string]interface{}{"writers": W, "text": text})
		}
	}
}

// mixedDelimiter: the README pipeline (delimiter frames + text codec) with two kinds of writers on one channel: strings
// (the delimiter encoder hands them on as a stream: body and delimiter are separate low-level writes) and byte slices
// (one vectored write each). Every string written is received as the identical string, whatever the other writers send.
func mixedDelimiter(c *core.Ctx, id string, i int) {
	rng := c.Rand("conc-mixed", i)
	mode := mon.Mode(i % 2)
	W := 2 + rng.Intn(3)
	per := 4 + rng.Intn(8)
	msgs := make([][]netty.Message, W)
	want := map[string]int{}
	for w := range msgs {
		for s := 0; s < per; s++ {
			str := fmt.Sprintf("w%d-s%d-%s", w, s, string(bytes.Repeat([]byte{byte('a' + w)}, 10+rng.Intn(300))))
			if w%2 == 0 {
				msgs[w] = append(msgs[w], str)
			} else {
				msgs[w] = append(msgs[w], []byte(str))
			}
			want[str]++
		}
	}
	res := concodec.Run(mode, 8, []netty.Handler{frame.DelimiterCodec(1<<20, "\r\n", true), format.TextCodec()}, msgs)
	c.Count("concurrent_writer_trials", 1)
	c.Count("concurrent_mixed_delimiter_trials", 1)
	if res.Stalled {
		c.Count("concurrent_writer_trials_with_pileup", 1)
		c.Sig("conc-mixed", mode, W)
	}
	if !res.Done {
		c.Inconclusive(id, "watchdog: concurrent writers stuck")
		return
	}
	got := map[string]int{}
	for _, line := range bytes.Split(bytes.TrimSuffix(res.Wire, []byte("\r\n")), []byte("\r\n")) {
		got[string(line)]++
		c.Count("concurrent_frames_checked", 1)
	}
	bad := ""
	for k, n := range want {
		if got[k] != n {
			bad = fmt.Sprintf("string %.60q was written %d time(s) but is on the wire %d time(s)", k, n, got[k])
			break
		}
	}
	for k, n := range got {
		if want[k] != n && bad == "" {
			bad = fmt.Sprintf("frame %.60q is on the wire %d time(s) but was written %d time(s)", k, n, want[k])
		}
	}
	if bad != "" {
		c.Violation("C16:text-roundtrip-mismatch:concurrent-writers", id, fmt.Sprintf("%d goroutines (string and []byte messages) through DelimiterCodec + TextCodec on one %s channel: %s", W, mode, bad), map[string]interface{}{"writers": W})
	}
}

// canonJSON re-encodes a JSON document with sorted keys and exact numbers.
func canonJSON(b []byte) string {
	dec := json.NewDecoder(bytes.NewReader(b))
	dec.UseNumber()
	var v interface{}
	if err := dec.Decode(&v); err != nil {
		return "!invalid:" + string(b)
	}
	out, _ := json.Marshal(v)
	return string(out)
}
