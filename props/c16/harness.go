package c16

import (
	"bufio"
	"bytes"
	"encoding/binary"
	"fmt"
	"io"
	"strings"
	"sync"
	"sync/atomic"
	"time"

	netty "github.com/go-netty/go-netty"
	"github.com/go-netty/go-netty/codec/format"
	"github.com/go-netty/go-netty/codec/frame"

	"verif/mon"
)

// ---- frame layer under the format codec ------------------------------------

// frameCfg describes what sits between the transport and the format codec.
// wire() is the harness' own (reference) framing of one body, used to build
// read scripts for malformed frames; it is deliberately independent of the
// library's encoders.
type frameCfg struct {
	name    string
	none    bool   // no frame codec: one message per channel, terminated by EOF
	delim   string // non-empty: body must not contain '\n' (sanitised by callers)
	carrier int    // >=0: harness framer handing this carrier type upwards
	handler func() netty.Handler
	wire    func(body []byte) []byte
}

const maxFrame = 1 << 24

func be32(body []byte) []byte {
	out := make([]byte, 4, 4+len(body))
	binary.BigEndian.PutUint32(out, uint32(len(body)))
	return append(out, body...)
}

func uvar(body []byte) []byte {
	var h [binary.MaxVarintLen64]byte
	n := binary.PutUvarint(h[:], uint64(len(body)))
	return append(append([]byte{}, h[:n]...), body...)
}

// carrier types the harness framer can hand to the format codec's read side.
var carrierNames = []string{"bytes", "byteslices", "string", "bytes.Buffer", "bytes.Reader", "strings.Reader", "plain-reader", "bufio-over-bytes.Reader", "bufio-over-plain-reader", "bytes-reused-buffer", "bytes.Buffer-reused"}

var frameCfgs = func() []frameCfg {
	l := []frameCfg{
		{name: "none", none: true, carrier: -1, handler: nil, wire: func(b []byte) []byte { return append([]byte{}, b...) }},
		{name: "lenfield4", carrier: -1,
			handler: func() netty.Handler { return frame.LengthFieldCodec(binary.BigEndian, maxFrame, 0, 4, 0, 4) }, wire: be32},
		{name: "varint", carrier: -1,
			handler: func() netty.Handler { return frame.VarintLengthFieldCodec(maxFrame) }, wire: uvar},
		{name: "delim-lf", carrier: -1, delim: "\n",
			handler: func() netty.Handler { return frame.DelimiterCodec(maxFrame, "\n", true) },
			wire:    func(b []byte) []byte { return append(append([]byte{}, b...), '\n') }},
		{name: "delim-crlf", carrier: -1, delim: "\r\n",
			handler: func() netty.Handler { return frame.DelimiterCodec(maxFrame, "\r\n", true) },
			wire:    func(b []byte) []byte { return append(append([]byte{}, b...), '\r', '\n') }},
	}
	for i, n := range carrierNames {
		i := i
		l = append(l, frameCfg{name: "carrier:" + n, carrier: i,
			handler: func() netty.Handler { return &carrierFramer{mode: i} }, wire: be32})
	}
	return l
}()

// sanitize makes a body legal for the frame layer (delimiter codecs cannot
// carry their delimiter): every '\n' becomes a space.  Callers classify the
// body *after* this step.
func (f *frameCfg) sanitize(b []byte) []byte {
	if f.delim == "" || bytes.IndexByte(b, '\n') < 0 {
		return b
	}
	return bytes.ReplaceAll(b, []byte{'\n'}, []byte{' '})
}

// plainReader hides every optional interface of the wrapped reader.
type plainReader struct{ r io.Reader }

func (p plainReader) Read(b []byte) (int, error) { return p.r.Read(b) }

// carrierFramer is a harness-owned frame codec (4-byte big-endian length
// prefix) whose decoder hands the complete body upwards as a chosen carrier
// type, so that the format codecs are driven with every message type their
// read side accepts.
type carrierFramer struct {
	mode int
	// modes 9/10 hand the body upwards in a buffer the framer reuses for the next frame (what the
	// shipped PacketCodec does with its single bytes.Buffer): a delivered value must not alias it.
	reuse []byte
	bb    bytes.Buffer
}

func (f *carrierFramer) HandleRead(ctx netty.InboundContext, message netty.Message) {
	r, ok := message.(io.Reader)
	if !ok {
		panic(fmt.Errorf("carrierFramer: unexpected message %T", message))
	}
	var hdr [4]byte
	if _, err := io.ReadFull(r, hdr[:]); err != nil {
		panic(err)
	}
	n := int(binary.BigEndian.Uint32(hdr[:]))
	var body []byte
	if f.mode >= 9 {
		if cap(f.reuse) < n {
			f.reuse = make([]byte, 0, 2*n+64)
		}
		body = f.reuse[:n]
	} else {
		body = make([]byte, n)
	}
	if _, err := io.ReadFull(r, body); err != nil {
		panic(err)
	}
	switch f.mode {
	case 9:
		ctx.HandleRead(body)
		return
	case 10:
		f.bb.Reset()
		f.bb.Write(body)
		for i := range body {
			body[i] = 0xEE
		}
		ctx.HandleRead(&f.bb)
		return
	}
	switch f.mode {
	case 0:
		ctx.HandleRead(body)
	case 1:
		h := len(body) / 2
		ctx.HandleRead([][]byte{body[:h:h], {}, body[h:]})
	case 2:
		ctx.HandleRead(string(body))
	case 3:
		ctx.HandleRead(bytes.NewBuffer(body))
	case 4:
		ctx.HandleRead(bytes.NewReader(body))
	case 5:
		ctx.HandleRead(strings.NewReader(string(body)))
	case 6:
		ctx.HandleRead(plainReader{bytes.NewReader(body)})
	case 7:
		ctx.HandleRead(bufio.NewReader(bytes.NewReader(body)))
	default:
		ctx.HandleRead(bufio.NewReader(plainReader{bytes.NewReader(body)}))
	}
}

func (f *carrierFramer) HandleWrite(ctx netty.OutboundContext, message netty.Message) {
	var body []byte
	switch m := message.(type) {
	case []byte:
		body = m
	case string:
		body = []byte(m)
	case io.Reader:
		b, err := io.ReadAll(m)
		if err != nil {
			panic(err)
		}
		body = b
	default:
		panic(fmt.Errorf("carrierFramer: unexpected outbound message %T", message))
	}
	ctx.HandleWrite(be32(body))
}

// ---- format codec configurations ----------------------------------------------

type fmtCfg struct {
	json      bool
	useNumber bool
	disallow  bool
}

func (f fmtCfg) String() string {
	if !f.json {
		return "text"
	}
	return fmt.Sprintf("json(useNumber=%v,disallowUnknown=%v)", f.useNumber, f.disallow)
}

func (f fmtCfg) handler() netty.Handler {
	if f.json {
		return format.JSONCodec(f.useNumber, f.disallow)
	}
	return format.TextCodec()
}

// ---- collector ------------------------------------------------------------------

// event is one thing that reached the end of the pipeline, in order.
type event struct {
	kind byte // 'm' message, 'x' exception, 'i' inactive, 's' spin detected by spinProbe
	msg  interface{}
	err  error
}

// collector is the last handler: it records deliveries, exceptions and the
// inactive event in order, closes the channel on an exception (what the
// built-in tail does, minus the stderr print) and after `limit` deliveries.
type collector struct {
	mu     sync.Mutex
	events []event
	limit  int
	nmsg   int
	done   chan struct{}
	once   sync.Once
}

func newCollector(limit int) *collector { return &collector{limit: limit, done: make(chan struct{})} }

func (c *collector) add(e event) int {
	c.mu.Lock()
	defer c.mu.Unlock()
	c.events = append(c.events, e)
	if e.kind == 'm' {
		c.nmsg++
	}
	return c.nmsg
}

func (c *collector) finish() { c.once.Do(func() { close(c.done) }) }

func (c *collector) HandleRead(ctx netty.InboundContext, message netty.Message) {
	// the format codecs deliver values (string / map), not lazy readers; a
	// reader arriving here is drained so that "the frame was read to its end".
	if r, ok := message.(io.Reader); ok {
		b, err := io.ReadAll(r)
		if err != nil {
			panic(err)
		}
		message = rawDelivery(b)
	}
	if n := c.add(event{kind: 'm', msg: message}); n >= c.limit {
		c.finish()
		ctx.Channel().Close(nil)
	}
}

// rawDelivery marks bytes that arrived as an unread reader.
type rawDelivery []byte

func (c *collector) HandleException(ctx netty.ExceptionContext, ex netty.Exception) {
	c.add(event{kind: 'x', err: ex})
	c.finish()
	ctx.Channel().Close(ex)
}

func (c *collector) HandleInactive(ctx netty.InactiveContext, ex netty.Exception) {
	c.add(event{kind: 'i', err: ex})
	c.finish()
	ctx.HandleInactive(ex)
}

func (c *collector) count() int {
	c.mu.Lock()
	defer c.mu.Unlock()
	return len(c.events)
}

// spinProbe sits in front of the format codec when there is no frame codec.
// It forwards the message untouched and ends the trial when the codec returned
// three times in a row without delivering or raising although all scripted
// input had been consumed and EOF was pending: such a read loop would spin
// forever, and waiting for the watchdog would only waste time.
type spinProbe struct {
	col  *collector
	tr   *mon.RecTransport
	idle int
}

func (p *spinProbe) HandleRead(ctx netty.InboundContext, message netty.Message) {
	before := p.col.count()
	ctx.HandleRead(message) // a panic (exception) propagates past this frame
	if p.col.count() != before || !p.tr.ScriptExhausted() {
		p.idle = 0
		return
	}
	if p.idle++; p.idle >= 3 {
		p.col.add(event{kind: 's'})
		p.col.finish()
		ctx.Channel().Close(nil)
	}
}

func (c *collector) snapshot() []event {
	c.mu.Lock()
	defer c.mu.Unlock()
	return append([]event(nil), c.events...)
}

// ---- trial ---------------------------------------------------------------------

const watchdog = 20 * time.Second

var trialSeq, wrappedTrials int64

type trial struct {
	rig *mon.Rig
	col *collector
}

// newTrial builds a real channel with pipeline [frame codec?, format codec, collector].
func newTrial(fc *frameCfg, fm fmtCfg, limit int) *trial {
	col := newCollector(limit)
	tr := mon.NewRecTransport()
	var hs []netty.Handler
	if fc.handler != nil {
		hs = append(hs, fc.handler())
	} else {
		hs = append(hs, &spinProbe{col: col, tr: tr})
	}
	hs = append(hs, fm.handler(), col)
	ro := mon.RigOpts{Mode: mon.Sync, Handlers: hs, NoPark: true, NoHooks: true, Tr: tr}
	if n := atomic.AddInt64(&trialSeq, 1); n%4 == 0 && fc.handler != nil {
		// every fourth trial reads through the library's read-buffering transport wrappers (tcp ReadBufferSize > 0)
		wv := [][2]int{{64, 0}, {64, 64}, {16, 0}, {4096, 4096}}[(n/4)%4]
		ro.Wrap = &wv
		atomic.AddInt64(&wrappedTrials, 1)
	}
	rig := mon.NewRig(ro)
	return &trial{rig: rig, col: col}
}

// feed hands the script to the read side (whole, or in steps) and sets EOF as
// the terminal condition.
func (t *trial) feed(steps [][]byte, chunk int) {
	t.rig.T.SetMaxReadChunk(chunk)
	total, last := 0, -1
	for i, s := range steps {
		total += len(s)
		if len(s) > 0 {
			last = i
		}
	}
	for i, s := range steps {
		if len(s) == 0 {
			continue
		}
		if i == last && total%2 == 1 {
			// the peer's last bytes arrive together with end-of-stream (legal for an io.Reader)
			t.rig.T.Feed(mon.ReadStep{Data: s, WithErr: io.EOF})
			continue
		}
		t.rig.T.FeedBytes(s)
	}
	t.rig.T.SetTerminal(io.EOF)
}

// wait blocks until the collector saw its last event and the read loop has
// returned; false = watchdog (inconclusive).
func (t *trial) wait() bool {
	select {
	case <-t.col.done:
	case <-time.After(watchdog):
		return false
	}
	return t.rig.Ex.WaitOutstanding(0, watchdog)
}

func (t *trial) dispose() { t.rig.Dispose() }

func errStr(e error) string {
	if e == nil {
		return "<nil>"
	}
	s := e.Error()
	if len(s) > 200 {
		s = s[:200] + "..."
	}
	return s
}

func describeEvents(evs []event) []string {
	var out []string
	for i, e := range evs {
		if i >= 6 {
			out = append(out, fmt.Sprintf("... %d more", len(evs)-i))
			break
		}
		switch e.kind {
		case 'm':
			out = append(out, "message "+clip(fmt.Sprintf("%T %#v", e.msg, e.msg), 160))
		case 'x':
			out = append(out, "exception "+errStr(e.err))
		case 's':
			out = append(out, "codec returned 3 times in a row without delivering or raising although all input and EOF were available (read loop would spin)")
		default:
			out = append(out, "inactive "+errStr(e.err))
		}
	}
	return out
}

func clip(s string, n int) string {
	if len(s) > n {
		return s[:n] + fmt.Sprintf("...(%d bytes)", len(s))
	}
	return s
}
