package c16

import (
	"strings"

	"encoding/binary"
	"encoding/json"
	"fmt"
	"github.com/go-netty/go-netty/codec/frame"
	"io"
	"sync"
	"time"

	netty "github.com/go-netty/go-netty"
	"github.com/go-netty/go-netty/codec/format"

	"verif/core"
	"verif/mon"
)

// keepOpen records deliveries and exceptions and keeps the channel open after an exception.
type keepOpen struct {
	mu   sync.Mutex
	msgs []interface{}
	excs []error
}

func (k *keepOpen) HandleRead(ctx netty.InboundContext, m netty.Message) {
	k.mu.Lock()
	k.msgs = append(k.msgs, m)
	k.mu.Unlock()
}

func (k *keepOpen) HandleException(ctx netty.ExceptionContext, ex netty.Exception) {
	k.mu.Lock()
	k.excs = append(k.excs, ex)
	k.mu.Unlock()
}

// runRecovery: a malformed frame must raise an exception - and must not poison the frames that follow on a
// channel the application keeps open: valid, malformed, valid => exactly the two valid objects are delivered.
func runRecovery(c *core.Ctx) {
	malformed := []string{`{"a":`, `{"a":1,,}`, `[1,2] ]`, `nul`, `{"a":1`, `}`, `{"k":"unterminated}`}
	total := c.Scale(len(carrierNames)*len(malformed), len(carrierNames)*len(malformed)*10)
	for i := 0; i < total; i++ {
		if !c.Mine(i) {
			continue
		}
		id := fmt.Sprintf("recovery%d", i)
		if !c.Case(id) {
			continue
		}
		mode := i % len(carrierNames)
		bad := malformed[(i/len(carrierNames))%len(malformed)]
		useNumber := (i/7)%2 == 0
		rec := &keepOpen{}
		tr := mon.NewRecTransport()
		rig := mon.NewRig(mon.RigOpts{Mode: mon.Sync, NoPark: true, NoHooks: true, Tr: tr,
			Handlers: []netty.Handler{&carrierFramer{mode: mode}, format.JSONCodec(useNumber, false), rec}})
		first := fmt.Sprintf(`{"id":"first-%d","n":9007199254740993}`, i)
		third := fmt.Sprintf(`{"id":"third-%d","list":[1,2,3]}`, i)
		for _, f := range []string{first, bad, third} {
			tr.FeedBytes(be32([]byte(f)))
		}
		tr.SetTerminal(io.EOF)
		// the application swallows exceptions, so the end-of-stream does not close the channel: wait until all
		// three frames were consumed and judged (the EOF after them raises one more exception), then close
		for dl := time.Now().Add(5 * time.Second); time.Now().Before(dl); {
			rec.mu.Lock()
			done := len(rec.excs) >= 2 || (len(rec.msgs) >= 2 && len(rec.excs) >= 1 && tr.ScriptExhausted())
			rec.mu.Unlock()
			if done {
				break
			}
			time.Sleep(50 * time.Microsecond)
		}
		rig.Ch.Close(nil)
		rig.Ex.WaitOutstanding(0, 5*time.Second)
		rec.mu.Lock()
		var ids []string
		for _, m := range rec.msgs {
			if mm, ok := m.(map[string]interface{}); ok {
				ids = append(ids, fmt.Sprint(mm["id"]))
			} else {
				ids = append(ids, fmt.Sprintf("%T", m))
			}
		}
		nexc := len(rec.excs)
		rec.mu.Unlock()
		c.Count("recovery_sequences", 1)
		c.Count("malformed_frames_checked", 1)
		c.Sig("recovery", carrierNames[mode], bad, useNumber)
		want := []string{fmt.Sprintf("first-%d", i), fmt.Sprintf("third-%d", i)}
		if fmt.Sprint(ids) != fmt.Sprint(want) {
			c.Violation("C16:valid-json-frame-not-delivered-after-a-malformed-one", id,
				fmt.Sprintf("frames valid, malformed (%q), valid through carrier %s on a channel that stays open: delivered %v, want %v (%d exceptions)", bad, carrierNames[mode], ids, want, nexc),
				map[string]interface{}{"carrier": carrierNames[mode], "malformed": bad})
		}
		rig.Dispose()
	}
}

// failOn is the application handler of the packet-mode trials: it records every message and fails (panics) on the
// ones marked as such; exceptions are consumed, the channel stays open.
type failOn struct {
	keepOpen
}

func (k *failOn) HandleRead(ctx netty.InboundContext, m netty.Message) {
	k.keepOpen.HandleRead(ctx, m)
	if s, ok := m.(string); ok && strings.HasPrefix(s, "boom") {
		panic(fmt.Errorf("application handler failed on %q", s))
	}
}

// runPacketMode: packet-mode pipeline PacketCodec -> JSONCodec / TextCodec -> application. Each transport read
// sequence up to io.EOF is one packet = one frame. A packet that ends in an exception (malformed JSON longer than the
// decoder's read-ahead, or an application handler failing on the message) must not change what the following,
// valid packets deliver.
func runPacketMode(c *core.Ctx) {
	total := c.Scale(240, 6000)
	for i := 0; i < total; i++ {
		if !c.Mine(i) {
			continue
		}
		id := fmt.Sprintf("packet%d", i)
		if !c.Case(id) {
			continue
		}
		rng := c.Rand("packet", i)
		useJSON := i%2 == 0
		rec := &failOn{}
		tr := mon.NewRecTransport()
		hs := []netty.Handler{frame.PacketCodec([]int{0, 16, 128, 4096}[rng.Intn(4)])}
		if useJSON {
			hs = append(hs, format.JSONCodec(rng.Intn(2) == 0, false))
		} else {
			hs = append(hs, format.TextCodec())
		}
		hs = append(hs, rec)
		k := 3 + rng.Intn(4)
		var want []string
		var kinds []string
		for p := 0; p < k; p++ {
			var wire []byte
			kind := "valid"
			if p < k-1 && rng.Intn(3) == 0 {
				kind = "failing"
			}
			switch {
			case useJSON && kind == "valid":
				wire = []byte(fmt.Sprintf(`{"id":"p%d-%d","n":%d}`, i, p, p))
				want = append(want, fmt.Sprintf("p%d-%d", i, p))
			case useJSON:
				// malformed from its first bytes on, and longer than what the JSON decoder reads ahead; what follows the
				// broken part would be a perfectly valid object
				pad := strings.Repeat(" ", []int{0, 100, 600, 2000}[rng.Intn(4)])
				wire = []byte(`{"broken":,}` + pad + fmt.Sprintf(`{"id":"ghost-%d-%d","n":666}`, i, p))
			case kind == "valid":
				wire = []byte(fmt.Sprintf("text-%d-%d-%s", i, p, strings.Repeat("x", rng.Intn(700))))
				want = append(want, string(wire))
			default:
				wire = []byte(fmt.Sprintf("boom-%d-%d", i, p))
				want = append(want, string(wire)) // delivered; the application then fails on it
			}
			kinds = append(kinds, kind)
			var steps []mon.ReadStep
			for w := wire; len(w) > 0; {
				n := 1 + rng.Intn(len(w))
				steps = append(steps, mon.ReadStep{Data: w[:n]})
				w = w[n:]
			}
			if rng.Intn(2) == 0 {
				steps[len(steps)-1].WithErr = io.EOF
			} else {
				steps = append(steps, mon.ReadStep{WithErr: io.EOF})
			}
			tr.Feed(steps...)
		}
		rig := mon.NewRig(mon.RigOpts{Mode: mon.Sync, NoPark: true, NoHooks: true, Tr: tr, Handlers: hs})
		ok := false
		for dl := time.Now().Add(10 * time.Second); time.Now().Before(dl); {
			if tr.ScriptExhausted() && tr.InRead() > 0 {
				ok = true
				break
			}
			time.Sleep(50 * time.Microsecond)
		}
		rig.Ch.Close(nil)
		rig.Ex.WaitOutstanding(0, 5*time.Second)
		rig.Dispose()
		if !ok {
			c.Inconclusive(id, "watchdog: packet script not consumed")
			continue
		}
		rec.mu.Lock()
		var got []string
		for _, m := range rec.msgs {
			switch v := m.(type) {
			case map[string]interface{}:
				got = append(got, fmt.Sprint(v["id"]))
			case string:
				got = append(got, v)
			default:
				got = append(got, fmt.Sprintf("%T", m))
			}
		}
		nexc := len(rec.excs)
		rec.mu.Unlock()
		codec := map[bool]string{true: "json", false: "text"}[useJSON]
		c.Count("packet_mode_sequences", 1)
		c.Count("packet_mode_packets", int64(k))
		c.Sig("packet-mode", codec, fmt.Sprint(kinds))
		if fmt.Sprint(got) != fmt.Sprint(want) {
			c.Violation("C16:packet-mode-message-differs-after-a-failed-packet:"+codec, id,
				fmt.Sprintf("PacketCodec -> %s codec, packets %v on a channel that stays open: delivered %s, want %s (%d exceptions)", codec, kinds, abbrev(got), abbrev(want), nexc),
				map[string]interface{}{"codec": codec, "packets": kinds})
		}
	}
}

func abbrev(ss []string) string {
	out := make([]string, len(ss))
	for i, s := range ss {
		if len(s) > 40 {
			s = s[:40] + fmt.Sprintf("...(%d bytes)", len(s))
		}
		out[i] = s
	}
	return fmt.Sprintf("%q", out)
}

// runRefusals: strings (or JSON objects) written through a frame codec + format codec on a small non-blocking queue whose
// sender starts late: writes that find the queue full are refused with an exception. Every message whose write raised
// nothing must be received identical, in order, and nothing else (a refused message leaves nothing on the wire).
func runRefusals(c *core.Ctx) {
	total := c.Scale(96, 1920)
	for i := 0; i < total; i++ {
		if !c.Mine(i) {
			continue
		}
		id := fmt.Sprintf("refusal%d", i)
		if !c.Case(id) {
			continue
		}
		rng := c.Rand("refusal", i)
		mk := []func() netty.Handler{
			func() netty.Handler { return frame.LengthFieldCodec(binary.BigEndian, 1<<20, 0, 4, 0, 4) },
			func() netty.Handler { return frame.VarintLengthFieldCodec(1 << 20) },
			// (not the delimiter codec: it hands a text message on as a stream, and a stream that meets a full non-blocking
			// queue half-way is cut by the channel - C14's refusal sequences deal with that)
		}[i%2]
		useJSON := (i/2)%2 == 1
		fm := func() netty.Handler {
			if useJSON {
				return format.JSONCodec(true, false)
			}
			return format.TextCodec()
		}
		q := 1 + rng.Intn(4)
		wrec := &keepOpen{}
		plan := []mon.Step{{At: "x1", Occ: 1, Kind: mon.Gate, Until: "go", UntilCount: 1, Timeout: 30 * time.Millisecond}}
		wrig := mon.NewRig(mon.RigOpts{Mode: mon.NonBlock, Queue: q, Plan: plan, Handlers: []netty.Handler{mk(), fm(), wrec}})
		var want []string
		n := q + 2 + rng.Intn(4)
		for k := 0; k < n; k++ {
			text := fmt.Sprintf("message-%d-%d-%s", i, k, strings.Repeat("x", rng.Intn(60)))
			var msg interface{} = text
			if useJSON {
				msg = map[string]interface{}{"id": text}
			}
			wrec.mu.Lock()
			before := len(wrec.excs)
			wrec.mu.Unlock()
			wrig.Ch.Write(msg)
			wrec.mu.Lock()
			refused := len(wrec.excs) > before
			wrec.mu.Unlock()
			if refused {
				c.Count("refusal_writes_refused", 1)
			} else {
				want = append(want, text)
			}
			if k == q+1 {
				// the sender gets going: the rest finds room again
				wrig.S.Mark("go")
				wrig.Ex.WaitOutstanding(1, 5*time.Second)
			}
		}
		wrig.S.Mark("go")
		wrig.Ex.WaitOutstanding(1, 5*time.Second)
		wire := wrig.T.Wire()
		wrig.Dispose()
		rrec := &keepOpen{}
		tr := mon.NewRecTransport()
		for w := wire; len(w) > 0; {
			m := 1 + rng.Intn(len(w))
			tr.Feed(mon.ReadStep{Data: w[:m]})
			w = w[m:]
		}
		rrig := mon.NewRig(mon.RigOpts{Mode: mon.Sync, NoPark: true, NoHooks: true, Tr: tr, Handlers: []netty.Handler{mk(), fm(), rrec}})
		for dl := time.Now().Add(10 * time.Second); !(tr.ScriptExhausted() && tr.InRead() > 0) && !tr.IsClosed() && time.Now().Before(dl); {
			time.Sleep(50 * time.Microsecond)
		}
		rrig.Ch.Close(nil)
		rrig.Ex.WaitOutstanding(0, 5*time.Second)
		rrig.Dispose()
		rrec.mu.Lock()
		var got []string
		for _, m := range rrec.msgs {
			if mm, ok := m.(map[string]interface{}); ok {
				got = append(got, fmt.Sprint(mm["id"]))
			} else {
				got = append(got, fmt.Sprint(m))
			}
		}
		nexc := len(rrec.excs)
		rrec.mu.Unlock()
		c.Count("refusal_sequences", 1)
		c.Sig("refusal", i%2, useJSON, q, len(want))
		if fmt.Sprint(got) != fmt.Sprint(want) {
			c.Violation("C16:roundtrip-mismatch-after-a-refused-write", id,
				fmt.Sprintf("%s + %s codec on a non-blocking queue of %d with a late sender: %d of %d writes were accepted; received %s, want %s (%d exceptions on the reading side)", []string{"LengthFieldCodec", "VarintLengthFieldCodec"}[i%2], map[bool]string{true: "json", false: "text"}[useJSON], q, len(want), n, abbrev(got), abbrev(want), nexc),
				map[string]interface{}{"queue": q})
		}
	}
}

// runLengthEdges: strings whose length sits on the capacity edge of a 1- or 2-byte length field (255/256/257,
// 65535/65536/65537) written through LengthFieldCodec + TextCodec. A write may be refused with an exception (the length
// does not fit); every string whose write raised nothing must be received identical, in order, and nothing else.
func runLengthEdges(c *core.Ctx) {
	total := c.Scale(48, 960)
	for i := 0; i < total; i++ {
		if !c.Mine(i) {
			continue
		}
		id := fmt.Sprintf("length-edge%d", i)
		if !c.Case(id) {
			continue
		}
		rng := c.Rand("length-edge", i)
		width := 1 + i%2
		capv := 1<<(8*uint(width)) - 1
		strip := []int{width, 0}[(i/2)%2]
		mk := func() netty.Handler { return frame.LengthFieldCodec(binary.BigEndian, 1<<20, 0, width, 0, strip) }
		// writer side
		wrec := &keepOpen{}
		wrig := mon.NewRig(mon.RigOpts{Mode: mon.Sync, NoHooks: true, Handlers: []netty.Handler{mk(), format.TextCodec(), wrec}})
		var want []string
		var sizes []int
		for k, n := 0, 3+rng.Intn(3); k < n; k++ {
			size := []int{capv - 1, capv, capv + 1, capv + 2, 3, 40}[rng.Intn(6)]
			body := make([]byte, size)
			for j := range body {
				body[j] = byte('a' + (k+j)%26)
			}
			before := len(wrec.excs)
			wrig.Ch.Write(string(body))
			wrec.mu.Lock()
			refused := len(wrec.excs) > before
			wrec.mu.Unlock()
			sizes = append(sizes, size)
			if refused {
				c.Count("length_edge_writes_refused", 1)
				continue
			}
			if strip == 0 {
				want = append(want, string(append(binary.BigEndian.AppendUint16(nil, uint16(size))[2-width:], body...)))
			} else {
				want = append(want, string(body))
			}
		}
		wire := wrig.T.Wire()
		wrig.Dispose()
		// reader side
		rrec := &keepOpen{}
		tr := mon.NewRecTransport()
		for w := wire; len(w) > 0; {
			n := 1 + rng.Intn(len(w))
			tr.Feed(mon.ReadStep{Data: w[:n]})
			w = w[n:]
		}
		rrig := mon.NewRig(mon.RigOpts{Mode: mon.Sync, NoPark: true, NoHooks: true, Tr: tr, Handlers: []netty.Handler{mk(), format.TextCodec(), rrec}})
		for dl := time.Now().Add(10 * time.Second); !(tr.ScriptExhausted() && tr.InRead() > 0) && !tr.IsClosed() && time.Now().Before(dl); {
			time.Sleep(50 * time.Microsecond)
		}
		rrig.Ch.Close(nil)
		rrig.Ex.WaitOutstanding(0, 5*time.Second)
		rrig.Dispose()
		rrec.mu.Lock()
		var got []string
		for _, m := range rrec.msgs {
			got = append(got, fmt.Sprint(m))
		}
		rrec.mu.Unlock()
		c.Count("length_edge_sequences", 1)
		c.Sig("length-edge", width, strip, fmt.Sprint(sizes))
		if fmt.Sprint(got) != fmt.Sprint(want) {
			c.Violation("C16:text-roundtrip-mismatch:length-field-capacity-edge", id,
				fmt.Sprintf("LengthFieldCodec(%d-byte field, strip %d) + TextCodec, strings of sizes %v: the %d strings whose write raised no exception were received as %s, want %s", width, strip, sizes, len(want), abbrev(got), abbrev(want)),
				map[string]interface{}{"field_width": width, "sizes": sizes})
		}
	}
}

var _ = binary.BigEndian
var _ = json.Valid
