package c16

import (
	"strings"

	"encoding/binary"
	"encoding/json"
	"fmt"
	"github.com/go-netty/go-netty/codec/frame"
	"io"
	"sync"
	"time"

	netty "github.com/go-netty/go-netty"
	"github.com/go-netty/go-netty/codec/format"

	"verif/core"
	"verif/mon"
)

// keepOpen records deliveries and exceptions and keeps the channel open after an exception.
type keepOpen struct {
	mu   sync.Mutex
	msgs []interface{}
	excs []error
}

func (k *keepOpen) HandleRead(ctx netty.InboundContext, m netty.Message) {
	k.mu.Lock()
	k.msgs = append(k.msgs, m)
	k.mu.Unlock()
}

func (k *keepOpen) HandleException(ctx netty.ExceptionContext, ex netty.Exception) {
	k.mu.Lock()
	k.excs = append(k.excs, ex)
	k.mu.Unlock()
}

// runRecovery: a malformed frame must raise an exception - and must not poison the frames that follow on a
// channel the application keeps open: valid, malformed, valid => exactly the two valid objects are delivered.
func runRecovery(c *core.Ctx) {
	malformed := []string{`{"a":`, `{"a":1,,}`, `[1,2] ]`, `nul`, `{"a":1`, `}`, `{"k":"unterminated}`}
	total := c.Scale(len(carrierNames)*len(malformed), len(carrierNames)*len(malformed)*10)
	for i := 0; i < total; i++ {
		if !c.Mine(i) {
			continue
		}
		id := fmt.Sprintf("recovery%d", i)
		if !c.Case(id) {
			continue
		}
		mode := i % len(carrierNames)
		bad := malformed[(i/len(carrierNames))%len(malformed)]
		useNumber := (i/7)%2 == 0
		rec := &keepOpen{}
		tr := mon.NewRecTransport()
		rig := mon.NewRig(mon.RigOpts{Mode: mon.Sync, NoPark: true, NoHooks: true, Tr: tr,
			Handlers: []netty.Handler{&carrierFramer{mode: mode}, format.JSONCodec(useNumber, false), rec}})
		first := fmt.Sprintf(`{"id":"first-%d","n":9007199254740993}`, i)
		third := fmt.Sprintf(`{"id":"third-%d","list":[1,2,3]}`, i)
		for _, f := range []string{first, bad, third} {
			tr.FeedBytes(be32([]byte(f)))
		}
		tr.SetTerminal(io.EOF)
		// the application swallows exceptions, so the end-of-stream does not close the channel: wait until all
		// three frames were consumed and judged (the EOF after them raises one more exception), then close
		for dl := time.Now().Add(5 * time.Second); time.Now().Before(dl); {
			rec.mu.Lock()
			done := len(rec.excs) >= 2 || (len(rec.msgs) >= 2 && len(rec.excs) >= 1 && tr.ScriptExhausted())
			rec.mu.Unlock()
			if done {
				break
			}
			time.Sleep(50 * time.Microsecond)
		}
		rig.Ch.Close(nil)
		rig.Ex.WaitOutstanding(0, 5*time.Second)
		rec.mu.Lock()
		var ids []string
		for _, m := range rec.msgs {
			if mm, ok := m.(map[string]interface{}); ok {
				ids = append(ids, fmt.Sprint(mm["id"]))
			} else {
				ids = append(ids, fmt.Sprintf("%T", m))
			}
		}
		nexc := len(rec.excs)
		rec.mu.Unlock()
		c.Count("recovery_sequences", 1)
		c.Count("malformed_frames_checked", 1)
		c.Sig("recovery", carrierNames[mode], bad, useNumber)
		want := []string{fmt.Sprintf("first-%d", i), fmt.Sprintf("third-%d", i)}
		if fmt.Sprint(ids) != fmt.Sprint(want) {
			c.Violation("C16:valid-json-frame-not-delivered-after-a-malformed-one", id,
				fmt.Sprintf("frames valid, malformed (%q), valid through carrier %s on a channel that stays open: delivered %v, want %v (%d exceptions)", bad, carrierNames[mode], ids, want, nexc),
				map[string]interface{}{"carrier": carrierNames[mode], "malformed": bad})
		}
		rig.Dispose()
	}
}

// failOn is the application handler of the packet-mode trials: it records every message and fails (panics) on the
// ones marked as such; exceptions are consumed, the channel stays open.
type failOn struct {
	keepOpen
}

func (k *failOn) HandleRead(ctx netty.InboundContext, m netty.Message) {
	k.keepOpen.HandleRead(ctx, m)
	if s, ok := m.(string); ok && strings.HasPrefix(s, "boom") {
		panic(fmt.Errorf("application handler failed on %q", s))
	}
}

// runPacketMode: packet-mode pipeline PacketCodec -> JSONCodec / TextCodec -> application. Each transport read
// sequence up to io.EOF is one packet = one frame. A packet that ends in an exception (malformed JSON longer than the
// decoder's read-ahead, or an application handler failing on the message) must not change what the following,
// valid packets deliver.
func runPacketMode(c *core.Ctx) {
	total := c.Scale(240, 6000)
	for i := 0; i < total; i++ {
		if !c.Mine(i) {
			continue
		}
		id := fmt.Sprintf("packet%d", i)
		if !c.Case(id) {
			continue
		}
		rng := c.Rand("packet", i)
		useJSON := i%2 == 0
		rec := &failOn{}
		tr := mon.NewRecTransport()
		hs := []netty.Handler{frame.PacketCodec([]int{0, 16, 128, 4096}[rng.Intn(4)])}
		if useJSON {
			hs = append(hs, format.JSONCodec(rng.Intn(2) == 0, false))
		} else {
			hs = append(hs, format.TextCodec())
		}
		hs = append(hs, rec)
		k := 3 + rng.Intn(4)
		var want []string
		var kinds []string
		for p := 0; p < k; p++ {
			var wire []byte
			kind := "valid"
			if p < k-1 && rng.Intn(3) == 0 {
				kind = "failing"
			}
			switch {
			case useJSON && kind == "valid":
				wire = []byte(fmt.Sprintf(`{"id":"p%d-%d","n":%d}`, i, p, p))
				want = append(want, fmt.Sprintf("p%d-%d", i, p))
			case useJSON:
				// malformed from its first bytes on, and longer than what the JSON decoder reads ahead; what follows the
				// broken part would be a perfectly valid object
				pad := strings.Repeat(" ", []int{0, 100, 600, 2000}[rng.Intn(4)])
				wire = []byte(`{"broken":,}` + pad + fmt.Sprintf(`{"id":"ghost-%d-%d","n":666}`, i, p))
			case kind == "valid":
				wire = []byte(fmt.Sprintf("text-%d-%d-%s", i, p, strings.Repeat("x", rng.Intn(700))))
				want = append(want, string(wire))
			default:
				wire = []byte(fmt.Sprintf("boom-%d-%d", i, p))
				want = append(want, string(wire)) // delivered; the application then fails on it
			}
			kinds = append(kinds, kind)
			var steps []mon.ReadStep
			for w := wire; len(w) > 0; {
				n := 1 + rng.Intn(len(w))
				steps = append(steps, mon.ReadStep{Data: w[:n]})
				w = w[n:]
			}
			if rng.Intn(2) == 0 {
				steps[len(steps)-1].WithErr = io.EOF
			} else {
				steps = append(steps, mon.ReadStep{WithErr: io.EOF})
			}
			tr.Feed(steps...)
		}
		rig := mon.NewRig(mon.RigOpts{Mode: mon.Sync, NoPark: true, NoHooks: true, Tr: tr, Handlers: hs})
		ok := false
		for dl := time.Now().Add(10 * time.Second); time.Now().Before(dl); {
			if tr.ScriptExhausted() && tr.InRead() > 0 {
				ok = true
				break
			}
			time.Sleep(50 * time.Microsecond)
		}
		rig.Ch.Close(nil)
		rig.Ex.WaitOutstanding(0, 5*time.Second)
		rig.Dispose()
		if !ok {
			c.Inconclusive(id, "watchdog: packet script not consumed")
			continue
		}
		rec.mu.Lock()
		var got []string
		for _, m := range rec.msgs {
			switch v := m.(type) {
			case map[string]interface{}:
				got = append(got, fmt.Sprint(v["id"]))
			case string:
				got = append(got, v)
			default:
				got = append(got, fmt.Sprintf("%T", m))
			}
		}
		nexc := len(rec.excs)
		rec.mu.Unlock()
		codec := map[bool]string{true: "json", false: "text"}[useJSON]
		c.Count("packet_mode_sequences", 1)
		c.Count("packet_mode_packets", int64(k))
		c.Sig("packet-mode", codec, fmt.Sprint(kinds))
		if fmt.Sprint(got) != fmt.Sprint(want) {
			c.Violation("C16:packet-mode-message-differs-after-a-failed-packet:"+codec, id,
				fmt.Sprintf("PacketCodec -> %s codec, packets %v on a channel that stays open: delivered %s, want %s (%d exceptions)", codec, kinds, abbrev(got), abbrev(want), nexc),
				map[string]interface{}{"codec": codec, "packets": kinds})
		}
	}
}

func abbrev(ss []string) string {
	out := make([]string, len(ss))
	for i, s := range ss {
		if len(s) > 40 {
			s = s[:40] + fmt.Sprintf("...(%d bytes)", len(s))
		}
		out[i] = s
	}
	return fmt.Sprintf("%q", out)
}

var _ = binary.BigEndian
var _ = json.Valid
