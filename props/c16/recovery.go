package c16

import (
	"encoding/binary"
	"encoding/json"
	"fmt"
	"io"
	"sync"
	"time"

	netty "github.com/go-netty/go-netty"
	"github.com/go-netty/go-netty/codec/format"

	"verif/core"
	"verif/mon"
)

// keepOpen records deliveries and exceptions and keeps the channel open after an exception.
type keepOpen struct {
	mu   sync.Mutex
	msgs []interface{}
	excs []error
}

func (k *keepOpen) HandleRead(ctx netty.InboundContext, m netty.Message) {
	k.mu.Lock()
	k.msgs = append(k.msgs, m)
	k.mu.Unlock()
}

func (k *keepOpen) HandleException(ctx netty.ExceptionContext, ex netty.Exception) {
	k.mu.Lock()
	k.excs = append(k.excs, ex)
	k.mu.Unlock()
}

// runRecovery: a malformed frame must raise an exception - and must not poison the frames that follow on a
// channel the application keeps open: valid, malformed, valid => exactly the two valid objects are delivered.
func runRecovery(c *core.Ctx) {
	malformed := []string{`{"a":`, `{"a":1,,}`, `[1,2] ]`, `nul`, `{"a":1`, `}`, `{"k":"unterminated}`}
	total := c.Scale(len(carrierNames)*len(malformed), len(carrierNames)*len(malformed)*10)
	for i := 0; i < total; i++ {
		if !c.Mine(i) {
			continue
		}
		id := fmt.Sprintf("recovery%d", i)
		if !c.Case(id) {
			continue
		}
		mode := i % len(carrierNames)
		bad := malformed[(i/len(carrierNames))%len(malformed)]
		useNumber := (i/7)%2 == 0
		rec := &keepOpen{}
		tr := mon.NewRecTransport()
		rig := mon.NewRig(mon.RigOpts{Mode: mon.Sync, NoPark: true, NoHooks: true, Tr: tr,
			Handlers: []netty.Handler{&carrierFramer{mode: mode}, format.JSONCodec(useNumber, false), rec}})
		first := fmt.Sprintf(`{"id":"first-%d","n":9007199254740993}`, i)
		third := fmt.Sprintf(`{"id":"third-%d","list":[1,2,3]}`, i)
		for _, f := range []string{first, bad, third} {
			tr.FeedBytes(be32([]byte(f)))
		}
		tr.SetTerminal(io.EOF)
		// the application swallows exceptions, so the end-of-stream does not close the channel: wait until all
		// three frames were consumed and judged (the EOF after them raises one more exception), then close
		for dl := time.Now().Add(5 * time.Second); time.Now().Before(dl); {
			rec.mu.Lock()
			done := len(rec.excs) >= 2 || (len(rec.msgs) >= 2 && len(rec.excs) >= 1 && tr.ScriptExhausted())
			rec.mu.Unlock()
			if done {
				break
			}
			time.Sleep(50 * time.Microsecond)
		}
		rig.Ch.Close(nil)
		rig.Ex.WaitOutstanding(0, 5*time.Second)
		rec.mu.Lock()
		var ids []string
		for _, m := range rec.msgs {
			if mm, ok := m.(map[string]interface{}); ok {
				ids = append(ids, fmt.Sprint(mm["id"]))
			} else {
				ids = append(ids, fmt.Sprintf("%T", m))
			}
		}
		nexc := len(rec.excs)
		rec.mu.Unlock()
		c.Count("recovery_sequences", 1)
		c.Count("malformed_frames_checked", 1)
		c.Sig("recovery", carrierNames[mode], bad, useNumber)
		want := []string{fmt.Sprintf("first-%d", i), fmt.Sprintf("third-%d", i)}
		if fmt.Sprint(ids) != fmt.Sprint(want) {
			c.Violation("C16:valid-json-frame-not-delivered-after-a-malformed-one", id,
				fmt.Sprintf("frames valid, malformed (%q), valid through carrier %s on a channel that stays open: delivered %v, want %v (%d exceptions)", bad, carrierNames[mode], ids, want, nexc),
				map[string]interface{}{"carrier": carrierNames[mode], "malformed": bad})
		}
		rig.Dispose()
	}
}

var _ = binary.BigEndian
var _ = json.Valid
