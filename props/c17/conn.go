package c17

import (
	"io"
	"math/rand"
	"net"
	"sync"
	"time"

	"verif/mon"
)

// wcall is one Write call seen by the connection underneath the wrapper.
type wcall struct {
	Tick uint64 `json:"tick"`
	Len  int    `json:"len"`
}

// memConn is a synchronous in-memory net.Conn.
//
// Write side: the bytes are in the far log before Write returns (so "after
// Flush returned" can be judged without waiting); every call is logged.
// Read side: serves the peer's byte stream under a fragmentation plan: each
// call returns at most the current fragment, never (0, nil) for len(p) > 0,
// and io.EOF once the stream is exhausted (optionally together with the last
// bytes, which io.Reader allows).
type memConn struct {
	mu     sync.Mutex
	far    []byte
	calls  []wcall
	peer   []byte
	roff   int
	cur    int // bytes left in the current fragment
	frag   func(remaining int) int
	eofHot bool // deliver io.EOF together with the last bytes
	closed bool
	reads  int
}

func newMemConn(peer []byte, frag func(int) int, eofWithData bool) *memConn {
	return &memConn{peer: peer, frag: frag, eofHot: eofWithData}
}

func (m *memConn) Write(p []byte) (int, error) {
	m.mu.Lock()
	defer m.mu.Unlock()
	if m.closed {
		return 0, net.ErrClosed
	}
	m.far = append(m.far, p...)
	m.calls = append(m.calls, wcall{mon.Tick(), len(p)})
	return len(p), nil
}

func (m *memConn) Read(p []byte) (int, error) {
	m.mu.Lock()
	defer m.mu.Unlock()
	if m.closed {
		return 0, net.ErrClosed
	}
	m.reads++
	if len(p) == 0 {
		return 0, nil
	}
	rem := len(m.peer) - m.roff
	if rem == 0 {
		return 0, io.EOF
	}
	if m.cur <= 0 {
		m.cur = m.frag(rem)
		if m.cur < 1 {
			m.cur = 1
		}
		if m.cur > rem {
			m.cur = rem
		}
	}
	n := m.cur
	if n > len(p) {
		n = len(p)
	}
	copy(p, m.peer[m.roff:m.roff+n])
	m.roff += n
	m.cur -= n
	if m.eofHot && m.roff == len(m.peer) {
		return n, io.EOF
	}
	return n, nil
}

func (m *memConn) Close() error {
	m.mu.Lock()
	defer m.mu.Unlock()
	if m.closed {
		return net.ErrClosed
	}
	m.closed = true
	return nil
}

// farLog returns the far log (the slice is append-only; callers only read it).
func (m *memConn) farLog() []byte {
	m.mu.Lock()
	defer m.mu.Unlock()
	return m.far
}

func (m *memConn) lastCalls(n int) []wcall {
	m.mu.Lock()
	defer m.mu.Unlock()
	c := m.calls
	if len(c) > n {
		c = c[len(c)-n:]
	}
	return append([]wcall(nil), c...)
}

func (m *memConn) nCalls() int {
	m.mu.Lock()
	defer m.mu.Unlock()
	return len(m.calls)
}

func (m *memConn) LocalAddr() net.Addr              { return mon.Addr("c17-local:1") }
func (m *memConn) RemoteAddr() net.Addr             { return mon.Addr("c17-remote:2") }
func (m *memConn) SetDeadline(time.Time) error      { return nil }
func (m *memConn) SetReadDeadline(time.Time) error  { return nil }
func (m *memConn) SetWriteDeadline(time.Time) error { return nil }

// fragPlans are the peer-side fragmentation plans of the in-memory connection.
var fragPlans = []string{"byte", "small", "buf", "whole", "mixed"}

func fragFunc(plan string, rng *rand.Rand, eff int) func(int) int {
	switch plan {
	case "byte":
		return func(int) int { return 1 }
	case "small":
		return func(int) int { return 1 + rng.Intn(7) }
	case "buf":
		return func(int) int { return 1 + rng.Intn(3*eff) }
	case "whole":
		return func(rem int) int { return rem }
	default: // mixed: mostly everything that is there, now and then a short read
		return func(rem int) int {
			if rng.Intn(5) == 0 {
				return 1 + rng.Intn(3)
			}
			return rem
		}
	}
}
