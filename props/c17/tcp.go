package c17

import (
	"context"
	"fmt"
	"io"
	"math/rand"
	"net"
	"sync"
	"time"

	"github.com/go-netty/go-netty/transport"
	"github.com/go-netty/go-netty/transport/tcp"

	"verif/core"
)

const tcpWatchdog = 10 * time.Second

// tcpCase is one loopback case: both ends are built by the tcp factory with
// their own buffering options; a sequence is pumped in each direction.
type tcpCase struct {
	Client  string `json:"client_variant"`
	Server  string `json:"server_variant"`
	Size    int    `json:"buffer_size"`
	C2S     string `json:"client_to_server_ops"`
	S2C     string `json:"server_to_client_ops"`
	c2s     []op
	s2c     []op
	eff     int
	streams [2][]byte
}

func tcpOptions(v variant, size int) *tcp.Options {
	o := *tcp.DefaultOption
	o.ReadBufferSize, o.WriteBufferSize = v.sizes(size)
	return &o
}

// freePort asks the kernel for a currently unused port (the factory's Acceptor
// does not expose its address, so ":0" cannot be used with it).
func freePort() (int, error) {
	l, err := net.Listen("tcp", "127.0.0.1:0")
	if err != nil {
		return 0, err
	}
	defer l.Close()
	return l.Addr().(*net.TCPAddr).Port, nil
}

// tcpSink reads one direction to EOF and publishes what arrived.
type tcpSink struct {
	mu     sync.Mutex
	got    []byte
	err    error
	notify chan struct{}
	done   chan struct{}
}

func newSink() *tcpSink {
	return &tcpSink{notify: make(chan struct{}, 1), done: make(chan struct{})}
}

func (s *tcpSink) loop(r transport.Transport, rng *rand.Rand, eff int) {
	defer close(s.done)
	for {
		p := make([]byte, 1+rng.Intn(3*eff))
		n, err := r.Read(p)
		s.mu.Lock()
		if n > 0 && n <= len(p) {
			s.got = append(s.got, p[:n]...)
		}
		if err != nil {
			s.err = err
		}
		s.mu.Unlock()
		select {
		case s.notify <- struct{}{}:
		default:
		}
		if err != nil {
			return
		}
	}
}

// snapshot returns the bytes that arrived so far (append-only; read-only use).
func (s *tcpSink) snapshot() []byte {
	s.mu.Lock()
	defer s.mu.Unlock()
	return s.got
}

// waitFor blocks until at least n bytes arrived, the sink ended, or the watchdog fired.
func (s *tcpSink) waitFor(n int, d time.Duration) bool {
	tm := time.NewTimer(d)
	defer tm.Stop()
	for {
		if len(s.snapshot()) >= n {
			return true
		}
		select {
		case <-s.notify:
		case <-s.done:
			return len(s.snapshot()) >= n
		case <-tm.C:
			return false
		}
	}
}

func runTCP(c *core.Ctx, id string, idx int) {
	rng := c.Rand("tcp", idx)
	q := idx + idx/16 + idx/64 // diagonalised so that every shard sees every configuration
	cv, sv := variant(q%4), variant((q/4)%4)
	size := bufSizes[(q/16)%len(bufSizes)]
	tc := &tcpCase{Client: variantNames[cv], Server: variantNames[sv], Size: size, eff: effective(size)}
	tc.c2s = append(genOps(rng, tc.eff, size, false), op{opFlush, nil})
	tc.s2c = append(genOps(rng, tc.eff, size, false), op{opFlush, nil})
	tc.C2S, tc.S2C = opsString(tc.c2s, 60), opsString(tc.s2c, 60)
	tc.streams[0] = randStream(rng, totalPayload(tc.c2s))
	tc.streams[1] = randStream(rng, totalPayload(tc.s2c))
	c.Count("tcp_cases", 1)

	f := tcp.New()
	var acc transport.Acceptor
	var addr string
	var lastErr error
	for try := 0; try < 8 && acc == nil; try++ {
		port, err := freePort()
		if err != nil {
			lastErr = err
			continue
		}
		addr = fmt.Sprintf("tcp://127.0.0.1:%d", port)
		lo, err := transport.ParseOptions(context.Background(), addr, tcp.WithOptions(tcpOptions(sv, size)))
		if err != nil {
			lastErr = err
			continue
		}
		if acc, err = f.Listen(lo); err != nil {
			acc, lastErr = nil, err
		}
	}
	if acc == nil {
		c.Inconclusive(id, fmt.Sprintf("cannot listen on loopback: %v", lastErr))
		return
	}
	type accRes struct {
		t   transport.Transport
		err error
	}
	ach := make(chan accRes, 1)
	go func() {
		t, err := acc.Accept()
		ach <- accRes{t, err}
	}()
	co, err := transport.ParseOptions(context.Background(), addr, tcp.WithOptions(tcpOptions(cv, size)))
	var ct transport.Transport
	if err == nil {
		ct, err = f.Connect(co)
	}
	if err != nil {
		acc.Close()
		if r := <-ach; r.t != nil {
			r.t.Close()
		}
		c.Inconclusive(id, fmt.Sprintf("cannot connect on loopback: %v", err))
		return
	}
	var ar accRes
	select {
	case ar = <-ach:
	case <-time.After(tcpWatchdog):
		acc.Close()
		ar = <-ach
		if ar.err == nil {
			ar.err = fmt.Errorf("accept watchdog")
		}
	}
	acc.Close()
	if ar.err != nil || ar.t == nil {
		ct.Close()
		if ar.t != nil {
			ar.t.Close()
		}
		c.Inconclusive(id, fmt.Sprintf("accept failed: %v", ar.err))
		return
	}
	st := ar.t
	ok := pump(c, id, idx, tc, 0, ct, st) && pump(c, id, idx, tc, 1, st, ct)
	ct.Close()
	st.Close()
	if ok {
		c.Sig("tcp", tc.Client, tc.Server, size, shape(tc.c2s, tc.eff), shape(tc.s2c, tc.eff))
	}
}

// pump writes one sequence on w and reads it on r (the other end of the same
// TCP connection) until EOF. Reports false if the direction could not be
// completed (violation or inconclusive).
func pump(c *core.Ctx, id string, idx int, tc *tcpCase, dir int, w, r transport.Transport) bool {
	dirName := []string{"client->server", "server->client"}[dir]
	ops := [][]op{tc.c2s, tc.s2c}[dir]
	stream := tc.streams[dir]
	wr := &writer{t: w, stream: stream}
	sink := newSink()
	go sink.loop(r, c.Rand("sink", idx, dir), tc.eff)
	verified := 0

	fail := func(key string, opIdx int, what string, extra map[string]interface{}) {
		d := map[string]interface{}{"case": tc, "direction": dirName, "op_index": opIdx, "handed_over": wr.pos, "arrived": len(sink.snapshot())}
		for k, v := range extra {
			d[k] = v
		}
		c.Violation(key, id, fmt.Sprintf("%s [tcp %s client=%s server=%s bufsize=%d op#%d ops=%s]", what, dirName, tc.Client, tc.Server, tc.Size, opIdx, opsString(ops, 24)), d)
	}
	// join ends the reader (forcing it off a blocked Read if necessary).
	join := func() {
		select {
		case <-sink.done:
			return
		default:
		}
		_ = r.SetReadDeadline(time.Unix(1, 0))
		select {
		case <-sink.done:
		case <-time.After(tcpWatchdog):
		}
		_ = r.SetReadDeadline(time.Time{})
	}
	// check: what arrived must be a prefix of what was handed over, in call order.
	check := func(opIdx int) bool {
		got, exp := sink.snapshot(), stream[:wr.pos]
		at := firstDiff(got, exp, verified)
		if at < 0 {
			verified = len(got)
			return true
		}
		key := "C17:tcp-stream-mismatch"
		if at < len(got) && at < len(exp) && got[at] == scribble {
			key = "C17:caller-buffer-retained"
		}
		fail(key, opIdx, fmt.Sprintf("bytes read at the far end deviate from the payloads in call order at offset %d (arrived %d, handed over %d)", at, len(got), len(exp)),
			map[string]interface{}{"mismatch_offset": at, "observed": excerpt(got, at), "expected": excerpt(exp, at)})
		return false
	}

	for i, o := range ops {
		if err := wr.do(o); err != nil {
			join()
			c.Inconclusive(id, fmt.Sprintf("tcp %s: %v failed: %v", dirName, o, err)) // a real socket may fail; not the wrappers' fault
			return false
		}
		if o.K != opFlush {
			continue
		}
		if !sink.waitFor(wr.pos, tcpWatchdog) {
			ok := check(i)
			join()
			if ok {
				c.Inconclusive(id, fmt.Sprintf("tcp %s: watchdog: %d of %d flushed bytes arrived", dirName, len(sink.snapshot()), wr.pos))
			}
			return false
		}
		c.Count("tcp_flush_checks", 1)
		if !check(i) {
			join()
			return false
		}
	}
	// half-close the write side underneath the wrapper (everything was flushed) and read to EOF
	raw, isTCP := w.RawTransport().(*net.TCPConn)
	if !isTCP {
		join()
		c.Inconclusive(id, fmt.Sprintf("tcp %s: RawTransport is %T, not *net.TCPConn", dirName, w.RawTransport()))
		return false
	}
	if err := raw.CloseWrite(); err != nil {
		join()
		c.Inconclusive(id, fmt.Sprintf("tcp %s: CloseWrite: %v", dirName, err))
		return false
	}
	select {
	case <-sink.done:
	case <-time.After(tcpWatchdog):
		join()
		c.Inconclusive(id, fmt.Sprintf("tcp %s: watchdog waiting for EOF at the reader", dirName))
		return false
	}
	if !check(len(ops)) {
		return false
	}
	sink.mu.Lock()
	rerr := sink.err
	sink.mu.Unlock()
	if rerr != io.EOF {
		c.Inconclusive(id, fmt.Sprintf("tcp %s: reader ended with %v instead of EOF", dirName, rerr))
		return false
	}
	if got := sink.snapshot(); len(got) < wr.pos {
		fail("C17:tcp-stream-truncated", len(ops), fmt.Sprintf("reader saw EOF after %d of the %d flushed bytes", len(got), wr.pos), nil)
		return false
	}
	c.Count("tcp_streams_complete", 1)
	c.Count("tcp_bytes", int64(wr.pos))
	c.Count("return_count_mismatch", int64(wr.badRet))
	return true
}
