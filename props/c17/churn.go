package c17

import (
	"fmt"
	"net"
	"strings"

	"github.com/go-netty/go-netty/transport"

	"verif/core"
)

// runChurn: connection churn. A few transports are created, used and closed (once or - legal for a net.Conn - twice;
// sometimes a late small write still reaches a transport after its Close, as an asynchronous sender of a closing
// channel does), and then two healthy new transports with the same buffer sizes are used side by side. Each live
// transport is judged on its own: after every op its connection's log is a prefix of what was handed to it, after every
// Flush it equals it. Nothing an earlier or neighbouring transport did may show up on (or be missing from) it.
func runChurn(c *core.Ctx, id string, idx int) {
	rng := c.Rand("churn", idx)
	v := variant(idx % 4)
	size := []int{8, 16, 64, 4096}[(idx/4)%4]
	r, w := v.sizes(size)
	mk := func() (*memConn, transport.Transport) {
		conn := newMemConn(nil, func(n int) int { return n }, false)
		return conn, transport.NewTransport(conn, r, w)
	}
	type live struct {
		name   string
		conn   *memConn
		t      transport.Transport
		stream []byte
		farOK  int
	}
	var events []string
	var old []transport.Transport
	// churn phase
	for k, n := 0, 1+rng.Intn(3); k < n; k++ {
		_, t := mk()
		_, _ = t.Write(randStream(rng, 1+rng.Intn(size)))
		if rng.Intn(2) == 0 {
			_ = t.Flush()
		}
		_ = t.Close()
		ev := "old%d:close"
		if rng.Intn(2) == 0 {
			_ = t.Close() // closing a connection twice is legal: it only returns an error
			ev = "old%d:close,close"
		}
		events = append(events, fmt.Sprintf(ev, k))
		old = append(old, t)
	}
	lives := []*live{{name: "B"}, {name: "C"}}
	for _, l := range lives {
		l.conn, l.t = mk()
	}
	fail := func(l *live, key, what string) {
		c.Violation(key, id, fmt.Sprintf("%s [variant=%s read=%d write=%d; history: %s]", what, variantNames[v], r, w, strings.Join(events, " ")),
			map[string]interface{}{"variant": variantNames[v], "read_size": r, "write_size": w, "history": events, "transport": l.name,
				"far_len": len(l.conn.farLog()), "handed_over": len(l.stream)})
	}
	check := func(l *live, flushed bool) bool {
		far := l.conn.farLog()
		c.Count("churn_prefix_checks", 1)
		if at := firstDiff(far, l.stream, l.farOK); at >= 0 {
			fail(l, "C17:churn:far-log-not-prefix", fmt.Sprintf("transport %s: its connection's log deviates from what was handed to it at offset %d (log %d bytes, handed over %d): observed %s, expected %s",
				l.name, at, len(far), len(l.stream), excerpt(far, at), excerpt(l.stream, at)))
			return false
		}
		l.farOK = len(far)
		if flushed && len(far) < len(l.stream) {
			fail(l, "C17:churn:flush-did-not-deliver", fmt.Sprintf("transport %s: Flush returned nil but only %d of the %d bytes handed over are on its connection", l.name, len(far), len(l.stream)))
			return false
		}
		return true
	}
	for i, n := 0, 6+rng.Intn(20); i < n; i++ {
		if len(old) > 0 && rng.Intn(8) == 0 {
			// a late small write (and flush) on an already closed transport: errors are fine, effects on others are not
			k := rng.Intn(len(old))
			_, _ = old[k].Write(randStream(rng, 1+rng.Intn(4)))
			_ = old[k].Flush()
			events = append(events, fmt.Sprintf("old%d:late-write", k))
			for _, l := range lives {
				if !check(l, false) {
					return
				}
			}
			continue
		}
		l := lives[rng.Intn(2)]
		var err error
		flushed := false
		switch x := rng.Intn(10); {
		case x < 4:
			p := randStream(rng, 1+rng.Intn(size))
			l.stream = append(l.stream, p...)
			_, err = l.t.Write(append([]byte{}, p...))
			events = append(events, fmt.Sprintf("%s:W%d", l.name, len(p)))
		case x < 7:
			var bufs net.Buffers
			tot := 0
			for j, m := 0, 1+rng.Intn(3); j < m; j++ {
				p := randStream(rng, rng.Intn(size))
				l.stream = append(l.stream, p...)
				bufs = append(bufs, append([]byte{}, p...))
				tot += len(p)
			}
			_, err = l.t.Writev(bufs)
			events = append(events, fmt.Sprintf("%s:V%d", l.name, tot))
		default:
			err = l.t.Flush()
			flushed = true
			events = append(events, l.name+":F")
		}
		if err != nil {
			fail(l, "C17:churn:error-on-healthy-conn", fmt.Sprintf("transport %s: %s failed with %v although its connection accepts everything", l.name, events[len(events)-1], err))
			return
		}
		c.Count("churn_ops", 1)
		// an op on one transport must not change what the other one's connection has seen
		for _, o := range lives {
			if !check(o, flushed && o == l) {
				return
			}
		}
	}
	for _, l := range lives {
		if err := l.t.Flush(); err != nil {
			fail(l, "C17:churn:error-on-healthy-conn", fmt.Sprintf("transport %s: final Flush failed with %v", l.name, err))
			return
		}
		if !check(l, true) {
			return
		}
		_ = l.t.Close()
	}
	c.Count("churn_sequences", 1)
	c.Sig("churn", variantNames[v], size, len(old), len(events) > 12)
}
