package c17

import (
	"bytes"
	"fmt"
	"net"
	"runtime"
	"sync"
	"time"

	"github.com/go-netty/go-netty/transport"

	"verif/core"
	"verif/mon"
)

// duplexConn: Write appends to the far log (under a mutex, yielding once inside so that a second,
// unsynchronised user of the same bufio.Writer gets a chance to interleave); Read blocks until a byte
// of the peer stream is released or the conn is closed.
type duplexConn struct {
	mu     sync.Mutex
	far    []byte
	rd     chan byte
	closed chan struct{}
	once   sync.Once
}

func (d *duplexConn) Write(p []byte) (int, error) {
	d.mu.Lock()
	d.far = append(d.far, p...)
	d.mu.Unlock()
	runtime.Gosched()
	return len(p), nil
}

func (d *duplexConn) Read(p []byte) (int, error) {
	if len(p) == 0 {
		return 0, nil
	}
	select {
	case b := <-d.rd:
		p[0] = b
		return 1, nil
	case <-d.closed:
		return 0, net.ErrClosed
	}
}

func (d *duplexConn) Close() error                     { d.once.Do(func() { close(d.closed) }); return nil }
func (d *duplexConn) LocalAddr() net.Addr              { return mon.Addr("duplex-local") }
func (d *duplexConn) RemoteAddr() net.Addr             { return mon.Addr("duplex-remote") }
func (d *duplexConn) SetDeadline(time.Time) error      { return nil }
func (d *duplexConn) SetReadDeadline(time.Time) error  { return nil }
func (d *duplexConn) SetWriteDeadline(time.Time) error { return nil }

func (d *duplexConn) snapshot() []byte {
	d.mu.Lock()
	defer d.mu.Unlock()
	return append([]byte(nil), d.far...)
}

// runConcurrent: the channel's read loop and its writers use one transport at the same time. While a reader
// goroutine sits in (and keeps re-entering) Read, a writer goroutine issues Write/Writev/Flush sequences; the
// delivery oracle is the same as in the sequential trials.
func runConcurrent(c *core.Ctx) {
	total := c.Scale(80, 1600)
	for i := 0; i < total; i++ {
		if !c.Mine(i) {
			continue
		}
		id := fmt.Sprintf("conc%d", i)
		if !c.Case(id) {
			continue
		}
		rng := c.Rand("conc", i)
		variant := i % 4
		size := []int{1, 16, 64, 4096}[(i/4)%4]
		rs, ws := 0, 0
		if variant == 1 || variant == 3 {
			rs = size
		}
		if variant == 2 || variant == 3 {
			ws = size
		}
		conn := &duplexConn{rd: make(chan byte), closed: make(chan struct{})}
		tr := transport.NewTransport(conn, rs, ws)
		var wg sync.WaitGroup
		stop := make(chan struct{})
		// the peer trickles bytes so that Read returns and is entered again and again
		wg.Add(2)
		go func() {
			defer wg.Done()
			for k := 0; ; k++ {
				select {
				case conn.rd <- byte(k):
				case <-stop:
					return
				}
				runtime.Gosched()
			}
		}()
		var readBytes int
		go func() {
			defer wg.Done()
			buf := make([]byte, 8)
			for {
				n, err := tr.Read(buf)
				readBytes += n
				if err != nil {
					return
				}
			}
		}()
		var want []byte
		bad := ""
		ops := 20 + rng.Intn(60)
		for k := 0; k < ops && bad == ""; k++ {
			n := rng.Intn(3*size + 2)
			p := bytes.Repeat([]byte{byte('a' + k%26)}, n)
			var err error
			switch rng.Intn(3) {
			case 0:
				_, err = tr.Write(append([]byte(nil), p...))
				want = append(want, p...)
			case 1:
				h := n / 2
				_, err = tr.Writev(transport.Buffers{append([]byte(nil), p[:h]...), append([]byte(nil), p[h:]...)})
				want = append(want, p...)
			default:
				err = tr.Flush()
				if err == nil {
					if got := conn.snapshot(); !bytes.Equal(got, want) {
						bad = fmt.Sprintf("after Flush #%d returned the peer has %d bytes, %d were written (first difference at %d)", k, len(got), len(want), firstDiffBytes(got, want))
					}
				}
			}
			if err != nil && bad == "" {
				bad = fmt.Sprintf("operation #%d failed on a healthy connection: %v", k, err)
			}
			if got := conn.snapshot(); bad == "" && (len(got) > len(want) || !bytes.Equal(got, want[:len(got)])) {
				bad = fmt.Sprintf("after operation #%d the peer's bytes are not a prefix of what was written (peer %d bytes, written %d, first difference at %d)", k, len(got), len(want), firstDiffBytes(got, want))
			}
		}
		close(stop)
		tr.Close()
		conn.Close()
		wg.Wait()
		c.Count("concurrent_read_write_trials", 1)
		c.Count("concurrent_bytes_read_meanwhile", int64(readBytes))
		c.Sig("conc", variant, size, readBytes > 0)
		if bad != "" {
			c.Violation("C17:stream-corrupted-with-concurrent-reader", id, fmt.Sprintf("variant=%s buffer=%d, a reader goroutine inside Read while the writer works: %s",
				[]string{"none", "read-only", "write-only", "both"}[variant], size, bad), nil)
		}
	}
}

func firstDiffBytes(a, b []byte) int {
	n := len(a)
	if len(b) < n {
		n = len(b)
	}
	for i := 0; i < n; i++ {
		if a[i] != b[i] {
			return i
		}
	}
	return n
}

// gateConn: the first Write blocks until released (a peer that is not reading); every Write takes a moment.
type gateConn struct {
	duplexConn
	gate    chan struct{}
	entered chan struct{}
	first   sync.Once
	slow    time.Duration
}

func (g *gateConn) Write(p []byte) (int, error) {
	held := false
	g.first.Do(func() { held = true })
	if held && g.gate != nil {
		close(g.entered)
		<-g.gate
	}
	if g.slow > 0 {
		time.Sleep(g.slow)
	}
	return g.duplexConn.Write(p)
}

// runTwoWriters: the read+write buffering wrapper guards its buffered writer with a lock of its own (Close may run next to a
// writer), so two goroutines may use it at the same time. (a) Flush called while another goroutine's Write is stuck in the
// connection: once that Flush has returned, the bytes of every Write that had completed before it are with the peer.
// (b) a Write concurrent with a multi-slice Writev: the peer's stream is one of the two call orders, never a mix.
func runTwoWriters(c *core.Ctx) {
	total := c.Scale(40, 800)
	for i := 0; i < total; i++ {
		if !c.Mine(i) {
			continue
		}
		id := fmt.Sprintf("two-writers%d", i)
		if !c.Case(id) {
			continue
		}
		rng := c.Rand("two-writers", i)
		size := []int{16, 64, 256}[i%3]
		if i%2 == 0 {
			// (a)
			conn := &gateConn{duplexConn: duplexConn{rd: make(chan byte), closed: make(chan struct{})}, gate: make(chan struct{}), entered: make(chan struct{})}
			tr := transport.NewTransport(conn, size, size)
			first := bytes.Repeat([]byte{'h'}, 1+rng.Intn(size-1))
			tr.Write(append([]byte(nil), first...))
			big := bytes.Repeat([]byte{'B'}, size+rng.Intn(2*size))
			var wg sync.WaitGroup
			wg.Add(1)
			go func() { defer wg.Done(); tr.Write(append([]byte(nil), big...)) }()
			select {
			case <-conn.entered:
			case <-time.After(5 * time.Second):
				c.Inconclusive(id, "second writer never reached the connection")
				close(conn.gate)
				wg.Wait()
				continue
			}
			type res struct {
				err  error
				snap []byte
			}
			done := make(chan res, 1)
			go func() { err := tr.Flush(); done <- res{err, conn.snapshot()} }()
			var r res
			select {
			case r = <-done: // returned while the other Write is still stuck
			case <-time.After(20 * time.Millisecond):
				close(conn.gate)
				conn.gate = nil
				r = <-done
			}
			if conn.gate != nil {
				close(conn.gate)
			}
			wg.Wait()
			c.Count("two_writer_flush_checks", 1)
			c.Sig("two-writers", "flush", size)
			if r.err == nil && !bytes.Contains(r.snap, first) {
				c.Violation("C17:flush-returned-before-earlier-write-was-delivered", id,
					fmt.Sprintf("NewTransport(conn,%d,%d): Write(%d bytes) completed, another goroutine's Write(%d bytes) was stuck in the connection, Flush returned nil - and the peer had received %d bytes, not containing the first write", size, size, len(first), len(big), len(r.snap)), nil)
			}
			tr.Close()
			continue
		}
		// (b)
		conn := &gateConn{duplexConn: duplexConn{rd: make(chan byte), closed: make(chan struct{})}, slow: 200 * time.Microsecond}
		tr := transport.NewTransport(conn, size, size)
		var vec transport.Buffers
		var vbytes []byte
		for k, n := 0, 4+rng.Intn(10); k < n; k++ {
			p := bytes.Repeat([]byte{byte('a' + k)}, size+rng.Intn(size))
			vec = append(vec, append([]byte(nil), p...))
			vbytes = append(vbytes, p...)
		}
		zz := []byte("ZZZZ")
		var wg sync.WaitGroup
		wg.Add(2)
		go func() { defer wg.Done(); tr.Writev(vec) }()
		go func() {
			defer wg.Done()
			for k := 0; k < 10000 && len(conn.snapshot()) == 0; k++ {
				runtime.Gosched()
			}
			tr.Write(append([]byte(nil), zz...))
		}()
		wg.Wait()
		tr.Flush()
		got := conn.snapshot()
		c.Count("two_writer_order_checks", 1)
		c.Sig("two-writers", "order", size, len(vec))
		a := append(append([]byte(nil), vbytes...), zz...)
		b := append(append([]byte(nil), zz...), vbytes...)
		if !bytes.Equal(got, a) && !bytes.Equal(got, b) {
			c.Violation("C17:concurrent-write-lands-inside-a-vectored-write", id,
				fmt.Sprintf("NewTransport(conn,%d,%d): a %d-slice Writev (%d bytes) and a concurrent 4-byte Write: the peer's stream (%d bytes) is neither vector+write nor write+vector (the write sits at offset %d)", size, size, len(vec), len(vbytes), len(got), bytes.Index(got, zz)), nil)
		}
		tr.Close()
	}
}
