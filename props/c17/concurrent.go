package c17

import (
	"bytes"
	"fmt"
	"net"
	"runtime"
	"sync"
	"time"

	"github.com/go-netty/go-netty/transport"

	"verif/core"
	"verif/mon"
)

// duplexConn: Write appends to the far log (under a mutex, yielding once inside so that a second,
// unsynchronised user of the same bufio.Writer gets a chance to interleave); Read blocks until a byte
// of the peer stream is released or the conn is closed.
type duplexConn struct {
	mu     sync.Mutex
	far    []byte
	rd     chan byte
	closed chan struct{}
	once   sync.Once
}

func (d *duplexConn) Write(p []byte) (int, error) {
	d.mu.Lock()
	d.far = append(d.far, p...)
	d.mu.Unlock()
	runtime.Gosched()
	return len(p), nil
}

func (d *duplexConn) Read(p []byte) (int, error) {
	if len(p) == 0 {
		return 0, nil
	}
	select {
	case b := <-d.rd:
		p[0] = b
		return 1, nil
	case <-d.closed:
		return 0, net.ErrClosed
	}
}

func (d *duplexConn) Close() error                     { d.once.Do(func() { close(d.closed) }); return nil }
func (d *duplexConn) LocalAddr() net.Addr              { return mon.Addr("duplex-local") }
func (d *duplexConn) RemoteAddr() net.Addr             { return mon.Addr("duplex-remote") }
func (d *duplexConn) SetDeadline(time.Time) error      { return nil }
func (d *duplexConn) SetReadDeadline(time.Time) error  { return nil }
func (d *duplexConn) SetWriteDeadline(time.Time) error { return nil }

func (d *duplexConn) snapshot() []byte {
	d.mu.Lock()
	defer d.mu.Unlock()
	return append([]byte(nil), d.far...)
}

// runConcurrent: the channel's read loop and its writers use one transport at the same time. While a reader
// goroutine sits in (and keeps re-entering) Read, a writer goroutine issues Write/Writev/Flush sequences; the
// delivery oracle is the same as in the sequential trials.
func runConcurrent(c *core.Ctx) {
	total := c.Scale(80, 1600)
	for i := 0; i < total; i++ {
		if !c.Mine(i) {
			continue
		}
		id := fmt.Sprintf("conc%d", i)
		if !c.Case(id) {
			continue
		}
		rng := c.Rand("conc", i)
		variant := i % 4
		size := []int{1, 16, 64, 4096}[(i/4)%4]
		rs, ws := 0, 0
		if variant == 1 || variant == 3 {
			rs = size
		}
		if variant == 2 || variant == 3 {
			ws = size
		}
		conn := &duplexConn{rd: make(chan byte), closed: make(chan struct{})}
		tr := transport.NewTransport(conn, rs, ws)
		var wg sync.WaitGroup
		stop := make(chan struct{})
		// the peer trickles bytes so that Read returns and is entered again and again
		wg.Add(2)
		go func() {
			defer wg.Done()
			for k := 0; ; k++ {
				select {
				case conn.rd <- byte(k):
				case <-stop:
					return
				}
				runtime.Gosched()
			}
		}()
		var readBytes int
		go func() {
			defer wg.Done()
			buf := make([]byte, 8)
			for {
				n, err := tr.Read(buf)
				readBytes += n
				if err != nil {
					return
				}
			}
		}()
		var want []byte
		bad := ""
		ops := 20 + rng.Intn(60)
		for k := 0; k < ops && bad == ""; k++ {
			n := rng.Intn(3*size + 2)
			p := bytes.Repeat([]byte{byte('a' + k%26)}, n)
			var err error
			switch rng.Intn(3) {
			case 0:
				_, err = tr.Write(append([]byte(nil), p...))
				want = append(want, p...)
			case 1:
				h := n / 2
				_, err = tr.Writev(transport.Buffers{append([]byte(nil), p[:h]...), append([]byte(nil), p[h:]...)})
				want = append(want, p...)
			default:
				err = tr.Flush()
				if err == nil {
					if got := conn.snapshot(); !bytes.Equal(got, want) {
						bad = fmt.Sprintf("after Flush #%d returned the peer has %d bytes, %d were written (first difference at %d)", k, len(got), len(want), firstDiffBytes(got, want))
					}
				}
			}
			if err != nil && bad == "" {
				bad = fmt.Sprintf("operation #%d failed on a healthy connection: %v", k, err)
			}
			if got := conn.snapshot(); bad == "" && (len(got) > len(want) || !bytes.Equal(got, want[:len(got)])) {
				bad = fmt.Sprintf("after operation #%d the peer's bytes are not a prefix of what was written (peer %d bytes, written %d, first difference at %d)", k, len(got), len(want), firstDiffBytes(got, want))
			}
		}
		close(stop)
		tr.Close()
		conn.Close()
		wg.Wait()
		c.Count("concurrent_read_write_trials", 1)
		c.Count("concurrent_bytes_read_meanwhile", int64(readBytes))
		c.Sig("conc", variant, size, readBytes > 0)
		if bad != "" {
			c.Violation("C17:stream-corrupted-with-concurrent-reader", id, fmt.Sprintf("variant=%s buffer=%d, a reader goroutine inside Read while the writer works: %s",
				[]string{"none", "read-only", "write-only", "both"}[variant], size, bad), nil)
		}
	}
}

func firstDiffBytes(a, b []byte) int {
	n := len(a)
	if len(b) < n {
		n = len(b)
	}
	for i := 0; i < n; i++ {
		if a[i] != b[i] {
			return i
		}
	}
	return n
}
