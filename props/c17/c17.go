// Package c17 checks property C17: the transport wrappers built by
// transport.NewTransport preserve the byte stream for every buffering
// configuration (none, read-only, write-only, both).
package c17

import (
	"bytes"
	"encoding/hex"
	"fmt"
	"io"
	"math/rand"
	"net"
	"strings"
	"time"

	"github.com/go-netty/go-netty/transport"

	"verif/core"
)

func init() {
	core.Register(&core.Prop{
		ID:    "C17",
		Level: "exploration",
		Rule: "case = transport.NewTransport(conn, readSize, writeSize) for one of the 4 wrapper variants x buffer sizes {1,2,16,4096} (bufio's effective minimum is 16) on a synchronous in-memory net.Conn " +
			"(far log appended before Write returns; peer stream served under one of 5 fragmentation plans, EOF alone or together with the last bytes), driven by a random sequence of 1-40 " +
			"Write / Writev(1-4 slices incl. empty) / Flush / Read ops with payload sizes 0..3x buffer incl. buffer-1, buffer, buffer+1 and 'fill the buffer exactly', caller buffers scribbled after each call returns; " +
			"oracle: after every op the far log is a prefix of the concatenation of all payloads in call order, after every Flush return it equals it, the bytes returned by Read (random buffer sizes, drained to EOF) equal the peer stream; " +
			"plus real TCP loopback cases through tcp.New() Connect/Listen with ReadBufferSize/WriteBufferSize option variants on both ends (writev fast path), arrival awaited by byte count after each Flush, both directions, read to EOF after CloseWrite; " +
			"distinct_nontrivial = distinct (variant, sizes, fragmentation, op-kind/size-class shape) among cases that flushed at least one non-empty payload or read at least one peer byte",
		Assumptions: []string{
			"the connection underneath accepts every write completely and never fails before Close (premise: the wrappers are judged, not the network)",
			"bounds: <=40 ops per sequence, <=4 slices per Writev, payloads <= 3x max(bufsize,16), peer stream <= 6x buffer",
			"single caller goroutine per direction (the property is about sequences, not concurrent writers)",
			"Close is not judged for delivery (the statement only promises delivery once Flush has returned); after Close the far log must still be a prefix",
			"TCP: a Flush whose bytes do not arrive within the 10 s watchdog is inconclusive, never a violation",
		},
		Shards:     func(tier string) int { return map[bool]int{true: 8, false: 16}[tier != "thorough"] },
		TimeoutSec: func(tier string) int { return map[bool]int{true: 120, false: 1500}[tier != "thorough"] },
		Required:   []string{"flush_checks", "flush_released_pending", "read_streams_complete", "tcp_streams_complete"},
		Run:        run,
	})
}

type variant int

const (
	vNone variant = iota
	vRead
	vWrite
	vBoth
)

var (
	variantNames = []string{"none", "read-only", "write-only", "both"}
	bufSizes     = []int{1, 2, 16, 4096}
)

// sizes maps (variant, size) to the NewTransport arguments.
func (v variant) sizes(size int) (r, w int) {
	switch v {
	case vRead:
		return size, 0
	case vWrite:
		return 0, size
	case vBoth:
		return size, size
	}
	return 0, 0
}

func effective(size int) int {
	if size < 16 {
		return 16 // bufio.NewReaderSize / NewWriterSize enforce a 16 byte minimum
	}
	return size
}

type opKind byte

const (
	opWrite opKind = iota
	opWritev
	opFlush
	opRead
	// opDeadline: SetWriteDeadline / SetReadDeadline / SetDeadline with a zero or far-future time (what the channel does
	// around every synchronous CtxWrite): a control call that must not touch the data path
	opDeadline
)

type op struct {
	K  opKind
	Sz []int // payload size(s), or the Read buffer size
}

func (o op) String() string {
	switch o.K {
	case opWrite:
		return fmt.Sprintf("W%d", o.Sz[0])
	case opWritev:
		return "V" + strings.ReplaceAll(fmt.Sprint(o.Sz), " ", ",")
	case opFlush:
		return "F"
	case opDeadline:
		return fmt.Sprintf("D%d", o.Sz[0])
	}
	return fmt.Sprintf("R%d", o.Sz[0])
}

func opsString(ops []op, max int) string {
	var sb strings.Builder
	for i, o := range ops {
		if i >= max {
			fmt.Fprintf(&sb, " ...(+%d)", len(ops)-max)
			break
		}
		if i > 0 {
			sb.WriteByte(' ')
		}
		sb.WriteString(o.String())
	}
	return sb.String()
}

// shape reduces a sequence to op kinds and size classes relative to the buffer.
func shape(ops []op, eff int) string {
	var sb strings.Builder
	for _, o := range ops {
		sb.WriteByte("WVFRD"[o.K])
		if o.K == opDeadline {
			continue
		}
		for _, s := range o.Sz {
			switch {
			case s == 0:
				sb.WriteByte('0')
			case s < eff:
				sb.WriteByte('<')
			case s == eff:
				sb.WriteByte('=')
			default:
				sb.WriteByte('>')
			}
		}
	}
	return sb.String()
}

// pickSize draws a payload size around the buffer size; pending is the number
// of bytes written since the last Flush (to hit the buffer boundary exactly).
func pickSize(rng *rand.Rand, eff, raw, pending int) int {
	switch rng.Intn(15) {
	case 0:
		return 0
	case 1:
		return 1
	case 2:
		return raw
	case 3:
		return eff - 1
	case 4:
		return eff
	case 5:
		return eff + 1
	case 6:
		return 2 * eff
	case 7:
		return 2*eff + 1
	case 8:
		return 3 * eff
	case 9, 10:
		return eff - pending%eff // fills the buffer exactly
	}
	return rng.Intn(3*eff + 1)
}

// genOps draws a sequence; withReads interleaves Read ops.
func genOps(rng *rand.Rand, eff, raw int, withReads bool) []op {
	n := 1 + rng.Intn(40)
	ops := make([]op, 0, n+1)
	pending := 0
	for i := 0; i < n; i++ {
		r := rng.Intn(100)
		switch {
		case r < 32:
			s := pickSize(rng, eff, raw, pending)
			pending += s
			ops = append(ops, op{opWrite, []int{s}})
		case r < 58:
			k := 1 + rng.Intn(4)
			if rng.Intn(8) == 0 {
				k = 15 + rng.Intn(30) // long vectors: what the background sender hands over after a backlog
			}
			sz := make([]int, k)
			for j := range sz {
				if rng.Intn(4) != 0 {
					sz[j] = pickSize(rng, eff, raw, pending)
					pending += sz[j]
				}
			}
			ops = append(ops, op{opWritev, sz})
		case r < 62:
			ops = append(ops, op{opDeadline, []int{rng.Intn(6)}})
		case r < 80 || !withReads:
			pending = 0
			ops = append(ops, op{opFlush, nil})
		default:
			ops = append(ops, op{opRead, []int{readSize(rng, eff)}})
		}
	}
	return ops
}

func readSize(rng *rand.Rand, eff int) int {
	switch rng.Intn(10) {
	case 0:
		return 0
	case 1:
		return 1
	case 2:
		return 2
	case 3:
		return eff - 1
	case 4:
		return eff
	case 5:
		return eff + 1
	case 6:
		return 3 * eff
	}
	return 1 + rng.Intn(2*eff)
}

func totalPayload(ops []op) int {
	t := 0
	for _, o := range ops {
		if o.K == opWrite || o.K == opWritev {
			for _, s := range o.Sz {
				t += s
			}
		}
	}
	return t
}

const scribble = 0xEE

// randStream returns n pseudo-random bytes none of which equals the scribble
// value (so that a retained caller buffer is recognisable in the far log).
func randStream(rng *rand.Rand, n int) []byte {
	b := make([]byte, n)
	rng.Read(b)
	for i, x := range b {
		if x == scribble {
			b[i] = 0x11
		}
	}
	return b
}

// firstDiff returns the first offset >= from at which got is not a prefix of
// exp (len(exp) if got is longer), or -1.
func firstDiff(got, exp []byte, from int) int {
	n := len(got)
	if len(exp) < n {
		n = len(exp)
	}
	if from > n {
		from = n
	}
	if !bytes.Equal(got[from:n], exp[from:n]) {
		for i := from; i < n; i++ {
			if got[i] != exp[i] {
				return i
			}
		}
	}
	if len(got) > len(exp) {
		return len(exp)
	}
	return -1
}

func excerpt(b []byte, at int) string {
	lo, hi := at-8, at+24
	if lo < 0 {
		lo = 0
	}
	if hi > len(b) {
		hi = len(b)
	}
	if lo >= hi {
		return ""
	}
	return fmt.Sprintf("@%d:%s", lo, hex.EncodeToString(b[lo:hi]))
}

// writer drives the write half of a sequence on a transport and keeps the
// reference copy of what was handed over.
type writer struct {
	t      transport.Transport
	stream []byte // concatenation of all payloads of the sequence, in call order
	pos    int    // bytes handed to Write/Writev so far
	badRet int    // calls whose returned count differed from the payload length (not judged)
}

// do executes one write-side op; the caller's buffers are fresh copies that are
// scribbled after the call returned (io.Writer: "must not retain p").
func (w *writer) do(o op) error {
	switch o.K {
	case opWrite:
		p := append([]byte{}, w.stream[w.pos:w.pos+o.Sz[0]]...)
		w.pos += o.Sz[0]
		n, err := w.t.Write(p)
		fill(p, scribble)
		if n != o.Sz[0] {
			w.badRet++
		}
		return err
	case opWritev:
		own := make([][]byte, len(o.Sz)) // our references: net.Buffers.WriteTo consumes the slice it is given
		bufs := make([][]byte, len(o.Sz))
		tot := 0
		for i, s := range o.Sz {
			own[i] = append([]byte{}, w.stream[w.pos:w.pos+s]...)
			bufs[i] = own[i]
			w.pos += s
			tot += s
		}
		n, err := w.t.Writev(net.Buffers(bufs))
		for _, b := range own {
			fill(b, scribble)
		}
		if n != int64(tot) {
			w.badRet++
		}
		return err
	case opFlush:
		return w.t.Flush()
	case opDeadline:
		var d time.Time
		if o.Sz[0]%2 == 1 {
			d = time.Now().Add(time.Hour)
		}
		switch o.Sz[0] / 2 {
		case 0:
			return w.t.SetWriteDeadline(d)
		case 1:
			return w.t.SetReadDeadline(d)
		}
		return w.t.SetDeadline(d)
	}
	return nil
}

func fill(b []byte, x byte) {
	for i := range b {
		b[i] = x
	}
}

// memCase is one in-memory case.
type memCase struct {
	Variant     string `json:"variant"`
	ReadSize    int    `json:"read_size"`
	WriteSize   int    `json:"write_size"`
	Frag        string `json:"fragmentation"`
	EOFWithData bool   `json:"eof_with_last_bytes"`
	PeerLen     int    `json:"peer_len"`
	Ops         string `json:"ops"`
	ops         []op
	eff         int
	stream      []byte
	peer        []byte
}

func genMem(c *core.Ctx, idx int) *memCase {
	rng := c.Rand("mem", idx)
	q := idx + idx/16 + idx/80 // diagonalised so that every shard sees every configuration
	v := variant(q % 4)
	size := bufSizes[(q/4)%len(bufSizes)]
	r, w := v.sizes(size)
	if v == vBoth && rng.Intn(3) == 0 { // unequal read and write buffers
		r = bufSizes[rng.Intn(len(bufSizes))]
	}
	eff := effective(size)
	mc := &memCase{Variant: variantNames[v], ReadSize: r, WriteSize: w, eff: eff,
		Frag: fragPlans[(q/16)%len(fragPlans)], EOFWithData: rng.Intn(3) == 0}
	mc.ops = genOps(rng, eff, size, true)
	mc.stream = randStream(rng, totalPayload(mc.ops))
	switch rng.Intn(8) {
	case 0:
		mc.PeerLen = 0
	case 1:
		mc.PeerLen = 1
	case 2:
		mc.PeerLen = effective(max(r, 1)) + rng.Intn(3) - 1
	default:
		mc.PeerLen = rng.Intn(6*eff + 1)
	}
	mc.peer = randStream(rng, mc.PeerLen)
	mc.Ops = opsString(mc.ops, 60)
	return mc
}

func max(a, b int) int {
	if a > b {
		return a
	}
	return b
}

func run(c *core.Ctx) {
	runConcurrent(c)
	runTwoWriters(c)
	for idx, n := 0, c.Scale(1500, 60000); idx < n; idx++ {
		if !c.Mine(idx) {
			continue
		}
		id := fmt.Sprintf("churn%d", idx)
		if !c.CaseQuiet(id) {
			continue
		}
		runChurn(c, id, idx)
	}
	nMem := c.Scale(4000, 400000)
	for idx := 0; idx < nMem; idx++ {
		if !c.Mine(idx) {
			continue
		}
		id := fmt.Sprintf("m%d", idx)
		if !c.CaseQuiet(id) {
			continue
		}
		runMem(c, id, idx, genMem(c, idx))
	}
	nTCP := c.Scale(64, 6400)
	for idx := 0; idx < nTCP; idx++ {
		if !c.Mine(idx) {
			continue
		}
		id := fmt.Sprintf("tcp%d", idx)
		if !c.Case(id) {
			continue
		}
		runTCP(c, id, idx)
	}
}

func runMem(c *core.Ctx, id string, idx int, mc *memCase) {
	conn := newMemConn(mc.peer, fragFunc(mc.Frag, c.Rand("frag", idx), mc.eff), mc.EOFWithData)
	t := transport.NewTransport(conn, mc.ReadSize, mc.WriteSize)
	w := &writer{t: t, stream: mc.stream}
	var got []byte // bytes returned by Read so far
	farOK, gotOK := 0, 0
	sawEOF := false
	flushedNonEmpty := false
	c.Count("sequences", 1)
	c.Count("variant_"+mc.Variant, 1)

	fail := func(key string, opIdx int, what string, extra map[string]interface{}) {
		d := map[string]interface{}{"case": mc, "op_index": opIdx, "conn_write_calls_tail": conn.lastCalls(8),
			"far_len": len(conn.farLog()), "expected_len": w.pos, "read_len": len(got)}
		for k, v := range extra {
			d[k] = v
		}
		opName := "end"
		if opIdx >= 0 && opIdx < len(mc.ops) {
			opName = mc.ops[opIdx].String()
		}
		c.Violation(key, id, fmt.Sprintf("%s [variant=%s read=%d write=%d frag=%s op#%d=%s ops=%s]",
			what, mc.Variant, mc.ReadSize, mc.WriteSize, mc.Frag, opIdx, opName, opsString(mc.ops, 24)), d)
	}
	// checkFar: the far log must be a prefix of everything handed over so far.
	checkFar := func(opIdx int) bool {
		far, exp := conn.farLog(), mc.stream[:w.pos]
		c.Count("prefix_checks", 1)
		at := firstDiff(far, exp, farOK)
		if at < 0 {
			farOK = len(far)
			return true
		}
		key, what := "C17:far-log-not-prefix", fmt.Sprintf("far log deviates from the payloads in call order at offset %d (far %d bytes, handed over %d)", at, len(far), len(exp))
		if at < len(far) && at < len(exp) && far[at] == scribble {
			key, what = "C17:caller-buffer-retained", fmt.Sprintf("far log holds the caller's post-return scribble at offset %d: the wrapper kept a reference to the caller's slice", at)
		} else if at >= len(exp) {
			what = fmt.Sprintf("far log has %d bytes but only %d were handed over (duplicated bytes)", len(far), len(exp))
		}
		fail(key, opIdx, what, map[string]interface{}{"mismatch_offset": at, "observed": excerpt(far, at), "expected": excerpt(exp, at)})
		return false
	}
	// checkRead: the bytes returned by Read must be a prefix of the peer stream.
	checkRead := func(opIdx int) bool {
		at := firstDiff(got, mc.peer, gotOK)
		if at < 0 {
			gotOK = len(got)
			return true
		}
		fail("C17:read-stream-mismatch", opIdx, fmt.Sprintf("Read returned bytes that are not the peer's stream at offset %d (returned %d, peer sent %d)", at, len(got), len(mc.peer)),
			map[string]interface{}{"mismatch_offset": at, "observed": excerpt(got, at), "expected": excerpt(mc.peer, at)})
		return false
	}
	// doRead performs one Read and judges it; reports (progress, ok).
	doRead := func(opIdx, size int) (int, bool) {
		p := make([]byte, size)
		fill(p, scribble)
		n, err := t.Read(p)
		c.Count("ops_read", 1)
		if n < 0 || n > size {
			fail("C17:read-count-out-of-range", opIdx, fmt.Sprintf("Read(len %d) returned n=%d", size, n), nil)
			return 0, false
		}
		got = append(got, p[:n]...)
		c.Count("bytes_read", int64(n))
		if !checkRead(opIdx) {
			return n, false
		}
		if err == io.EOF {
			sawEOF = true
			if len(got) < len(mc.peer) {
				fail("C17:read-stream-truncated", opIdx, fmt.Sprintf("Read reported EOF after %d of the peer's %d bytes", len(got), len(mc.peer)), nil)
				return n, false
			}
		} else if err != nil {
			fail("C17:read-error-on-healthy-conn", opIdx, fmt.Sprintf("Read failed with %v although the connection never fails", err), nil)
			return n, false
		}
		return n, true
	}

	for i, o := range mc.ops {
		switch o.K {
		case opRead:
			if _, ok := doRead(i, o.Sz[0]); !ok {
				return
			}
		default:
			before := len(conn.farLog())
			err := w.do(o)
			c.Count([]string{"ops_write", "ops_writev", "ops_flush", "", "ops_set_deadline"}[o.K], 1)
			if err != nil {
				fail("C17:"+[]string{"write", "writev", "flush", "", "set-deadline"}[o.K]+"-error-on-healthy-conn", i, fmt.Sprintf("%v failed with %v although the connection accepts everything", o, err), nil)
				return
			}
			if o.K == opWritev {
				for _, s := range o.Sz {
					if s == 0 {
						c.Count("writev_empty_slices", 1)
						break
					}
				}
			}
			if o.K == opFlush {
				c.Count("flush_checks", 1)
				if before < w.pos {
					c.Count("flush_released_pending", 1) // buffering really happened: Flush had something to push
				}
				if far := conn.farLog(); len(far) < w.pos && firstDiff(far, mc.stream[:w.pos], farOK) < 0 {
					fail("C17:flush-did-not-deliver", i, fmt.Sprintf("Flush returned nil but only %d of the %d bytes handed over are on the connection", len(far), w.pos),
						map[string]interface{}{"missing_from": excerpt(mc.stream[:w.pos], len(far))})
					return
				}
				if w.pos > 0 {
					flushedNonEmpty = true
				}
			}
		}
		if !checkFar(i) {
			return
		}
	}
	c.Count("bytes_written", int64(w.pos))
	c.Count("return_count_mismatch", int64(w.badRet))
	c.Max("max_conn_write_calls", int64(conn.nCalls()))

	// drain the read side to EOF with random buffer sizes
	rng := c.Rand("drain", idx)
	for idle := 0; !sawEOF; {
		n, ok := doRead(len(mc.ops), 1+rng.Intn(2*mc.eff))
		if !ok {
			return
		}
		if n == 0 && !sawEOF {
			if idle++; idle > 1000 {
				c.Inconclusive(id, "Read kept returning (0, nil) with a non-empty buffer while peer bytes were pending")
				return
			}
		} else {
			idle = 0
		}
	}
	if len(got) == len(mc.peer) { // (longer or different was flagged by checkRead)
		c.Count("read_streams_complete", 1)
	}

	// Close: not judged for delivery; the far log must stay a prefix.
	beforeClose := len(conn.farLog())
	_ = t.Close()
	if !checkFar(len(mc.ops)) {
		return
	}
	if beforeClose < w.pos && len(conn.farLog()) == w.pos {
		c.Count("close_flushed_pending", 1)
	}

	if flushedNonEmpty || len(mc.peer) > 0 {
		c.Sig(mc.Variant, mc.ReadSize, mc.WriteSize, mc.Frag, mc.EOFWithData, shape(mc.ops, mc.eff))
	}
	if c.WantSample() && len(mc.ops) >= 6 && len(mc.ops) <= 14 && flushedNonEmpty {
		c.Sample(mc)
	}
}
