package framecodec

import (
	"errors"
	"fmt"
	"io"
	"math/rand"
	"sort"

	"verif/mon"
)

// Terminal behaviours of the transport once the supplied bytes are exhausted.
const (
	TermEOF     = "eof"      // (0, io.EOF)
	TermErr     = "err"      // (0, plain error)
	TermNetErr  = "neterr"   // (0, a non-timeout net.Error): the channel closes itself on it
	TermDataEOF = "data+eof" // the last bytes arrive together with io.EOF (n>0, io.EOF)
)

// Terms lists the terminal behaviours.
var Terms = []string{TermEOF, TermErr, TermNetErr, TermDataEOF}

// ErrReset is the plain terminal error.
var ErrReset = errors.New("mock: connection reset by peer")

type netErr struct{}

func (netErr) Error() string   { return "mock: network is down" }
func (netErr) Timeout() bool   { return false }
func (netErr) Temporary() bool { return false }

// ErrNet is the terminal net.Error.
var ErrNet error = netErr{}

// Plan says how a byte stream is cut into transport reads.
type Plan struct {
	Kind  string
	Cuts  []int // step boundaries, 0 < cut < len(stream)
	Zeros []int // offsets at which the Read that would return this byte first returns (0, nil)
	Chunk int   // upper bound of bytes per Read call (0 = none)
	Term  string
}

func (p Plan) String() string {
	return fmt.Sprintf("%s(cuts=%d zeros=%d chunk=%d term=%s)", p.Kind, len(p.Cuts), len(p.Zeros), p.Chunk, p.Term)
}

// Detail is the JSON-friendly form (long cut lists are shortened).
func (p Plan) Detail() map[string]interface{} {
	cuts := append([]int{}, p.Cuts...)
	if len(cuts) > 64 {
		cuts = cuts[:64]
	}
	return map[string]interface{}{"kind": p.Kind, "cuts": cuts, "n_cuts": len(p.Cuts), "zero_reads_before_offsets": append([]int{}, p.Zeros...), "max_read_chunk": p.Chunk, "terminal": p.Term}
}

// Apply scripts the transport's read side with stream s under the plan.
func (p Plan) Apply(t *mon.RecTransport, s []byte) {
	set := map[int]bool{}
	for _, c := range p.Cuts {
		if c > 0 && c < len(s) {
			set[c] = true
		}
	}
	zero := map[int]bool{}
	for _, z := range p.Zeros {
		if z >= 0 && z < len(s) {
			zero[z] = true
			if z > 0 {
				set[z] = true
			}
		}
	}
	cuts := make([]int, 0, len(set)+1)
	for c := range set {
		cuts = append(cuts, c)
	}
	sort.Ints(cuts)
	cuts = append(cuts, len(s))
	prev := 0
	var steps []mon.ReadStep
	for _, c := range cuts {
		if c > prev {
			steps = append(steps, mon.ReadStep{Data: s[prev:c], Zero: zero[prev]})
			prev = c
		}
	}
	var term error
	switch p.Term {
	case TermErr:
		term = ErrReset
	case TermNetErr:
		term = ErrNet
	default:
		term = io.EOF
	}
	if p.Term == TermDataEOF && len(steps) > 0 {
		steps[len(steps)-1].WithErr = io.EOF
	}
	if p.Chunk > 0 {
		t.SetMaxReadChunk(p.Chunk)
	}
	t.Feed(steps...)
	t.SetTerminal(term)
}

// Span is the layout of one frame in a stream (see RFrame).
type Span struct{ Start, HdrEnd, End int }

// Spans converts reference frames (plus an incomplete tail) to a layout.
func Spans(frames []RFrame, tail Tail, n int) []Span {
	var sp []Span
	for _, f := range frames {
		sp = append(sp, Span{f.Start, f.HdrEnd, f.End})
	}
	if tail.Kind != TailEnd && tail.At < n {
		h := tail.HdrEnd
		if h < tail.At || h > n {
			h = n
		}
		sp = append(sp, Span{tail.At, h, n})
	}
	return sp
}

// PlanKinds lists the fragmentation kinds (the "zero" kind is drawn separately).
var PlanKinds = []string{"whole", "byte1", "hdr", "hdr-all", "body", "boundary", "straddle", "random", "chunk"}

// MakePlan draws a plan of the kind for a stream of n bytes with the layout.
// isDelim: the "header" of a span is the delimiter region [HdrEnd,End).
func MakePlan(kind string, rng *rand.Rand, n int, layout []Span, isDelim bool) Plan {
	p := Plan{Kind: kind, Term: TermEOF}
	hdr := func(s Span) (int, int) {
		if isDelim {
			return s.HdrEnd, s.End
		}
		return s.Start, s.HdrEnd
	}
	body := func(s Span) (int, int) {
		if isDelim {
			return s.Start, s.HdrEnd
		}
		return s.HdrEnd, s.End
	}
	switch kind {
	case "whole":
	case "byte1":
		p.Chunk = 1
	case "chunk":
		p.Chunk = []int{2, 3, 5, 7, 64}[rng.Intn(5)]
	case "hdr":
		// one cut strictly inside every header that has an inside; a one-byte header gets its own read
		for _, s := range layout {
			a, b := hdr(s)
			if b-a >= 2 {
				p.Cuts = append(p.Cuts, a+1+rng.Intn(b-a-1))
			} else {
				p.Cuts = append(p.Cuts, a, b)
			}
		}
	case "hdr-all":
		for _, s := range layout {
			a, b := hdr(s)
			for i := a; i <= b; i++ {
				p.Cuts = append(p.Cuts, i)
			}
		}
	case "body":
		for _, s := range layout {
			a, b := body(s)
			for k := 0; k < 1+rng.Intn(3) && b-a >= 2; k++ {
				p.Cuts = append(p.Cuts, a+1+rng.Intn(b-a-1))
			}
		}
	case "boundary":
		for _, s := range layout {
			p.Cuts = append(p.Cuts, s.Start)
		}
	case "straddle":
		// reads that begin in the middle of one frame and end in the middle of the next
		for _, s := range layout {
			a, b := body(s)
			if b-a >= 2 {
				p.Cuts = append(p.Cuts, a+1+rng.Intn(b-a-1))
			}
		}
	case "random", "zero":
		k := 0
		switch rng.Intn(3) {
		case 0:
			k = 1 + rng.Intn(3)
		case 1:
			k = 1 + n/8
		default:
			k = 1 + n/2
		}
		if k > 400 {
			k = 400
		}
		for i := 0; i < k && n > 1; i++ {
			p.Cuts = append(p.Cuts, 1+rng.Intn(n-1))
		}
		if kind == "zero" {
			// zero-length reads: in front of header bytes, body bytes and arbitrary places
			for _, s := range layout {
				a, b := hdr(s)
				if b > a && rng.Intn(2) == 0 {
					p.Zeros = append(p.Zeros, a+rng.Intn(b-a))
				}
				a, b = body(s)
				if b > a && rng.Intn(3) == 0 {
					p.Zeros = append(p.Zeros, a+rng.Intn(b-a))
				}
			}
			if n > 0 && len(p.Zeros) == 0 {
				p.Zeros = append(p.Zeros, rng.Intn(n))
			}
			sort.Ints(p.Zeros)
		}
	default:
		panic("framecodec: unknown plan kind " + kind)
	}
	sort.Ints(p.Cuts)
	return p
}

// ZeroInHeader reports whether a zero-length read is scheduled in front of a
// header byte of layout[0..upto] (varint only: that is where byte-wise reading happens).
func ZeroInHeader(p Plan, layout []Span, upto int) bool {
	for i, s := range layout {
		if i > upto {
			break
		}
		for _, z := range p.Zeros {
			if z >= s.Start && z < s.HdrEnd {
				return true
			}
		}
	}
	return false
}
