package framecodec

import (
	"errors"
	"fmt"
	"io"
	"runtime"
	"sync"
	"time"

	netty "github.com/go-netty/go-netty"
	"github.com/go-netty/go-netty/utils"

	"verif/mon"
)

// Trial is one decode run: a byte stream served to a real channel whose
// pipeline is [front probe, codec under test, collector, quiet tail].
type Trial struct {
	Cfg    Cfg
	Stream []byte
	Plan   Plan
	// StopAfter > 0: the collector closes the channel once that many messages were delivered.
	StopAfter int
	// ReadBuf is the size of the buffer the collector reads delivered messages with; -1 = the collector flattens the
	// message with utils.ToBytes, the way the shipped format codecs consume a frame.
	ReadBuf int
	// Wrap: run the channel on the library's transport wrapper NewTransport(conn, Wrap[0], Wrap[1]) around the scripted
	// transport. A read-buffering wrapper pulls ahead of the decoder, so transport offsets say nothing about what a
	// frame consumed: ContentOnly switches the offset-based bookkeeping (phantom detection) off.
	Wrap        *[2]int
	ContentOnly bool
	// Watchdog for the whole trial (default 20 s); expiry is inconclusive, never a verdict.
	Watchdog time.Duration
}

// PhantomLimit is the number of zero-consumption deliveries after which a trial is cut off.
const PhantomLimit = 3

// StallLimit is the number of consecutive read-loop iterations without any
// transport progress after which a trial is cut off (a silent spin).
const StallLimit = 16

// Msg is one message that reached the collector.
type Msg struct {
	Data   []byte
	Err    error  // nil: reading it to the end returned no error, i.e. it was delivered
	Type   string // dynamic type of the message
	IterIn int64  // transport read offset when the read-loop iteration producing it began
	OffIn  int64  // ... when the collector was entered
	OffOut int64  // ... after the message was read to its end
	// Phantom: delivered although the iteration consumed no source byte.
	Phantom bool
}

// Delivered reports whether the message counts as delivered.
func (m Msg) Delivered() bool { return m.Err == nil }

// Result is everything observed in a trial.
type Result struct {
	Msgs       []Msg
	Exceptions []error
	Inactive   int
	Iters      int
	MaxPull    int64 // most source bytes pulled in one read-loop iteration
	Forced     string
	Watchdog   bool
	FinalOff   int64
	BuildErr   string
}

// ErrStopped is the close reason used when the harness cuts a trial off.
var ErrStopped = errors.New("harness: trial cut off")

type probe struct {
	mu      sync.Mutex
	t       *mon.RecTransport
	res     *Result
	iterIn  int64
	lastIn  int64
	stall   int
	started bool
	trial   *Trial
	deliv   int
}

// front is the first inbound handler: it brackets every read-loop iteration.
type front struct{ p *probe }

func (f front) HandleRead(ctx netty.InboundContext, message netty.Message) {
	p := f.p
	in := p.t.ReadOffset()
	p.mu.Lock()
	p.res.Iters++
	if p.started && in == p.lastIn {
		p.stall++
	} else {
		p.stall = 0
	}
	p.started, p.lastIn, p.iterIn = true, in, in
	spin := p.stall >= StallLimit
	if spin {
		p.res.Forced = "spin"
	}
	p.mu.Unlock()
	if spin {
		ctx.Channel().Close(ErrStopped)
		return
	}
	defer func() {
		out := p.t.ReadOffset()
		p.mu.Lock()
		if out-in > p.res.MaxPull {
			p.res.MaxPull = out - in
		}
		p.mu.Unlock()
	}()
	ctx.HandleRead(message)
}

// collector is the inbound handler behind the codec: it reads every delivered
// message to its end, the way the property texts define "a frame".
type collector struct{ p *probe }

func (c collector) HandleRead(ctx netty.InboundContext, message netty.Message) {
	p := c.p
	m := Msg{Type: fmt.Sprintf("%T", message), OffIn: p.t.ReadOffset()}
	r, ok := message.(io.Reader)
	if !ok {
		m.Err = fmt.Errorf("harness: message of type %T is not an io.Reader", message)
	} else if p.trial.ReadBuf == -1 {
		m.Data, m.Err = utils.ToBytes(message)
	} else {
		m.Data, m.Err = readToEnd(r, p.trial.ReadBuf)
	}
	m.OffOut = p.t.ReadOffset()
	p.mu.Lock()
	m.IterIn = p.iterIn
	stop := ""
	if m.Err == nil {
		p.deliv++
		if m.OffOut == m.IterIn && !p.trial.ContentOnly {
			m.Phantom = true
			n := 0
			for _, o := range p.res.Msgs {
				if o.Phantom {
					n++
				}
			}
			if n+1 >= PhantomLimit {
				stop = "phantom"
			}
		}
		if stop == "" && p.trial.StopAfter > 0 && p.deliv >= p.trial.StopAfter {
			stop = "done"
		}
	}
	p.res.Msgs = append(p.res.Msgs, m)
	if stop != "" {
		p.res.Forced = stop
	}
	p.mu.Unlock()
	if stop != "" {
		ctx.Channel().Close(ErrStopped)
		return
	}
	if m.Err != nil {
		// raise a read error the way the shipped codecs do
		panic(m.Err)
	}
}

// errNoProgress: the delivered reader kept returning (0, nil).
var errNoProgress = errors.New("harness: delivered reader makes no progress")

func readToEnd(r io.Reader, bufSize int) ([]byte, error) {
	if bufSize <= 0 {
		bufSize = 512
	}
	buf := make([]byte, bufSize)
	var out []byte
	idle := 0
	for {
		n, err := r.Read(buf)
		out = append(out, buf[:n]...)
		if err == io.EOF {
			return out, nil
		}
		if err != nil {
			return out, err
		}
		if n == 0 {
			if idle++; idle > 64 {
				return out, errNoProgress
			}
		} else {
			idle = 0
		}
	}
}

// Run executes a trial.
func Run(t Trial) (res *Result) {
	res = &Result{}
	tr := mon.NewRecTransport()
	t.Plan.Apply(tr, t.Stream)
	p := &probe{t: tr, res: res, trial: &t}
	var cd netty.Handler
	func() {
		defer func() {
			if e := recover(); e != nil {
				res.BuildErr = fmt.Sprint(e)
			}
		}()
		cd = t.Cfg.New()
	}()
	if cd == nil {
		return res
	}
	rig := mon.NewRig(mon.RigOpts{Mode: mon.Sync, Handlers: []netty.Handler{front{p}, cd, collector{p}},
		NoPark: true, QuietTail: true, Tr: tr, NoHooks: true, Wrap: t.Wrap})
	wd := t.Watchdog
	if wd == 0 {
		wd = 20 * time.Second
	}
	ok := rig.Ex.WaitOutstanding(0, wd)
	rig.Dispose()
	p.mu.Lock()
	defer p.mu.Unlock()
	res.Watchdog = !ok
	exc, inact := rig.Tail.Snapshot()
	res.Exceptions = exc
	res.Inactive = len(inact)
	res.FinalOff = tr.ReadOffset()
	return res
}

// RuntimeFault returns the first exception that is a runtime.Error (index, slice, nil dereference ...).
func (r *Result) RuntimeFault() error {
	for _, e := range r.Exceptions {
		var re runtime.Error
		if errors.As(e, &re) {
			return e
		}
	}
	return nil
}

// DeliveredMsgs returns the delivered messages; phantom ones are listed apart.
func (r *Result) DeliveredMsgs() (real []Msg, phantoms []Msg, failed []Msg) {
	for _, m := range r.Msgs {
		switch {
		case m.Err != nil:
			failed = append(failed, m)
		case m.Phantom:
			phantoms = append(phantoms, m)
		default:
			real = append(real, m)
		}
	}
	return
}

// ErrStrings renders errors for replay details.
func ErrStrings(es []error) []string {
	out := make([]string, 0, len(es))
	for _, e := range es {
		s := fmt.Sprintf("%T: %v", e, e)
		if len(s) > 200 {
			s = s[:200]
		}
		out = append(out, s)
	}
	return out
}

// Hex renders at most n bytes.
func Hex(b []byte, n int) string {
	if len(b) <= n {
		return fmt.Sprintf("%x", b)
	}
	return fmt.Sprintf("%x...(%d bytes)", b[:n], len(b))
}
