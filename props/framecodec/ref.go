// Package framecodec holds what the frame-codec checks (C04, C08) share: an
// independent reference model of every frame wire format (encoders and a
// total decoder that classifies the end of any byte stream), fragmentation
// plans for the recording transport, and the harness that drives a real
// channel (transport -> codec under test -> collector reading every delivered
// message to its end).
package framecodec

import (
	"bytes"
	"encoding/binary"
	"fmt"
	"math"

	"github.com/go-netty/go-netty/codec"
	"github.com/go-netty/go-netty/codec/frame"
)

// Decoder kinds.
const (
	LF     = "length-field"
	Varint = "varint"
	Delim  = "delimiter"
	Fixed  = "fixed-length"
)

// Cfg is one decoder configuration.
type Cfg struct {
	Kind string
	// length field
	Big                          bool
	Width, Offset, Adjust, Strip int
	// Max is maxFrameLength (lf: whole frame incl. header; varint: body; delimiter: body+delimiter).
	Max int
	// delimiter
	Delim      string
	StripDelim bool
	// fixed
	Fixed int
}

func (c Cfg) order() binary.ByteOrder {
	if c.Big {
		return binary.BigEndian
	}
	return binary.LittleEndian
}

// OrderName is "BE" or "LE".
func (c Cfg) OrderName() string {
	if c.Big {
		return "BE"
	}
	return "LE"
}

// New builds the library codec for the configuration.
func (c Cfg) New() codec.Codec {
	switch c.Kind {
	case LF:
		return frame.LengthFieldCodec(c.order(), c.Max, c.Offset, c.Width, c.Adjust, c.Strip)
	case Varint:
		return frame.VarintLengthFieldCodec(c.Max)
	case Delim:
		return frame.DelimiterCodec(c.Max, c.Delim, c.StripDelim)
	case Fixed:
		return frame.FixedLengthCodec(c.Fixed)
	}
	panic("framecodec: unknown kind " + c.Kind)
}

// Hdr is the number of bytes in front of the body that the decoder must read before it knows the length.
func (c Cfg) Hdr() int {
	if c.Kind == LF {
		return c.Offset + c.Width
	}
	return 0
}

// Bound is the most source bytes one frame may pull: maximum (or fixed size) plus header.
func (c Cfg) Bound() int64 {
	switch c.Kind {
	case LF:
		return int64(c.Max) + int64(c.Hdr())
	case Varint:
		return int64(c.Max) + 10
	case Delim:
		return int64(c.Max) + int64(len(c.Delim))
	}
	return int64(c.Fixed)
}

func (c Cfg) String() string {
	switch c.Kind {
	case LF:
		return fmt.Sprintf("LengthFieldCodec(%s,max=%d,off=%d,width=%d,adj=%d,strip=%d)", c.OrderName(), c.Max, c.Offset, c.Width, c.Adjust, c.Strip)
	case Varint:
		return fmt.Sprintf("VarintLengthFieldCodec(max=%d)", c.Max)
	case Delim:
		return fmt.Sprintf("DelimiterCodec(max=%d,delim=%q,strip=%v)", c.Max, c.Delim, c.StripDelim)
	}
	return fmt.Sprintf("FixedLengthCodec(%d)", c.Fixed)
}

// Shape identifies the configuration up to the maximum (for signatures).
func (c Cfg) Shape() string {
	switch c.Kind {
	case LF:
		st := "0"
		if c.Strip == c.Hdr() {
			st = "hdr"
		} else if c.Strip > c.Hdr() {
			st = "hdr+"
		} else if c.Strip > 0 {
			st = "part"
		}
		return fmt.Sprintf("lf/%s/w%d/o%d/a%d/s%s", c.OrderName(), c.Width, c.Offset, c.Adjust, st)
	case Varint:
		return "varint"
	case Delim:
		return fmt.Sprintf("delim/%q/%v", c.Delim, c.StripDelim)
	}
	return fmt.Sprintf("fixed/%d", c.Fixed)
}

// ---- integers (own loops; nothing from the library) ------------------------

// FieldCap is the largest value a length field of the width can carry and a
// decoder accepts (an 8-byte field with the top bit set is negative).
func FieldCap(width int) uint64 {
	if width >= 8 {
		return math.MaxInt64
	}
	return uint64(1)<<(8*uint(width)) - 1
}

// PutUint renders v in width bytes (truncating like a C cast when it does not fit).
func PutUint(big bool, width int, v uint64) []byte {
	b := make([]byte, width)
	for i := 0; i < width; i++ {
		by := byte(v >> (8 * uint(i)))
		if big {
			b[width-1-i] = by
		} else {
			b[i] = by
		}
	}
	return b
}

// GetUint reads an unsigned integer of len(b) bytes.
func GetUint(big bool, b []byte) uint64 {
	var v uint64
	for i := range b {
		by := b[i]
		if big {
			v = v<<8 | uint64(by)
		} else {
			v |= uint64(by) << (8 * uint(i))
		}
	}
	return v
}

// PutUvarint renders v as a base-128 varint.
func PutUvarint(v uint64) []byte {
	var b []byte
	for v >= 0x80 {
		b = append(b, byte(v)|0x80)
		v >>= 7
	}
	return append(b, byte(v))
}

// uvarint status
const (
	uvOK = iota
	uvTruncated
	uvOverflow
)

func getUvarint(s []byte) (v uint64, n int, st int) {
	var shift uint
	for i, b := range s {
		if i == 10 {
			return 0, i, uvOverflow
		}
		if b < 0x80 {
			if i == 9 && b > 1 {
				return 0, i + 1, uvOverflow
			}
			return v | uint64(b)<<shift, i + 1, uvOK
		}
		v |= uint64(b&0x7f) << shift
		shift += 7
	}
	if len(s) >= 10 {
		return 0, 10, uvOverflow
	}
	return 0, len(s), uvTruncated
}

// ---- reference encoder (decoder side: what a peer would put on the wire) ---

// Frame builds the wire bytes of one frame whose content after the header is
// body (lf: pre = the Offset bytes in front of the length field). ok is false
// when the configuration's contract does not admit the frame.
func (c Cfg) Frame(pre, body []byte) (wire []byte, ok bool) {
	switch c.Kind {
	case LF:
		if len(pre) != c.Offset {
			return nil, false
		}
		v := int64(len(body)) - int64(c.Adjust)
		total := c.Hdr() + len(body)
		if v < 0 || uint64(v) > FieldCap(c.Width) || total > c.Max || c.Strip > total {
			return nil, false
		}
		wire = append(wire, pre...)
		wire = append(wire, PutUint(c.Big, c.Width, uint64(v))...)
		return append(wire, body...), true
	case Varint:
		if len(body) > c.Max {
			return nil, false
		}
		return append(PutUvarint(uint64(len(body))), body...), true
	case Delim:
		wire = append(append(wire, body...), c.Delim...)
		if len(wire) > c.Max || bytes.Index(wire, []byte(c.Delim)) != len(body) {
			return nil, false
		}
		return wire, true
	case Fixed:
		if len(body) != c.Fixed {
			return nil, false
		}
		return append(wire, body...), true
	}
	return nil, false
}

// Delivered is what the decoder must hand downstream for a complete frame.
func (c Cfg) Delivered(wire []byte) []byte {
	switch c.Kind {
	case LF:
		return wire[c.Strip:]
	case Varint:
		_, n, _ := getUvarint(wire)
		return wire[n:]
	case Delim:
		if c.StripDelim {
			return wire[:len(wire)-len(c.Delim)]
		}
	}
	return wire
}

// ---- reference decoder: total function over any byte string ----------------

// RFrame is one complete frame found by the reference decoder.
type RFrame struct {
	Start, HdrEnd, End int // [Start,HdrEnd) header (delimiter: [HdrEnd,End) is the delimiter)
	Out                []byte
}

// Tail kinds: how the byte string ends after the last complete frame.
const (
	TailEnd       = "end"          // nothing left
	TailTruncHdr  = "trunc-header" // bytes left, not enough to know the length / no delimiter yet
	TailTruncBody = "trunc-body"   // valid header, declared length exceeds what was supplied
	TailReject    = "reject"       // header is invalid for the configuration
)

// Tail describes what follows the last complete frame.
type Tail struct {
	Kind     string
	At       int    // offset where the incomplete / invalid frame starts
	HdrEnd   int    // end of its header (if known)
	Declared int64  // declared total frame length incl. header (trunc-body, reject when computable)
	Why      string // reject reason: negative | below-header | oversized | strip-exceeds-frame | varint-overflow
}

// RefDecode parses s the way a correct decoder for c must: complete frames in
// order, then the classification of whatever is left.
func RefDecode(c Cfg, s []byte) (frames []RFrame, tail Tail) {
	p := 0
	for {
		if p == len(s) {
			return frames, Tail{Kind: TailEnd, At: p, HdrEnd: p}
		}
		rest := s[p:]
		switch c.Kind {
		case LF:
			hdr := c.Hdr()
			if len(rest) < hdr {
				return frames, Tail{Kind: TailTruncHdr, At: p, HdrEnd: len(s)}
			}
			v := GetUint(c.Big, rest[c.Offset:hdr])
			rej := func(why string, decl int64) ([]RFrame, Tail) {
				return frames, Tail{Kind: TailReject, At: p, HdrEnd: p + hdr, Declared: decl, Why: why}
			}
			if c.Width == 8 && v > math.MaxInt64 {
				return rej("negative", -1)
			}
			if v > 1<<56 { // far beyond any maximum used here; avoids overflow below
				return rej("oversized", math.MaxInt64)
			}
			total := int64(v) + int64(c.Adjust) + int64(hdr)
			switch {
			case total < int64(hdr):
				return rej("below-header", total)
			case total > int64(c.Max):
				return rej("oversized", total)
			case int64(c.Strip) > total:
				return rej("strip-exceeds-frame", total)
			}
			if total > int64(len(rest)) {
				return frames, Tail{Kind: TailTruncBody, At: p, HdrEnd: p + hdr, Declared: total}
			}
			e := p + int(total)
			frames = append(frames, RFrame{p, p + hdr, e, s[p+c.Strip : e]})
			p = e
		case Varint:
			v, n, st := getUvarint(rest)
			if st == uvTruncated {
				return frames, Tail{Kind: TailTruncHdr, At: p, HdrEnd: len(s)}
			}
			if st == uvOverflow {
				return frames, Tail{Kind: TailReject, At: p, HdrEnd: p + n, Why: "varint-overflow"}
			}
			if v > uint64(c.Max) {
				return frames, Tail{Kind: TailReject, At: p, HdrEnd: p + n, Why: "oversized", Declared: clampI64(v)}
			}
			if int(v) > len(rest)-n {
				return frames, Tail{Kind: TailTruncBody, At: p, HdrEnd: p + n, Declared: int64(v) + int64(n)}
			}
			e := p + n + int(v)
			frames = append(frames, RFrame{p, p + n, e, s[p+n : e]})
			p = e
		case Delim:
			d := []byte(c.Delim)
			i := bytes.Index(rest, d)
			if i < 0 {
				if len(rest) > c.Max+len(d) {
					return frames, Tail{Kind: TailReject, At: p, HdrEnd: p, Why: "oversized", Declared: int64(len(rest))}
				}
				return frames, Tail{Kind: TailTruncHdr, At: p, HdrEnd: p}
			}
			if i > c.Max { // permissive: a body of up to Max bytes is tolerated
				return frames, Tail{Kind: TailReject, At: p, HdrEnd: p, Why: "oversized", Declared: int64(i + len(d))}
			}
			e := p + i + len(d)
			out := s[p:e]
			if c.StripDelim {
				out = s[p : p+i]
			}
			frames = append(frames, RFrame{p, p + i, e, out})
			p = e
		case Fixed:
			if len(rest) < c.Fixed {
				return frames, Tail{Kind: TailTruncBody, At: p, HdrEnd: p, Declared: int64(c.Fixed)}
			}
			e := p + c.Fixed
			frames = append(frames, RFrame{p, p, e, s[p:e]})
			p = e
		default:
			panic("framecodec: unknown kind")
		}
	}
}

func clampI64(v uint64) int64 {
	if v > math.MaxInt64 {
		return math.MaxInt64
	}
	return int64(v)
}
