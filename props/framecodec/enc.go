package framecodec

import (
	"bufio"
	"bytes"
	"fmt"
	"io"
	"io/ioutil"
	"math/rand"
	"strings"
	"sync"
	"time"

	netty "github.com/go-netty/go-netty"
	"github.com/go-netty/go-netty/codec/frame"

	"verif/mon"
)

// Enc is one encoder configuration.
type Enc struct {
	// Kind: LF (the codec's built-in encoder), "prepender", Varint, Delim, Fixed.
	Kind  string
	Big   bool
	Width int
	// prepender
	Adjust   int
	Includes bool
	// Max (varint, delimiter; lf codec construction)
	Max   int
	Delim string
	Fixed int
}

// Prepender is the kind of the stand-alone length prepender.
const Prepender = "prepender"

func (e Enc) cfg() Cfg {
	return Cfg{Kind: e.Kind, Big: e.Big, Width: e.Width, Max: e.Max, Delim: e.Delim, Fixed: e.Fixed}
}

func (e Enc) String() string {
	switch e.Kind {
	case Prepender:
		return fmt.Sprintf("LengthFieldPrepender(%s,width=%d,adj=%d,includes=%v)", e.cfg().OrderName(), e.Width, e.Adjust, e.Includes)
	case LF:
		return fmt.Sprintf("LengthFieldCodec(%s,max=%d,off=0,width=%d,adj=0,strip=0).HandleWrite", e.cfg().OrderName(), e.Max, e.Width)
	}
	return e.cfg().String() + ".HandleWrite"
}

// Shape for signatures.
func (e Enc) Shape() string {
	switch e.Kind {
	case Prepender:
		return fmt.Sprintf("prep/%s/w%d/a%d/i%v", e.cfg().OrderName(), e.Width, e.Adjust, e.Includes)
	case LF:
		return fmt.Sprintf("lfenc/%s/w%d", e.cfg().OrderName(), e.Width)
	}
	return "enc/" + e.cfg().Shape()
}

// Handler builds the library handler.
func (e Enc) Handler() netty.Handler {
	if e.Kind == Prepender {
		return frame.LengthFieldPrepender(e.cfg().order(), e.Width, e.Adjust, e.Includes)
	}
	return e.cfg().New()
}

// HeaderValue is the value the configuration defines for the length header of
// a payload of n bytes, and whether the field can carry it.
func (e Enc) HeaderValue(n int) (v int64, fits bool) {
	v = int64(n)
	if e.Kind == Prepender {
		v += int64(e.Adjust)
		if e.Includes {
			v += int64(e.Width)
		}
	}
	return v, v >= 0 && uint64(v) <= FieldCap(e.Width)
}

// Expect is the frame the encoder must emit for payload p; admitted is false
// when the contract does not admit p (then the encoder must fail and emit nothing).
func (e Enc) Expect(p []byte) (wire []byte, admitted bool) {
	switch e.Kind {
	case LF, Prepender:
		v, fits := e.HeaderValue(len(p))
		if !fits {
			return nil, false
		}
		return append(PutUint(e.Big, e.Width, uint64(v)), p...), true
	case Varint:
		if len(p) > e.Max {
			return nil, false
		}
		return append(PutUvarint(uint64(len(p))), p...), true
	case Delim:
		return append(append([]byte{}, p...), e.Delim...), true
	}
	return append([]byte{}, p...), true
}

// Paired is the decoder configuration that undoes the encoder and hands the bare payload downstream.
func (e Enc) Paired(max int) Cfg {
	switch e.Kind {
	case LF:
		return Cfg{Kind: LF, Big: e.Big, Width: e.Width, Max: max, Strip: e.Width}
	case Prepender:
		adj := -e.Adjust
		if e.Includes {
			adj -= e.Width
		}
		return Cfg{Kind: LF, Big: e.Big, Width: e.Width, Max: max, Adjust: adj, Strip: e.Width}
	case Varint:
		return Cfg{Kind: Varint, Max: max}
	case Delim:
		return Cfg{Kind: Delim, Max: max, Delim: e.Delim, StripDelim: true}
	}
	return Cfg{Kind: Fixed, Fixed: e.Fixed}
}

// ---- carriers --------------------------------------------------------------

// Carriers are the message types an encoder must accept.
var Carriers = []string{"[]byte", "string", "*bytes.Buffer", "*bytes.Reader", "*strings.Reader", "io.Reader", "io.Reader(data+EOF)", "[][]byte", "*bytes.Reader(part-read)",
	"*bufio.Reader(small buffer)", "io.MultiReader"}

// plainReader is an io.Reader and nothing else (no WriterTo, no Len).
type plainReader struct {
	b       []byte
	chunk   int
	dataEOF bool
}

func (r *plainReader) Read(p []byte) (int, error) {
	if len(r.b) == 0 {
		return 0, io.EOF
	}
	n := len(r.b)
	if n > len(p) {
		n = len(p)
	}
	if r.chunk > 0 && n > r.chunk {
		n = r.chunk
	}
	copy(p, r.b[:n])
	r.b = r.b[n:]
	if len(r.b) == 0 && r.dataEOF {
		return n, io.EOF
	}
	return n, nil
}

// Carry wraps payload p (copied) in the carrier type.
func Carry(kind string, p []byte, rng *rand.Rand) interface{} {
	c := append([]byte{}, p...)
	switch kind {
	case "[]byte":
		return c
	case "string":
		return string(c)
	case "*bytes.Buffer":
		return bytes.NewBuffer(c)
	case "*bytes.Reader":
		return bytes.NewReader(c)
	case "*strings.Reader":
		return strings.NewReader(string(c))
	case "io.Reader":
		return &plainReader{b: c, chunk: []int{0, 1, 7, 1000}[rng.Intn(4)]}
	case "io.Reader(data+EOF)":
		return &plainReader{b: c, chunk: []int{0, 3, 600}[rng.Intn(3)], dataEOF: true}
	case "[][]byte":
		var parts [][]byte
		for len(c) > 0 {
			k := 1 + rng.Intn(len(c))
			parts = append(parts, c[:k:k])
			c = c[k:]
			if len(parts) == 3 {
				parts = append(parts, c)
				break
			}
		}
		if parts == nil {
			parts = [][]byte{{}}
		}
		return parts
	case "*bufio.Reader(small buffer)":
		// an io.WriterTo that hands its content over in several Write calls from one reused buffer
		return bufio.NewReaderSize(&plainReader{b: c, chunk: []int{0, 5, 1000}[rng.Intn(3)]}, 16)
	case "io.MultiReader":
		a := 0
		if len(c) > 0 {
			a = rng.Intn(len(c) + 1)
		}
		return io.MultiReader(bytes.NewReader(c[:a]), &plainReader{b: c[a:], chunk: []int{0, 3, 600}[rng.Intn(3)]})
	case "*bytes.Reader(part-read)":
		junk := make([]byte, 1+rng.Intn(5))
		r := bytes.NewReader(append(junk, c...))
		io.ReadFull(r, junk)
		return r
	}
	panic("framecodec: unknown carrier " + kind)
}

// ---- encoder rig -----------------------------------------------------------

// Emission is one message the codec passed to the next outbound handler.
type Emission struct {
	Type  string
	Bytes []byte
	Err   string // flattening failed / unsupported type
}

type capture struct {
	mu  sync.Mutex
	out []Emission
}

func (c *capture) HandleWrite(ctx netty.OutboundContext, message netty.Message) {
	em := Emission{Type: fmt.Sprintf("%T", message)}
	switch m := message.(type) {
	case []byte:
		em.Bytes = append([]byte{}, m...)
	case [][]byte:
		for _, b := range m {
			em.Bytes = append(em.Bytes, b...)
		}
	case string:
		em.Bytes = []byte(m)
	case io.Reader:
		b, err := ioutil.ReadAll(m)
		em.Bytes = b
		if err != nil {
			em.Err = err.Error()
		}
	default:
		em.Err = "not a byte carrier"
	}
	c.mu.Lock()
	c.out = append(c.out, em)
	c.mu.Unlock()
	// not forwarded: "the bytes passed to the next outbound handler" are the observation
}

type excRec struct {
	mu  sync.Mutex
	exc []error
}

func (e *excRec) HandleException(ctx netty.ExceptionContext, ex netty.Exception) {
	e.mu.Lock()
	e.exc = append(e.exc, ex)
	e.mu.Unlock()
	// swallowed: the channel stays open for the next write
}

// EncRig is a real channel whose pipeline is [capture, encoder under test, exception recorder].
type EncRig struct {
	rig *mon.Rig
	cap *capture
	exc *excRec
}

// NewEncRig builds the rig; the error is a constructor panic.
func NewEncRig(e Enc) (r *EncRig, err error) {
	defer func() {
		if p := recover(); p != nil {
			err = fmt.Errorf("%v", p)
		}
	}()
	h := e.Handler()
	r = &EncRig{cap: &capture{}, exc: &excRec{}}
	r.rig = mon.NewRig(mon.RigOpts{Mode: mon.Sync, Handlers: []netty.Handler{r.cap, h, r.exc}, NoHooks: true})
	return r, nil
}

// Write sends one message through the encoder and returns what it emitted and raised.
func (r *EncRig) Write(msg interface{}) (em []Emission, exc []error, werr error) {
	werr = r.rig.Ch.Write(msg)
	r.cap.mu.Lock()
	em, r.cap.out = r.cap.out, nil
	r.cap.mu.Unlock()
	r.exc.mu.Lock()
	exc, r.exc.exc = r.exc.exc, nil
	r.exc.mu.Unlock()
	return
}

// Close disposes of the channel.
func (r *EncRig) Close() { r.rig.Dispose() }

// WireRig is a real channel whose pipeline is [encoder under test, exception recorder]: what the encoder emits travels
// through the head handler and the channel's write path to the recording transport. On a queued channel the background
// sender is held back until Finish, so everything the encoder handed over sits in the write queue meanwhile.
type WireRig struct {
	rig *mon.Rig
	exc *excRec
}

// NewWireRig builds the rig (mode Sync or Blocking).
func NewWireRig(e Enc, mode mon.Mode, q int, wrap *[2]int) (r *WireRig, err error) {
	defer func() {
		if p := recover(); p != nil {
			err = fmt.Errorf("%v", p)
		}
	}()
	h := e.Handler()
	r = &WireRig{exc: &excRec{}}
	var plan []mon.Step
	if mode != mon.Sync {
		plan = []mon.Step{{At: "x1", Occ: 1, Kind: mon.Gate, Until: "go", UntilCount: 1, Timeout: 30 * time.Millisecond}}
	}
	r.rig = mon.NewRig(mon.RigOpts{Mode: mode, Queue: q, Handlers: []netty.Handler{h, r.exc}, Plan: plan, Wrap: wrap})
	return r, nil
}

// Write sends one message through the encoder.
func (r *WireRig) Write(msg interface{}) error { return r.rig.Ch.Write(msg) }

// ExcCount is the number of exceptions seen so far (a refused message raises one).
func (r *WireRig) ExcCount() int {
	r.exc.mu.Lock()
	defer r.exc.mu.Unlock()
	return len(r.exc.exc)
}

// Finish releases the sender, waits for quiescence and returns the wire and the exceptions seen.
func (r *WireRig) Finish() (wire []byte, exc []error, ok bool) {
	r.rig.S.Mark("go")
	ok = r.rig.Ex.WaitOutstanding(1, 10*time.Second)
	wire = r.rig.T.Wire()
	r.exc.mu.Lock()
	exc = r.exc.exc
	r.exc.mu.Unlock()
	r.rig.Dispose()
	return
}
