package framecodec

import (
	"bytes"
	"fmt"
	"math/rand"
)

// LFShapes enumerates widths x orders x offsets x adjustments x strips
// (Max is left 0; the caller picks it per stream).
func LFShapes() []Cfg {
	var out []Cfg
	for _, w := range []int{1, 2, 4, 8} {
		for _, big := range []bool{true, false} {
			for _, off := range []int{0, 1, 3} {
				for _, adj := range []int{-w, -2, 0, 2, 7} {
					if adj == -2 && w == 2 {
						adj = -1 // -width already covers -2 for width 2
					}
					for _, st := range []int{0, off + w, off + w + 1} {
						out = append(out, Cfg{Kind: LF, Big: big, Width: w, Offset: off, Adjust: adj, Strip: st})
					}
				}
			}
		}
	}
	return out
}

// Delims are the delimiters used (single byte, CRLF, multi-byte, self-overlapping, NUL).
var Delims = []string{"\n", "\r\n", "ab", "aab", "\x00", "END", "abab"}

// FixedSizes are the fixed frame lengths used.
var FixedSizes = []int{1, 2, 3, 8, 255, 256, 1024, 4097}

// Lens is the palette of body lengths: 0, 1, field-capacity edges, pool size
// classes / streaming-chunk edges.
var Lens = []int{0, 1, 2, 3, 7, 8, 9, 15, 16, 17, 100, 127, 128, 129, 253, 254, 255, 256, 257, 258, 511, 512, 513,
	1023, 1024, 1025, 2047, 2048, 2049, 4095, 4096, 4097, 16383, 16384, 16385, 32767, 32768, 32769,
	65533, 65534, 65535, 65536, 65537, 65538}

// SmallLens are the cheap ones.
var SmallLens = []int{0, 1, 2, 3, 5, 8, 13, 16, 17, 31, 64, 100}

// LenClass names the equivalence class of a body length for signatures.
func LenClass(n int) string {
	switch {
	case n <= 3:
		return fmt.Sprint(n)
	case n < 127:
		return "small"
	case n <= 129:
		return fmt.Sprintf("128%+d", n-128)
	case n < 253:
		return "mid"
	case n <= 258:
		return fmt.Sprintf("256%+d", n-256)
	}
	for _, e := range []int{512, 1024, 2048, 4096, 16384, 32768, 65536, 131072} {
		if n >= e-3 && n <= e+3 {
			return fmt.Sprintf("%d%+d", e, n-e)
		}
	}
	return "large"
}

// Bytes draws n random bytes (every value occurs; runs of 0x00/0xff/0x80 are mixed in so
// that body bytes look like headers and varint continuations).
func Bytes(rng *rand.Rand, n int) []byte {
	b := make([]byte, n)
	rng.Read(b)
	if n > 0 && rng.Intn(3) == 0 {
		v := []byte{0x00, 0xff, 0x80, 0x0a}[rng.Intn(4)]
		k := rng.Intn(n)
		for i := k; i < n && i < k+12; i++ {
			b[i] = v
		}
	}
	return b
}

// DelimBody draws a body the delimiter contract admits: the delimiter's last
// byte never occurs in it (so the first occurrence of the delimiter in
// body+delimiter is the appended one), while its other bytes do occur, to
// exercise partial matches.
func DelimBody(rng *rand.Rand, n int, delim string) []byte {
	last := delim[len(delim)-1]
	b := Bytes(rng, n)
	for i := range b {
		if n > 0 && rng.Intn(4) == 0 {
			b[i] = delim[rng.Intn(len(delim))]
		}
		for b[i] == last {
			b[i] = byte(rng.Intn(256))
		}
	}
	if bytes.Index(append(append([]byte{}, b...), delim...), []byte(delim)) != n {
		panic("framecodec: DelimBody produced an inadmissible body")
	}
	return b
}

// BodyRange is the range of body lengths (bytes after the header) the
// configuration can express, ignoring the maximum.
func (c Cfg) BodyRange() (lo, hi int) {
	lo, hi = 0, 1<<30
	switch c.Kind {
	case LF:
		if c.Adjust > lo {
			lo = c.Adjust
		}
		if c.Strip-c.Hdr() > lo {
			lo = c.Strip - c.Hdr()
		}
		if c.Width <= 2 {
			hi = int(FieldCap(c.Width)) + c.Adjust
		}
	case Fixed:
		lo, hi = c.Fixed, c.Fixed
	}
	return
}

// RandFrame builds one admitted frame with a body of n bytes (clamped to BodyRange).
func (c Cfg) RandFrame(rng *rand.Rand, n int) (wire []byte, ok bool) {
	lo, hi := c.BodyRange()
	if n < lo {
		n = lo
	}
	if n > hi {
		n = hi
	}
	switch c.Kind {
	case LF:
		return c.Frame(Bytes(rng, c.Offset), Bytes(rng, n))
	case Delim:
		return c.Frame(nil, DelimBody(rng, n, c.Delim))
	}
	return c.Frame(nil, Bytes(rng, n))
}
