package c19

import (
	"bytes"
	"context"
	"fmt"
	"runtime"
	"testing/iotest"
	"time"
	"unsafe"

	"github.com/go-netty/go-netty/utils/pool/pbytes"

	"verif/core"
	"verif/mon"
)

// runChannelBatches: the library's own heaviest pool user is the queued channel (copies go in at the write
// call, the sender puts them back batch by batch). After batches of mixed size classes went through a channel,
// the pool's guarantees are checked on its public API: capacity >= n and no buffer handed out twice.
func runChannelBatches(c *core.Ctx) {
	total := c.Scale(24, 480)
	for i := 0; i < total; i++ {
		if !c.Mine(i) {
			continue
		}
		id := fmt.Sprintf("chan%d", i)
		if !c.Case(id) {
			continue
		}
		rng := c.Rand("chan", i)
		old := runtime.GOMAXPROCS(1) // one P: what the sender puts back is what the next Get sees
		runtime.GC()
		runtime.GC() // start from empty pools
		plan := []mon.Step{{At: "x1", Occ: 1, Kind: mon.Gate, Until: "go", UntilCount: 1, Timeout: 3 * time.Second}}
		q := []int{4, 8, 16}[rng.Intn(3)]
		mode := mon.Blocking
		if i%2 == 1 {
			mode = mon.NonBlock // the queue fills up while the sender is late: further writes are refused
		}
		rig := mon.NewRig(mon.RigOpts{Mode: mode, Queue: q, Plan: plan, QuietTail: true})
		sizes := []int{1500, 700, 300, 3000, 1024, 100}
		n := 2 + rng.Intn(q-1)
		if mode == mon.NonBlock {
			n = q
		}
		var used []int
		// the application holds pooled buffers of its own and writes empty slices of them (capacity = a pool class)
		var own []*[]byte
		for k := 0; k < n; k++ {
			s := sizes[rng.Intn(len(sizes))]
			if rng.Intn(4) == 0 {
				o := pbytes.Get([]int{1024, 2048, 4096}[rng.Intn(3)])
				own = append(own, o)
				used = append(used, 0)
				switch rng.Intn(3) {
				case 0:
					rig.Ch.Write1((*o)[:0])
				case 1:
					rig.Ch.Write((*o)[:0])
				default:
					rig.Ch.Writev([][]byte{(*o)[:0]})
				}
				c.Count("channel_empty_writes_from_pooled_buffers", 1)
				continue
			}
			used = append(used, s)
			switch rng.Intn(5) {
			case 0:
				// ReadFrom hands its pooled chunk over without a copy - also when the reader returns its last data with io.EOF
				rig.Ch.ReadFrom(iotest.DataErrReader(bytes.NewReader(mon.Payload(1, k, s))))
			case 1:
				rig.Ch.ReadFrom(bytes.NewReader(mon.Payload(1, k, s)))
			default:
				rig.Ch.Write1(mon.Payload(1, k, s))
			}
		}
		if mode == mon.NonBlock {
			// refused calls through every entry point that takes or hands over a pooled buffer
			cancelled, cancel := context.WithCancel(context.Background())
			cancel()
			for k, m := 0, 1+rng.Intn(4); k < m; k++ {
				s := sizes[rng.Intn(len(sizes))]
				var err error
				switch rng.Intn(5) {
				case 0:
					_, err = rig.Ch.Write1(mon.Payload(2, k, s))
				case 1:
					_, err = rig.Ch.Writev([][]byte{mon.Payload(2, k, s), mon.Payload(3, k, 40)})
				case 2:
					_, err = rig.Ch.ReadFrom(bytes.NewReader(mon.Payload(2, k, s)))
				case 3:
					_, err = rig.Ch.CtxWrite1(cancelled, mon.Payload(2, k, s))
				default:
					_, err = rig.Ch.Writer().Write(mon.Payload(2, k, s))
				}
				if err != nil {
					c.Count("channel_refused_writes", 1)
					used = append(used, -s)
				}
			}
		}
		rig.S.Mark("go") // the late sender now takes everything in one or two batches and recycles the copies
		rig.Ex.WaitOutstanding(1, 5*time.Second)
		c.Count("channel_batch_histories", 1)
		c.Count("histories", 1)
		held := map[uintptr]int{}
		var keep []*[]byte
		for _, o := range own {
			// still held by the application: nobody else may be handed this memory
			held[uintptr(unsafe.Pointer(&(*o)[:1][0]))] = -cap(*o)
		}
		bad := ""
		for _, want := range []int{3000, 1500, 1024, 700, 300, 100, 2048, 512} {
			for k := 0; k < 4 && bad == ""; k++ {
				p := pbytes.Get(want)
				c.Count("gets", 1)
				keep = append(keep, p)
				if cap(*p) < want {
					bad = fmt.Sprintf("pbytes.Get(%d) returned capacity %d after a queued channel had sent and recycled a batch of payload sizes %v", want, cap(*p), used)
					c.Violation("C19:get-capacity-too-small-after-channel-batch", id, bad, nil)
					break
				}
				if cap(*p) > 0 {
					addr := uintptr(unsafe.Pointer(&(*p)[:1][0]))
					if prev, dup := held[addr]; dup {
						holder := fmt.Sprintf("an earlier Get(%d)", prev)
						if prev < 0 {
							holder = fmt.Sprintf("the application (a pooled buffer of capacity %d of which it had written an empty slice through the channel)", -prev)
						}
						bad = fmt.Sprintf("pbytes.Get(%d) handed out the backing array that %s still holds, after a queued channel had sent and recycled a batch of payload sizes %v", want, holder, used)
						c.Violation("C19:buffer-handed-out-twice-after-channel-batch", id, bad, nil)
						break
					}
					held[addr] = want
				}
			}
		}
		for _, p := range keep {
			*p = (*p)[:0]
		}
		c.Sig("chan", q, n, fmt.Sprint(used))
		rig.Dispose()
		runtime.GOMAXPROCS(old)
	}
}
