package c19

import (
	"bytes"
	"fmt"
	"math/bits"
	"math/rand"
	"runtime"
	"sync"
	"sync/atomic"

	"verif/core"
)

// ---------------------------------------------------------------------------
// operations and generators (pure functions of the rng they are given)
// ---------------------------------------------------------------------------

type op struct {
	K   string `json:"k"`             // get | put | foreign | grow | shrink | drop | yield
	N   int    `json:"n,omitempty"`   // get: requested size; foreign: capacity; grow: extra; shrink: seed of new cap
	Sel int    `json:"sel,omitempty"` // which held buffer (mod number held)
}

const sizeLimit = 1<<18 + 2 // largest size ever requested / created (memory bound)

func clampSize(n int) int {
	if n < 0 {
		return 0
	}
	if n > sizeLimit {
		return sizeLimit
	}
	return n
}

// sizeGen draws a request size / foreign capacity: 0..2^17+ concentrated
// around every k*1024, every 2^k and every shard boundary of the pool.
func sizeGen(r *rand.Rand, g geom) int {
	d := r.Intn(5) - 2
	if g.maxSize <= 256 && r.Intn(3) > 0 {
		return r.Intn(2*g.maxSize + 3)
	}
	var n int
	switch x := r.Intn(20); {
	case x < 1:
		n = r.Intn(4)
	case x < 3:
		n = 1 + r.Intn(130)
	case x < 6:
		k := 1 + r.Intn(8)
		if r.Intn(3) == 0 {
			k = 1 + r.Intn(130)
		}
		n = k*1024 + d
	case x < 9:
		n = 1<<uint(r.Intn(18)) + d
	case x < 13:
		n = g.step*(1+r.Intn(g.shards+1)) + d
	case x < 15:
		n = []int{g.max, g.maxSize, 2 * g.maxSize}[r.Intn(3)] + d
	case x < 18:
		n = r.Intn(2*g.maxSize + 3)
	default:
		n = r.Intn(1<<17 + 1024)
	}
	return clampSize(n)
}

func pick(r *rand.Rand, g geom, palette []int) int {
	if len(palette) > 0 && r.Intn(10) < 7 {
		return clampSize(palette[r.Intn(len(palette))] + r.Intn(3) - 1)
	}
	return sizeGen(r, g)
}

// genRand: a random history of nops operations.
func genRand(r *rand.Rand, g geom, nops int, palette []int) []op {
	ops := make([]op, 0, nops)
	for i := 0; i < nops; i++ {
		switch x := r.Intn(100); {
		case x < 38:
			ops = append(ops, op{K: "get", N: pick(r, g, palette)})
		case x < 66:
			ops = append(ops, op{K: "put", Sel: r.Intn(1 << 16)})
		case x < 82:
			ops = append(ops, op{K: "foreign", N: pick(r, g, palette)})
		case x < 88:
			ops = append(ops, op{K: "grow", N: 1 + r.Intn(3000), Sel: r.Intn(1 << 16)})
		case x < 93:
			ops = append(ops, op{K: "shrink", N: r.Intn(1 << 30), Sel: r.Intn(1 << 16)})
		case x < 96:
			ops = append(ops, op{K: "drop", Sel: r.Intn(1 << 16)})
		default:
			ops = append(ops, op{K: "yield"})
		}
	}
	return ops
}

func nextPow2(n int) int {
	if n <= 1 {
		return 1
	}
	return 1 << uint(bits.Len64(uint64(n-1)))
}

// genProbe: Put a foreign slice of capacity c, then Get sizes just above c and
// up to the next power of two (the requests that a shard shared with c would
// serve), plus sizes <= c (legitimate reuse). Repeated so that sync.Pool reuse
// is observed even if an item is dropped.
func genProbe(r *rand.Rand, g geom, first bool) []op {
	var ops []op
	reps := 3 + r.Intn(6)
	for i := 0; i < reps; i++ {
		c := sizeGen(r, g)
		if c < 1 {
			c = 1
		}
		var n int
		top := nextPow2(c)
		switch r.Intn(5) {
		case 0:
			n = c + 1
		case 1:
			n = top
		case 2:
			n = c + 1 + r.Intn(top-c+1)
		case 3:
			n = c - r.Intn(c/4+1)
		default:
			n = c
		}
		if first && i < 3 { // the witness of DESIGN section 5, retried
			c, n = 1500, 2000
		}
		ops = append(ops, op{K: "foreign", N: c}, op{K: "get", N: clampSize(n)})
		if r.Intn(2) == 0 {
			ops = append(ops, op{K: "put", Sel: r.Intn(1 << 16)})
		}
	}
	return ops
}

// genChurn: k buffers of one size class cycled through the pool several
// times: every round each pooled buffer may come back at most once.
func genChurn(r *rand.Rand, g geom) []op {
	var ops []op
	s := sizeGen(r, g)
	k := 1 + r.Intn(8)
	for round := 2 + r.Intn(4); round > 0; round-- {
		for i := 0; i < k; i++ {
			ops = append(ops, op{K: "get", N: clampSize(s - r.Intn(3))})
		}
		if r.Intn(4) == 0 {
			ops = append(ops, op{K: "foreign", N: nextPow2(s)})
		}
		for i := 0; i < k; i++ {
			ops = append(ops, op{K: "put", Sel: r.Intn(1 << 16)})
		}
	}
	return ops
}

// ---------------------------------------------------------------------------
// executor
// ---------------------------------------------------------------------------

type history struct {
	c     *core.Ctx
	id    string
	pc    poolCfg
	g     geom
	shape string
	a     api
	m     *model
	abort int32
	procs int

	gets, puts, foreign, reuses, grows, shrinks, capOK, verified int64
	maxN                                                         int64
}

func (h *history) report(f finding, owner, at int, ops []op) {
	lo := 0
	if at > 48 {
		lo = at - 48
	}
	hi := at + 1
	if hi > len(ops) {
		hi = len(ops)
	}
	f.det["pool"] = h.pc
	f.det["shape"] = h.shape
	f.det["gomaxprocs"] = h.procs
	f.det["goroutine"] = owner
	f.det["op_index"] = at
	f.det["ops_window_from"] = lo
	f.det["ops_window"] = ops[lo:hi]
	h.c.Violation(f.key, h.id, f.what+fmt.Sprintf(" [%s history, op %d of goroutine %d]", h.shape, at, owner), f.det)
}

func fill(o *obj) {
	raw := o.b.raw()
	if len(raw) > 0 {
		raw[0] = o.pat
		for j := 1; j < len(raw); j *= 2 {
			copy(raw[j:], raw[:j])
		}
	}
	o.fillCap = len(raw)
}

// verify re-checks the owner pattern; a foreign scribble means somebody else
// got hold of a buffer this holder owns.
func (h *history) verify(o *obj, owner, at int, ops []op) bool {
	raw := o.b.raw()
	bad, badAt := len(raw) != o.fillCap, -1
	if !bad && bytes.Count(raw, []byte{o.pat}) != len(raw) {
		for i, v := range raw {
			if v != o.pat {
				bad, badAt = true, i
				break
			}
		}
	}
	atomic.AddInt64(&h.verified, 1)
	if !bad {
		return true
	}
	h.report(finding{"C19:held-buffer-scribbled",
		fmt.Sprintf("%s: buffer #%d (cap %d) held by holder %d since Get(%d) was modified by somebody else (offset %d, capacity now %d, filled %d)",
			h.pc, o.id, o.b.capacity(), owner, o.gotN, badAt, len(raw), o.fillCap),
		map[string]interface{}{"buffer": o.id, "offset": badAt, "cap_now": len(raw), "cap_filled": o.fillCap}}, owner, at, ops)
	return false
}

// exec runs one goroutine's operation list.
func (h *history) exec(owner int, ops []op, r *rand.Rand, conc bool) {
	var held []*obj
	at := 0
	defer func() {
		if e := recover(); e != nil {
			atomic.StoreInt32(&h.abort, 1)
			h.report(finding{"C19:pool-call-panicked", fmt.Sprintf("%s: %v", h.pc, e),
				map[string]interface{}{"panic": fmt.Sprint(e)}}, owner, at, ops)
		}
	}()
	take := func(sel int) *obj {
		if len(held) == 0 {
			return nil
		}
		j := sel % len(held)
		o := held[j]
		held[j] = held[len(held)-1]
		held = held[:len(held)-1]
		return o
	}
	put := func(o *obj) bool {
		if !h.verify(o, owner, at, ops) {
			atomic.StoreInt32(&h.abort, 1)
			return false
		}
		h.m.release(o) // from here on somebody else may legitimately get it
		h.a.put(o.b)
		atomic.AddInt64(&h.puts, 1)
		return true
	}
	for at = 0; at < len(ops); at++ {
		if atomic.LoadInt32(&h.abort) != 0 {
			return
		}
		o := ops[at]
		if o.K == "get" && len(held) >= 24 { // memory bound: recycle instead
			o = op{K: "put", Sel: o.N}
		}
		switch o.K {
		case "get":
			b := h.a.get(o.N)
			atomic.AddInt64(&h.gets, 1)
			for {
				m := atomic.LoadInt64(&h.maxN)
				if int64(o.N) <= m || atomic.CompareAndSwapInt64(&h.maxN, m, int64(o.N)) {
					break
				}
			}
			ob, reused, fs, fatal := h.m.onGet(h.pc, h.g, b, o.N, owner)
			for _, f := range fs {
				h.report(f, owner, at, ops)
			}
			if fatal {
				atomic.StoreInt32(&h.abort, 1)
				return
			}
			if len(fs) == 0 {
				atomic.AddInt64(&h.capOK, 1)
			}
			if reused {
				atomic.AddInt64(&h.reuses, 1)
			}
			ob.pat = byte(1 + r.Intn(255))
			fill(ob)
			held = append(held, ob)
			if conc {
				runtime.Gosched()
			}
		case "put":
			if ob := take(o.Sel); ob != nil && !put(ob) {
				return
			}
		case "foreign":
			b := h.a.foreign(r.Intn(2)*r.Intn(o.N+1), o.N)
			h.m.addForeign(b, owner)
			h.a.put(b)
			atomic.AddInt64(&h.foreign, 1)
			atomic.AddInt64(&h.puts, 1)
		case "grow", "shrink":
			if len(held) == 0 {
				continue
			}
			ob := held[o.Sel%len(held)]
			if !h.verify(ob, owner, at, ops) {
				atomic.StoreInt32(&h.abort, 1)
				return
			}
			if o.K == "grow" {
				if ob.b.capacity()+o.N > sizeLimit {
					continue
				}
				ob.b.grow(o.N)
				h.m.rekey(ob, "grown")
				atomic.AddInt64(&h.grows, 1)
			} else {
				if !ob.b.shrink(o.N % (ob.b.capacity() + 1)) {
					continue
				}
				h.m.rekey(ob, "shrunk")
				atomic.AddInt64(&h.shrinks, 1)
			}
			fill(ob)
		case "drop":
			if ob := take(o.Sel); ob != nil {
				if !h.verify(ob, owner, at, ops) {
					atomic.StoreInt32(&h.abort, 1)
					return
				}
				h.m.forget(ob)
			}
		case "yield":
			runtime.Gosched()
			for _, ob := range held {
				if !h.verify(ob, owner, at, ops) {
					atomic.StoreInt32(&h.abort, 1)
					return
				}
			}
		}
	}
	at = len(ops) - 1
	for len(held) > 0 { // hand everything back
		if conc {
			runtime.Gosched()
		}
		if !put(take(0)) {
			return
		}
	}
}

var shapes = []string{"rand", "probe", "churn", "conc"}

var curProcs = 0

func setProcs(n int) {
	if n != curProcs {
		runtime.GOMAXPROCS(n)
		curProcs = n
	}
}

// runHistory generates and runs history number hidx.
func runHistory(c *core.Ctx, id string, hidx int, pc poolCfg, shape string, first bool) {
	r := c.Rand("hist", hidx)
	g := geomOf(pc.effMax())
	h := &history{c: c, id: id, pc: pc, g: g, shape: shape, a: mkAPI(pc), m: newModel(), procs: 1}
	var lists [][]op
	switch shape {
	case "rand":
		n := 1 + r.Intn(400)
		if r.Intn(2) == 0 {
			n = 1 + r.Intn(40)
		}
		lists = [][]op{genRand(r, g, n, nil)}
	case "witness":
		lists = [][]op{{{K: "foreign", N: 1500}, {K: "get", N: 2000}, {K: "put"}}}
	case "probe":
		lists = [][]op{genProbe(r, g, first)}
	case "churn":
		lists = [][]op{genChurn(r, g)}
	case "conc":
		G := 1 + r.Intn(16)
		h.procs = []int{1, 2, 4, 8, 16}[r.Intn(5)]
		palette := make([]int, 1+r.Intn(4))
		for i := range palette {
			palette[i] = sizeGen(r, g)
			if r.Intn(2) == 0 && palette[i] > 8192 { // keep contention high: cheap buffers
				palette[i] = palette[i]%8192 + 1
			}
		}
		for i := 0; i < G; i++ {
			lists = append(lists, genRand(r, g, 10+r.Intn(70), palette))
		}
	}
	// One P makes sync.Pool reuse deterministic (private slot + LIFO shared
	// list of the only P) apart from GC; the oracle never relies on it.
	setProcs(h.procs)
	if len(lists) == 1 {
		h.exec(0, lists[0], c.Rand("exec", hidx, 0), false)
	} else {
		var wg sync.WaitGroup
		for i := range lists {
			wg.Add(1)
			go func(i int) {
				defer wg.Done()
				h.exec(i, lists[i], c.Rand("exec", hidx, i), true)
			}(i)
		}
		wg.Wait()
	}
	if pc.Max == 0 {
		// The default pools are process-wide: two collections empty every
		// sync.Pool (local -> victim -> gone), so the next history starts
		// from an empty pool and a fresh model is exact.
		h.m = nil
		runtime.GC()
		runtime.GC()
	}
	nops := 0
	for _, l := range lists {
		nops += len(l)
	}
	c.Count("histories", 1)
	c.Count("histories_"+shape, 1)
	c.Count("ops", int64(nops))
	c.Count("gets", h.gets)
	c.Count("gets_capacity_ok", h.capOK)
	c.Count("puts", h.puts)
	c.Count("foreign_puts", h.foreign)
	c.Count("reuses_observed", h.reuses)
	c.Count("holder_grows", h.grows)
	c.Count("holder_shrinks", h.shrinks)
	c.Count("pattern_verifications", h.verified)
	c.Max("max_goroutines", int64(len(lists)))
	if h.gets > 0 && h.puts > 0 {
		c.Sig(pc.Kind, pc.Max, shape, len(lists), bits.Len(uint(nops)), bits.Len64(uint64(h.maxN)), h.reuses > 0)
	}
	if c.WantSample() && h.reuses > 0 && hidx%7 == 0 {
		l := lists[0]
		if len(l) > 16 {
			l = l[:16]
		}
		c.Sample(map[string]interface{}{"case": id, "pool": pc.String(), "shape": shape, "goroutines": len(lists),
			"first_ops_of_goroutine_0": l, "gets": h.gets, "puts": h.puts, "reuses": h.reuses})
	}
}
