package c19

import (
	"bytes"
	"fmt"
	"math/bits"
	"sync"
	"unsafe"

	"github.com/go-netty/go-netty/utils/pool"
	"github.com/go-netty/go-netty/utils/pool/pbuffer"
	"github.com/go-netty/go-netty/utils/pool/pbytes"
)

// ---------------------------------------------------------------------------
// pool under test + buffer handle
// ---------------------------------------------------------------------------

// poolCfg names one pool under test. Max == 0 means the package-level default
// pool functions (pbytes.Get/Put, pbuffer.Get/Put, max 65536).
type poolCfg struct {
	Kind string `json:"kind"` // "bytes" | "buffer"
	Max  int    `json:"max"`  // 0 = default pool
}

func (p poolCfg) String() string {
	if p.Max == 0 {
		return "p" + p.Kind + ".Get/Put(default 65536)"
	}
	return fmt.Sprintf("p%s.New(%d)", p.Kind, p.Max)
}

func (p poolCfg) effMax() int {
	if p.Max == 0 {
		return 65536
	}
	return p.Max
}

// geom is the shard geometry of a pool as reported by the library itself
// (VerifShard). It is used for case generation and for choosing the
// classification key of a violation, never for deciding a violation.
type geom struct{ max, step, shards, maxSize int }

type tok struct{ size int }

func geomOf(max int) geom {
	_, _, shards, step := pool.New[*tok](max).VerifShard(1)
	return geom{max: max, step: step, shards: shards, maxSize: step * shards}
}

// buf is a handle on a *[]byte or a *bytes.Buffer.
type buf struct {
	bs *[]byte
	bb *bytes.Buffer
}

func (b buf) isNil() bool { return b.bs == nil && b.bb == nil }

// ptr is the identity of the pooled object itself.
func (b buf) ptr() unsafe.Pointer {
	if b.bs != nil {
		return unsafe.Pointer(b.bs)
	}
	return unsafe.Pointer(b.bb)
}

// capacity is what the property speaks about: cap(*p) / Buffer.Cap().
func (b buf) capacity() int {
	if b.bs != nil {
		return cap(*b.bs)
	}
	return b.bb.Cap()
}

// raw is the whole backing array reachable through the handle.
func (b buf) raw() []byte {
	if b.bs != nil {
		s := *b.bs
		return s[:cap(s)]
	}
	s := b.bb.Bytes()
	return s[:cap(s)]
}

// arr is the address of the backing array (nil for zero capacity).
func (b buf) arr() unsafe.Pointer {
	r := b.raw()
	if len(r) == 0 {
		return nil
	}
	return unsafe.Pointer(&r[0])
}

// grow makes the holder outgrow the buffer (append / Write), which moves it
// to a new backing array of some non-class capacity.
func (b buf) grow(extra int) {
	if b.bs != nil {
		s := *b.bs
		*b.bs = append(s[:cap(s)], make([]byte, extra)...)
		return
	}
	b.bb.Write(make([]byte, b.bb.Cap()-b.bb.Len()+extra))
}

// shrink caps a byte slice at a smaller capacity over the same array.
func (b buf) shrink(newcap int) bool {
	if b.bs == nil {
		return false
	}
	s := *b.bs
	if newcap > cap(s) {
		newcap = cap(s)
	}
	*b.bs = s[:0:newcap]
	return true
}

type api struct {
	get     func(n int) buf
	put     func(b buf)
	foreign func(l, c int) buf
}

func mkAPI(pc poolCfg) api {
	switch pc.Kind {
	case "bytes":
		a := api{foreign: func(l, c int) buf { s := make([]byte, l, c); return buf{bs: &s} }}
		if pc.Max == 0 {
			a.get = func(n int) buf { return buf{bs: pbytes.Get(n)} }
			a.put = func(b buf) { pbytes.Put(b.bs) }
		} else {
			p := pbytes.New(pc.Max)
			a.get = func(n int) buf { return buf{bs: p.Get(n)} }
			a.put = func(b buf) { p.Put(b.bs) }
		}
		return a
	default:
		a := api{foreign: func(l, c int) buf { return buf{bb: bytes.NewBuffer(make([]byte, l, c))} }}
		if pc.Max == 0 {
			a.get = func(n int) buf { return buf{bb: pbuffer.Get(n)} }
			a.put = func(b buf) { pbuffer.Put(b.bb) }
		} else {
			p := pbuffer.New(pc.Max)
			a.get = func(n int) buf { return buf{bb: p.Get(n)} }
			a.put = func(b buf) { p.Put(b.bb) }
		}
		return a
	}
}

// ---------------------------------------------------------------------------
// ownership model
// ---------------------------------------------------------------------------

const (
	stHeld   = 1 // handed out by Get (or created by the harness) and not Put back
	stInPool = 2 // Put exactly once since it was last held; at most one Get may return it
)

// obj is one buffer the harness knows about. The maps of the model key it by
// unsafe.Pointer, which keeps the object and its array alive, so an address
// in the model can never be recycled by the allocator for a fresh buffer.
type obj struct {
	id      int
	b       buf
	ptr     unsafe.Pointer
	arr     unsafe.Pointer
	state   int
	origin  string // "pool" (first seen as a Get result) | "foreign" (made by the harness)
	putCap  int    // capacity at the last Put
	putBy   int    // owner that Put it last
	altered string // what the holder did to it: "", "grown", "shrunk"
	owner   int
	pat     byte
	fillCap int
	gotN    int
}

type model struct {
	mu    sync.Mutex
	byPtr map[unsafe.Pointer]*obj
	byArr map[unsafe.Pointer]*obj
	next  int
}

func newModel() *model {
	return &model{byPtr: map[unsafe.Pointer]*obj{}, byArr: map[unsafe.Pointer]*obj{}}
}

type finding struct {
	key  string
	what string
	det  map[string]interface{}
}

func isPow2(n int) bool { return n > 0 && bits.OnesCount64(uint64(n)) == 1 }

// capKey chooses the classification key for "Get(n) returned capacity < n".
func capKey(known *obj, g geom) string {
	switch {
	case known == nil:
		return "C19:get-capacity-too-small" // buffer allocated by the pool itself
	case known.putCap < g.step || known.putCap > g.maxSize:
		return "C19:out-of-range-put-served-to-larger-get"
	case !isPow2(known.putCap):
		return "C19:put-misfiles-non-class-capacity"
	default:
		return "C19:class-capacity-served-to-larger-get"
	}
}

// onGet judges one Get result and moves the model. fatal reports that the
// ownership model is broken for the rest of the history (the caller stops).
func (m *model) onGet(pc poolCfg, g geom, b buf, n, owner int) (o *obj, reused bool, fs []finding, fatal bool) {
	if b.isNil() {
		return nil, false, []finding{{"C19:get-returned-nil", fmt.Sprintf("%s: Get(%d) returned nil", pc, n),
			map[string]interface{}{"n": n}}}, true
	}
	pr, ar, cp := b.ptr(), b.arr(), b.capacity()
	m.mu.Lock()
	defer m.mu.Unlock()
	known := m.byPtr[pr]
	if known != nil && known.state == stHeld {
		fs = append(fs, finding{"C19:buffer-handed-out-twice",
			fmt.Sprintf("%s: Get(%d) by holder %d returned buffer #%d (cap %d) which holder %d obtained from Get(%d) and has not Put back",
				pc, n, owner, known.id, cp, known.owner, known.gotN),
			map[string]interface{}{"n": n, "holder": owner, "buffer": known.id, "other_holder": known.owner, "cap": cp, "origin": known.origin}})
		return nil, false, fs, true
	}
	if ar != nil {
		if a := m.byArr[ar]; a != nil && a != known && a.state == stHeld {
			fs = append(fs, finding{"C19:buffer-handed-out-twice",
				fmt.Sprintf("%s: Get(%d) by holder %d returned a buffer whose backing array is the one of buffer #%d held by holder %d",
					pc, n, owner, a.id, a.owner),
				map[string]interface{}{"n": n, "holder": owner, "buffer": a.id, "other_holder": a.owner, "cap": cp, "shared": "backing array"}})
			return nil, false, fs, true
		}
	}
	if cp < n {
		d := map[string]interface{}{"n": n, "cap": cp, "holder": owner, "expected": "capacity >= n"}
		what := fmt.Sprintf("%s: Get(%d) returned a freshly seen buffer of capacity %d < %d", pc, n, cp, n)
		if known != nil {
			d["buffer"], d["origin"], d["put_cap"], d["altered"] = known.id, known.origin, known.putCap, known.altered
			src := "foreign slice made by the harness"
			if known.origin == "pool" {
				src = "pool buffer the holder had " + known.altered
			}
			what = fmt.Sprintf("%s: Put(%s, cap %d) then Get(%d) returned that very buffer: capacity %d < %d (pool step %d, %d shards)",
				pc, src, known.putCap, n, cp, n, g.step, g.shards)
		}
		fs = append(fs, finding{capKey(known, g), what, d})
	}
	if known != nil { // stInPool: the one permitted hand-out
		reused = true
		o = known
		if o.arr != ar {
			if o.arr != nil && m.byArr[o.arr] == o {
				delete(m.byArr, o.arr)
			}
			o.arr = ar
		}
	} else {
		m.next++
		o = &obj{id: m.next, b: b, ptr: pr, arr: ar, origin: "pool"}
		m.byPtr[pr] = o
	}
	if ar != nil {
		m.byArr[ar] = o
	}
	o.state, o.owner, o.gotN, o.altered = stHeld, owner, n, ""
	return o, reused, fs, false
}

// addForeign registers a harness-made buffer as about to be Put.
func (m *model) addForeign(b buf, owner int) *obj {
	m.mu.Lock()
	defer m.mu.Unlock()
	m.next++
	o := &obj{id: m.next, b: b, ptr: b.ptr(), arr: b.arr(), origin: "foreign", state: stInPool,
		putCap: b.capacity(), putBy: owner}
	m.byPtr[o.ptr] = o
	if o.arr != nil {
		m.byArr[o.arr] = o
	}
	return o
}

// release is called by the holder immediately BEFORE Put.
func (m *model) release(o *obj) {
	m.mu.Lock()
	o.state, o.putCap, o.putBy = stInPool, o.b.capacity(), o.owner
	m.mu.Unlock()
}

// rekey is called by the holder after it changed the backing array.
func (m *model) rekey(o *obj, how string) {
	m.mu.Lock()
	if o.arr != nil && m.byArr[o.arr] == o {
		delete(m.byArr, o.arr)
	}
	o.arr = o.b.arr()
	if o.arr != nil {
		m.byArr[o.arr] = o
	}
	o.altered = how
	m.mu.Unlock()
}

// forget: the holder drops the buffer without Put; its addresses may recur.
func (m *model) forget(o *obj) {
	m.mu.Lock()
	if m.byPtr[o.ptr] == o {
		delete(m.byPtr, o.ptr)
	}
	if o.arr != nil && m.byArr[o.arr] == o {
		delete(m.byArr, o.arr)
	}
	m.mu.Unlock()
}
