package c19

import (
	"fmt"

	"github.com/go-netty/go-netty/utils/pool"

	"verif/core"
)

const headBit = 1 << 62 // CeilToPowerOfTwo is documented to panic above this

func safeInt(f func(int) int, n int) (r int, panicked interface{}) {
	defer func() { panicked = recover() }()
	return f(n), nil
}

// checkPoint judges Ceil/Floor/IsPowerOfTwo at one n >= 1 against the
// definitions (least / greatest power of two on the right side of n).
func checkPoint(c *core.Ctx, id string, n int) {
	if n < 1 {
		// n = 0 (documented: Ceil(0)=0, Floor(0)=0, IsPowerOfTwo(0)=true) and
		// negative sizes are outside the property; only exercised.
		safeInt(pool.VerifCeilToPowerOfTwo, n)
		safeInt(pool.VerifFloorToPowerOfTwo, n)
		return
	}
	r, p := safeInt(pool.VerifCeilToPowerOfTwo, n)
	switch {
	case n > headBit: // no power of two >= n is representable; the documented panic (or anything) is accepted
	case p != nil:
		c.Violation("C19:ceil-panics-in-range", id, fmt.Sprintf("CeilToPowerOfTwo(%d) panicked: %v", n, p),
			map[string]interface{}{"n": n, "panic": fmt.Sprint(p)})
	case !(isPow2(r) && r >= n && r>>1 < n):
		c.Violation("C19:ceil-wrong", id, fmt.Sprintf("CeilToPowerOfTwo(%d) = %d, which is not the least power of two >= %d (expected %d)", n, r, n, nextPow2(n)),
			map[string]interface{}{"n": n, "got": r, "expected": nextPow2(n)})
	}
	r, p = safeInt(pool.VerifFloorToPowerOfTwo, n)
	switch {
	case p != nil:
		c.Violation("C19:floor-panics", id, fmt.Sprintf("FloorToPowerOfTwo(%d) panicked: %v", n, p),
			map[string]interface{}{"n": n, "panic": fmt.Sprint(p)})
	case !(isPow2(r) && r <= n && r > n>>1):
		c.Violation("C19:floor-wrong", id, fmt.Sprintf("FloorToPowerOfTwo(%d) = %d, which is not the greatest power of two <= %d", n, r, n),
			map[string]interface{}{"n": n, "got": r})
	}
	if got, want := pool.VerifIsPowerOfTwo(n), isPow2(n); got != want {
		c.Violation("C19:ispow2-wrong", id, fmt.Sprintf("IsPowerOfTwo(%d) = %v, popcount says %v", n, got, want),
			map[string]interface{}{"n": n, "got": got, "expected": want})
	}
	c.Count("arithmetic_points", 1)
}

func boundaryPoints() []int {
	var ns []int
	for k := uint(0); k <= 62; k++ {
		for d := -2; d <= 2; d++ {
			if n := 1<<k + d; n >= 0 {
				ns = append(ns, n)
			}
		}
	}
	return append(ns, 1<<63-1)
}

func arithRange(c *core.Ctx, id string, lo, hi int) {
	for n := lo; n < hi; n++ {
		checkPoint(c, id, n)
	}
	c.Sig("arith-range", lo)
}

func arithBoundary(c *core.Ctx, id string) {
	for _, n := range boundaryPoints() {
		checkPoint(c, id, n)
	}
	c.Sig("arith-boundary")
}

// arithPool checks the shard arithmetic of pool.New(max):
//
//	(a) statically through VerifShard: the class chosen for Get(n) is >= n and
//	    the shard index is the non-negative (class-1)/step (within range, or
//	    >= shards, in which case Get allocates);
//	(b) behaviourally, by brute force over every declared size s in
//	    0..2*maxSize+2: Put(token_s, s) into the generic pool and then Get(n)
//	    for one n of every size class above s: whatever Get(n) returns must
//	    have been Put with a size >= n. This observes where Put files a size
//	    instead of re-implementing its formula, so it stays sound if Put is
//	    changed to drop sizes that are not a class.
func arithPool(c *core.Ctx, id string, max int) {
	defer func() {
		if e := recover(); e != nil {
			c.Violation("C19:pool-call-panicked", id, fmt.Sprintf("pool.New(%d): Put/Get of the generic pool panicked: %v", max, e),
				map[string]interface{}{"max": max, "panic": fmt.Sprint(e)})
		}
	}()
	setProcs(1) // one P: Put then Get on the same sync.Pool is deterministic (apart from GC)
	p := pool.New[*tok](max)
	g := geomOf(max)
	name := fmt.Sprintf("pool.New(%d) [step %d, %d shards]", max, g.step, g.shards)
	if g.step < 1 || g.shards < 1 {
		c.Violation("C19:pool-geometry-degenerate", id, name, map[string]interface{}{"max": max, "step": g.step, "shards": g.shards})
		return
	}
	limit := 2*g.maxSize + 2
	static := func(n int) {
		var class, idx, sh, st int
		_, pn := safeInt(func(n int) int { class, idx, sh, st = p.VerifShard(n); return 0 }, n)
		c.Count("arithmetic_points", 1)
		switch {
		case pn != nil:
			c.Violation("C19:size-class-panics-in-range", id, fmt.Sprintf("%s: size class of %d panicked: %v", name, n, pn),
				map[string]interface{}{"max": max, "n": n, "panic": fmt.Sprint(pn)})
		case class < n:
			c.Violation("C19:class-below-request", id, fmt.Sprintf("%s: Get(%d) uses size class %d < %d", name, n, class, n),
				map[string]interface{}{"max": max, "n": n, "class": class})
		case idx < 0 || idx != (class-1)/st || sh != g.shards || st != g.step:
			c.Violation("C19:shard-index-inconsistent", id, fmt.Sprintf("%s: Get(%d): class %d, shard %d of %d (step %d)", name, n, class, idx, sh, st),
				map[string]interface{}{"max": max, "n": n, "class": class, "idx": idx, "shards": sh, "step": st})
		}
	}
	for n := 0; n <= limit; n++ {
		static(n)
	}
	for _, n := range boundaryPoints() {
		if n > limit && n <= headBit {
			static(n)
		}
	}
	// (b)
	var hits, probes int64
	judge := func(v *tok, n, class int, after int) {
		if class < n {
			c.Violation("C19:class-below-request", id, fmt.Sprintf("%s: Get(%d) reports size %d < %d", name, n, class, n),
				map[string]interface{}{"max": max, "n": n, "class": class})
		}
		if v == nil {
			return
		}
		hits++
		if v.size >= n {
			return
		}
		known := &obj{putCap: v.size}
		c.Violation(capKey(known, g), id,
			fmt.Sprintf("%s: Put(x, size %d) then Get(%d) returned x: a %d-capacity object serves a request for %d (Put files size %d in shard %d, which Get uses for class %d)",
				name, v.size, n, v.size, n, v.size, (v.size-1)/g.step, class),
			map[string]interface{}{"max": max, "step": g.step, "shards": g.shards, "put_size": v.size, "get_n": n, "get_class": class, "last_put": after})
	}
	for s := 0; s <= limit; s++ {
		p.Put(&tok{s}, s)
		probes++
		for n := s + 1; n <= 2*limit; {
			v, class := p.Get(n)
			judge(v, n, class, s)
			if nn := nextPow2(n); nn > n {
				n = nn
			} else {
				n = 2 * n
			}
		}
		if s > 0 {
			v, class := p.Get(s) // drain (legitimate reuse when s is a class)
			judge(v, s, class, s)
		}
	}
	c.Count("arithmetic_points", probes)
	c.Count("arith_put_probes", probes)
	c.Count("arith_put_probes_returned", hits)
	c.Sig("arith-pool", max)
}
