// Package c19 is the runtime monitor for property C19: buffer pool capacity and
// exclusive ownership hold for every Get/Put history (utils/pool, pbytes, pbuffer).
package c19

import (
	"fmt"
	"runtime"
	"runtime/debug"

	"verif/core"
)

func init() {
	core.Register(&core.Prop{
		ID:    "C19",
		Level: "exploration",
		Rule: "case = (a) one Get/Put history on a pool: kind {pbytes,pbuffer} x {package default 65536, New(max) for max in 1..130,1000,4096,100000} x shape " +
			"{rand: 1-400 random ops get/put/put-foreign/grow/shrink/drop/yield; probe: Put(foreign cap c) then Get(n) for n just above c up to the next power of two, retried; " +
			"churn: k buffers of one class cycled through the pool; conc: 1-16 goroutines x 10-80 ops on a shared size palette, GOMAXPROCS 1..16, every holder fills its buffer to cap with an owner pattern, yields and re-verifies before Put}; " +
			"sizes/capacities 0..2^18+2 concentrated around every k*1024, 2^k and shard boundary (+-2); single-goroutine histories run on one P so that sync.Pool reuse is actually observed; " +
			"oracle per Get: capacity >= n, the returned object (pointer identity and backing-array address) is not held by anybody, an object Put once comes back at most once; a fresh buffer is always accepted; " +
			"(b) arithmetic: Ceil/Floor/IsPowerOfTwo against their definitions for every n <= 2^20 and 2^k+{-2..2} up to 2^62; per pool size the class/shard of Get(n) for every n <= 2*maxSize+2, and a brute-force " +
			"Put(token,size s)/Get(n>s) probe of the generic pool for every s <= 2*maxSize+2 (a token may only serve n <= its size). " +
			"distinct_nontrivial = distinct (kind, max, shape, goroutines, log2 ops, log2 largest request, reuse seen) among histories with >=1 Get and >=1 Put, plus one per arithmetic block",
		Assumptions: []string{
			"requests and capacities are bounded by 2^18+2 bytes (memory); negative sizes and Get above 2^62 (documented panic) are not exercised",
			"sync.Pool may drop items at any time: absence of reuse is never judged; reuse must merely be observed at least once per run (counter reuses_observed)",
			"n = 0 of the power-of-two helpers is not judged (pmath_test.go documents Ceil(0)=0, Floor(0)=0, IsPowerOfTwo(0)=true)",
			"the harness never Puts the same buffer twice without an intervening Get and never touches a buffer after Put",
			"interleavings are those the Go scheduler produces with Gosched yields at GOMAXPROCS 1..16",
		},
		Shards:     func(tier string) int { return 8 },
		TimeoutSec: func(tier string) int { return map[bool]int{true: 240, false: 2400}[tier != "thorough"] },
		Required:   []string{"histories", "gets", "puts", "reuses_observed", "foreign_puts", "arithmetic_points", "arith_put_probes_returned", "histories_conc"},
		Run:        run,
	})
}

var customMaxes = func() []int {
	var ms []int
	for m := 1; m <= 130; m++ {
		ms = append(ms, m)
	}
	return append(ms, 1000, 4096, 100000)
}()

// poolTable: the pools a history index cycles through; the default pools (the
// ones the channel uses) and the large custom pools are weighted up.
var poolTable = func() []poolCfg {
	var t []poolCfg
	for _, kind := range []string{"bytes", "buffer"} {
		for i := 0; i < 20; i++ {
			t = append(t, poolCfg{kind, 0})
		}
		for _, m := range customMaxes {
			w := 1
			if m > 130 {
				w = 5
			}
			for i := 0; i < w; i++ {
				t = append(t, poolCfg{kind, m})
			}
		}
	}
	return t
}()

type kase struct {
	id  string
	run func(c *core.Ctx, id string)
}

func cases(c *core.Ctx) []kase {
	var ks []kase
	// 0,1: the witness of DESIGN section 5 on both default pools, on its own
	for i, kind := range []string{"bytes", "buffer"} {
		i, pc := i, poolCfg{kind, 0}
		ks = append(ks, kase{fmt.Sprintf("w%d", i), func(c *core.Ctx, id string) { runHistory(c, id, -1-i, pc, "witness", true) }})
	}
	// arithmetic: every n <= 2^20 (thorough 2^24) in blocks of 2^16, the 2^k
	// boundaries, every pool size (the default pool's size first: index 8)
	const blk = 1 << 16
	var ar []kase
	for lo := 0; lo < c.Scale(1<<20, 1<<24); lo += blk {
		lo := lo
		ar = append(ar, kase{fmt.Sprintf("arith/n%d", lo), func(c *core.Ctx, id string) { arithRange(c, id, lo, lo+blk+1) }})
	}
	ks = append(ks, ar[:6]...)
	for _, m := range append([]int{65536}, customMaxes...) {
		m := m
		ks = append(ks, kase{fmt.Sprintf("arith/pool%d", m), func(c *core.Ctx, id string) { arithPool(c, id, m) }})
	}
	ks = append(ks, kase{"arith/boundary", arithBoundary})
	ks = append(ks, ar[6:]...)
	return ks
}

// historyCase: history number h is a pure function of (seed, h); the table of
// histories is never materialised (the thorough tier has 660 000 of them).
func historyCase(h int) kase {
	T := len(poolTable)
	pc := poolTable[h%T]
	shape := shapes[(h/T+h%T)%len(shapes)]
	return kase{fmt.Sprintf("h%d", h), func(c *core.Ctx, id string) {
		runHistory(c, id, h, pc, shape, pc.Max == 0 && h/T < 2*len(shapes))
	}}
}

func run(c *core.Ctx) {
	runChannelBatches(c)
	defer runtime.GOMAXPROCS(runtime.NumCPU())
	// fewer collections: they only cost time here (every buffer is garbage
	// within one history) and each one may empty the pools under test
	defer debug.SetGCPercent(debug.SetGCPercent(400))
	fixed := cases(c)
	total := len(fixed) + c.Scale(100, 2000)*len(poolTable)
	for i := 0; i < total; i++ {
		if !c.Mine(i) {
			continue
		}
		if i < len(fixed) {
			if k := fixed[i]; c.Case(k.id) {
				k.run(c, k.id)
			}
		} else if k := historyCase(i - len(fixed)); c.CaseQuiet(k.id) { // library panics are recovered inside exec
			k.run(c, k.id)
		}
	}
}
