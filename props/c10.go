package props

import (
	"fmt"
	"runtime"
	"sync"
	"sync/atomic"
	"time"

	"github.com/go-netty/go-netty/utils/pool/pbytes"

	"verif/core"
	"verif/mon"
	"verif/props/wl"
)

func init() {
	core.Register(&core.Prop{
		ID:    "C10",
		Level: "exploration",
		Rule: "trial = queued/sync channel, W writers using all entry points incl. ReadFrom (pooled chunk handed over without copy); every writer overwrites its buffer with 0xBB right after each call returns; " +
			"scribbler goroutines continuously Get pooled buffers of every size class, fill them to capacity with 0xBB and Put them back; the sender is delayed/gated between draining, Writev and recycling so payloads sit in queue/batch meanwhile; " +
			"oracle: every record on the wire is byte-identical (CRC + full compare) to the payload at call time; distinct_nontrivial = distinct event-order signatures among trials where pooled buffers were observed being recycled to a scribbler",
		Assumptions: []string{"sync.Pool reuse is probabilistic: evidence counts how many scribbler Gets returned a buffer previously used by the channel (pool_reuse_seen)"},
		Shards:      func(tier string) int { return 8 },
		TimeoutSec:  func(tier string) int { return map[bool]int{true: 300, false: 1800}[tier != "thorough"] },
		Required:    []string{"records_checked", "scribbler_gets"},
		Run:         runC10,
	})
}

func runC10(c *core.Ctx) {
	total := c.Scale(16000, 160000)
	stuck := 0
	for idx := 0; idx < total; idx++ {
		if !c.Mine(idx) {
			continue
		}
		if c.Enough() {
			break
		}
		id := fmt.Sprintf("t%d", idx)
		if !c.CaseQuiet(id) {
			continue
		}
		rng := c.Rand("cfg", idx)
		cfg := wl.Cfg{}
		cfg.Mode = mon.Mode(idx % 3)
		cfg.Queue = []int{1, 2, 4, 8, 64}[(idx/3)%5]
		cfg.Writers = 1 + rng.Intn(4)
		cfg.PerWriter = 4 + rng.Intn(12)
		cfg.Procs = []int{1, 2, 4, 8}[rng.Intn(4)]
		cfg.Entries = []int{wl.EWrite1, wl.EWritev, wl.ECtxWrite1, wl.ECtxWritev, wl.EWriter, wl.EReadFrom, wl.EReadFromEOF}
		switch rng.Intn(4) {
		case 3:
			// one writer whose payloads travel through ReadFrom in short pieces (several low-level writes per payload, in order)
			cfg.Writers = 1
			if cfg.Mode == mon.NonBlock {
				cfg.Mode = mon.Blocking // a refused piece would legitimately cut the payload short
			}
			cfg.Entries = []int{wl.EReadFromFrag, wl.EReadFromFrag, wl.EWrite1}
			cfg.Sizes = []int{16, 100, 300, 700, 1000, 1024, 2000, 3000}
			cfg.PerWriter = 6 + rng.Intn(10)
		case 0:
			cfg.Sizes = []int{0, 16, 17, 100, 500, 1023, 1024} // ReadFrom-safe: single chunk
		case 1:
			cfg.Sizes = []int{0, 16, 1024, 1025, 2048, 4096, 4097, 8192, 65536, 65537}
			cfg.Entries = cfg.Entries[:5]
			cfg.PerWriter = 3 + rng.Intn(5)
		default:
			cfg.Sizes = []int{0, 0, 16, 17, 100, 1023, 1024, 1025, 2047, 2048, 2049}
			cfg.Entries = cfg.Entries[:5]
			cfg.ScratchCap = []int{0, 4096, 4096, 8192}[rng.Intn(4)] // a scratch buffer whose capacity is a pool size class
		}
		// delays that keep payloads in the queue / batch while buffers are overwritten
		pts := []string{"sBat", "tV0", "sWr", "sRec", "sLoop", "x1"}
		d := 1 + rng.Intn(3)
		name := "hold:"
		for i := 0; i < d; i++ {
			p := pts[rng.Intn(len(pts))]
			dur := time.Duration(50+rng.Intn(500)) * time.Microsecond
			cfg.Plan = append(cfg.Plan, mon.Step{At: p, Occ: rng.Intn(4), Kind: mon.Sleep, D: dur})
			name += fmt.Sprintf("%s+%dus,", p, dur/time.Microsecond)
		}
		cfg.PlanKind = name
		fragTrial := len(cfg.Entries) > 0 && cfg.Entries[0] == wl.EReadFromFrag // pieces refused by a Close would legitimately cut a payload short
		if idx%64 == 1 && !fragTrial {
			// Close arrives while the sender is still inside its first Writev with the other accepted payloads queued behind it
			// (the sender is held there until Close has polled once), and late writers keep writing
			cfg.Mode, cfg.Queue = mon.Blocking, 64
			cfg.Writers, cfg.PerWriter = 2+rng.Intn(2), 3+rng.Intn(3)
			cfg.Closer, cfg.LateWriters = 1, 1+rng.Intn(2)
			cfg.Plan = []mon.Step{{At: "tV0", Occ: 1, Kind: mon.Gate, Until: "cPoll", UntilCount: 1, Timeout: 300 * time.Millisecond},
				{At: "tV0", Occ: 2, Kind: mon.Sleep, D: time.Duration(50+rng.Intn(300)) * time.Microsecond}}
			cfg.PlanKind = "close-while-sender-inside-writev"
		}
		if idx%4 == 3 {
			wraps := [][2]int{{0, 64}, {4096, 4096}, {0, 4096}, {0, 0}}
			wv := wraps[(idx/4)%len(wraps)]
			cfg.Wrap = &wv
		}
		runtime.GOMAXPROCS(cfg.Procs)

		// scribblers
		var stop int32
		var gets, reuse int64
		var sw sync.WaitGroup
		for s := 0; s < 3; s++ {
			sw.Add(1)
			go func(s int) {
				defer sw.Done()
				classes := []int{1, 100, 1024, 2048, 4096, 8192, 16384, 32768, 65536}
				for i := 0; atomic.LoadInt32(&stop) == 0; i++ {
					p := pbytes.Get(classes[(i+s)%len(classes)])
					b := (*p)[:cap(*p)]
					if len(b) > 0 && (b[0] == 0xA5 || b[0]&0xF0 == 0xE0) {
						atomic.AddInt64(&reuse, 1) // held channel payload bytes before: recycled by the sender
					}
					for j := range b {
						b[j] = 0xBB
					}
					*p = b[:0]
					pbytes.Put(p)
					atomic.AddInt64(&gets, 1)
					if i%8 == 0 {
						runtime.Gosched()
					}
				}
			}(s)
		}
		h := wl.Run(cfg, c.Rand("trial", idx), 8*time.Second)
		atomic.StoreInt32(&stop, 1)
		sw.Wait()
		c.Count("scribbler_gets", gets)
		c.Count("pool_reuse_seen", reuse)
		if h.WritersDone {
			recs, viols := wl.CheckC01(h)
			c.Count("records_checked", int64(len(recs)))
			for w := range h.Writes {
				for _, r := range h.Writes[w] {
					c.Count("writes_via_"+wl.EntryName[r.Entry], 1)
				}
			}
			sig, alt := h.Rig.S.Signature()
			if reuse > 0 || alt >= 2 {
				c.SigHash(sig)
			}
			if c.WantSample() && reuse > 0 {
				c.Sample(wl.Summary(h, 8))
			}
			for _, v := range viols {
				if v.Key == "payload-altered" || v.Key == "wire-corrupt" {
					c.Violation("C10:"+v.Key, id, v.What+" ["+h.Cfg.String()+"]", wl.Summary(h, 400))
				}
			}
		} else {
			c.Inconclusive(id, "watchdog: writers did not finish: "+cfg.String())
		}
		h.Rig.Dispose()
		if !h.Quiesced {
			if stuck++; stuck >= 2 {
				c.Count("aborted_after_watchdogs", 1)
				break
			}
		}
	}
	runtime.GOMAXPROCS(runtime.NumCPU())
}
