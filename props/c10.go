package props

import (
	"bufio"
	"bytes"
	"encoding/binary"
	"errors"
	"fmt"
	"github.com/go-netty/go-netty/codec/xhttp"
	"io"
	"net/http"
	"runtime"
	"sync"
	"sync/atomic"
	"time"

	netty "github.com/go-netty/go-netty"
	"github.com/go-netty/go-netty/codec/frame"
	"github.com/go-netty/go-netty/utils/pool/pbytes"

	"verif/core"
	"verif/mon"
	"verif/props/concodec"
	"verif/props/wl"
)

func init() {
	core.Register(&core.Prop{
		ID:    "C10",
		Level: "exploration",
		Rule: "trial = queued/sync channel, W writers using all entry points incl. ReadFrom (pooled chunk handed over without copy); every writer overwrites its buffer with 0xBB right after each call returns; " +
			"plus goroutines writing through LengthFieldCodec from one scratch buffer each (overwritten after Write returns) while the first low-level write is held until every writer has passed the codec; " +
			"scribbler goroutines continuously Get pooled buffers of every size class, fill them to capacity with 0xBB and Put them back; the sender is delayed/gated between draining, Writev and recycling so payloads sit in queue/batch meanwhile; " +
			"oracle: every record on the wire is byte-identical (CRC + full compare) to the payload at call time; plus ReadFrom over short-piece readers with zero-length reads, a few Close-while-the-sender-is-inside-Writev trials, and HTTP response writers (pooled bufio buffers) that are open at the same time after earlier responses whose Close failed or was repeated; distinct_nontrivial = distinct event-order signatures among trials where pooled buffers were observed being recycled to a scribbler",
		Assumptions: []string{"sync.Pool reuse is probabilistic: evidence counts how many scribbler Gets returned a buffer previously used by the channel (pool_reuse_seen)"},
		Shards:      func(tier string) int { return 8 },
		TimeoutSec:  func(tier string) int { return map[bool]int{true: 300, false: 1800}[tier != "thorough"] },
		Required:    []string{"records_checked", "scribbler_gets"},
		Run:         runC10,
	})
}

// failAfter is a connection-side writer that fails from its k-th Write on (peer gone).
type failAfter struct {
	k   int
	buf bytes.Buffer
}

func (f *failAfter) Write(p []byte) (int, error) {
	if f.k--; f.k < 0 {
		return 0, errors.New("c10 peer gone")
	}
	return f.buf.Write(p)
}

// c10ResponseWriters: the HTTP response writer keeps its output in a pooled bufio.Writer until it is flushed to the channel.
// Whatever happened to earlier responses (a Close that failed because the peer was gone, a Close called twice - once by the
// handler, once by the adapter), the buffered bytes of a response are its own: two responses that are open at the same time
// each arrive on their own connection, well-formed and with their own body.
func c10ResponseWriters(c *core.Ctx, id string, idx int) {
	rng := c.Rand("response-writers", idx)
	old := runtime.GOMAXPROCS(1) // what is put back into a sync.Pool is what the next Get sees
	defer runtime.GOMAXPROCS(old)
	runtime.GC()
	runtime.GC()
	req, _ := http.NewRequest("GET", "http://c10.test/", nil)
	closeIt := func(w xhttp.ResponseWriter) error { return w.(io.Closer).Close() }
	// earlier responses on connections that are gone
	for k, n := 0, 1+rng.Intn(3); k < n; k++ {
		rw := xhttp.NewResponseWriter(req, &failAfter{k: rng.Intn(2)})
		rw.Header().Set("Content-Length", "5")
		rw.Write([]byte("hello"))
		_ = closeIt(rw)
		if rng.Intn(2) == 0 {
			_ = closeIt(rw) // the handler closed it, the adapter closes it again
		}
	}
	type live struct {
		sink *failAfter
		rw   xhttp.ResponseWriter
		body []byte
	}
	var ls []*live
	for k := 0; k < 2+rng.Intn(2); k++ {
		l := &live{sink: &failAfter{k: 1 << 30}}
		l.rw = xhttp.NewResponseWriter(req, l.sink)
		l.body = bytes.Repeat([]byte{byte('A' + k)}, 10+rng.Intn(500))
		l.rw.Header().Set("Content-Length", fmt.Sprint(len(l.body)))
		ls = append(ls, l)
	}
	for _, l := range ls { // all open at the same time
		l.rw.Write(l.body)
	}
	for _, l := range ls {
		_ = closeIt(l.rw)
	}
	c.Count("response_writer_sequences", 1)
	c.Sig("response-writers", len(ls), idx%7)
	for k, l := range ls {
		resp, err := http.ReadResponse(bufio.NewReader(bytes.NewReader(l.sink.buf.Bytes())), req)
		var body []byte
		if err == nil {
			body, err = io.ReadAll(resp.Body)
		}
		if err != nil || !bytes.Equal(body, l.body) || l.sink.buf.Len() > len(l.body)+400 {
			c.Violation("C10:http-response-buffer-shared-between-responses", id,
				fmt.Sprintf("response #%d of %d that were open at the same time (each on its own connection, after earlier responses whose Close failed / was repeated): its connection received %d bytes that do not parse to its own %d-byte body (err=%v, body %d bytes)", k, len(ls), l.sink.buf.Len(), len(l.body), err, len(body)), nil)
			return
		}
	}
}

// scriptReader plays a fixed script of reads; a step with n == 0 returns (0, nil) and first runs its hook.
type scriptReader struct {
	steps []scriptStep
	i     int
}

type scriptStep struct {
	fill byte
	n    int
	hook func()
}

func (r *scriptReader) Read(p []byte) (int, error) {
	if r.i >= len(r.steps) {
		return 0, io.EOF
	}
	st := r.steps[r.i]
	r.i++
	if st.hook != nil {
		st.hook()
	}
	for k := 0; k < st.n && k < len(p); k++ {
		p[k] = st.fill
	}
	return st.n, nil
}

// c10ZeroReadScript: ReadFrom over a reader that returns (0, nil) once - while somebody else returns a buffer of ReadFrom's
// size class to the pool - and then its data in two or three pieces, with the sender starting late. On one P the pool's
// behaviour is deterministic. The pieces must reach the transport as they were read.
func c10ZeroReadScript(c *core.Ctx, id string, idx int) {
	rng := c.Rand("zero-read", idx)
	old := runtime.GOMAXPROCS(1)
	defer runtime.GOMAXPROCS(old)
	runtime.GC()
	runtime.GC()
	plan := []mon.Step{{At: "x1", Occ: 1, Kind: mon.Gate, Until: "go", UntilCount: 1, Timeout: 2 * time.Second}}
	rig := mon.NewRig(mon.RigOpts{Mode: mon.Blocking, Queue: 16, Plan: plan, QuietTail: true})
	defer rig.Dispose()
	held := pbytes.Get(1024)
	giveBack := func() { *held = (*held)[:0]; pbytes.Put(held) }
	var steps []scriptStep
	var want []byte
	zeroAt := rng.Intn(2)
	pieces := 2 + rng.Intn(2)
	for k := 0; k < pieces; k++ {
		if k == zeroAt {
			steps = append(steps, scriptStep{n: 0, hook: giveBack})
		}
		n := 8 + rng.Intn(200)
		fill := byte('A' + k)
		steps = append(steps, scriptStep{fill: fill, n: n})
		want = append(want, bytes.Repeat([]byte{fill}, n)...)
	}
	if _, err := rig.Ch.ReadFrom(&scriptReader{steps: steps}); err != nil {
		c.Inconclusive(id, "ReadFrom refused: "+err.Error())
		return
	}
	rig.S.Mark("go")
	if !rig.Ex.WaitOutstanding(1, 5*time.Second) {
		c.Inconclusive(id, "watchdog: sender did not finish")
		return
	}
	c.Count("zero_read_scripts", 1)
	c.Sig("zero-read", zeroAt, pieces)
	if wire := rig.T.Wire(); !bytes.Equal(wire, want) {
		c.Violation("C10:wire-corrupt", id, fmt.Sprintf("ReadFrom over a reader with one (0, nil) read (during which another buffer of the 1024-byte class was returned to the pool) and %d data pieces, late sender: the transport received %d bytes that differ from the %d bytes read (first difference at %d)", pieces, len(wire), len(want), firstDiff(wire, want)), nil)
	}
}

// c10CloseScript: Close is called while the sender is stalled inside its first Writev and more accepted payloads are
// queued; while the Close is pending, other users of the pool take, scribble and return buffers of every size class; then
// the stalled Writev goes on. Every payload that reaches the transport is byte-identical to what was written.
func c10CloseScript(c *core.Ctx, id string, idx int) {
	rng := c.Rand("close-script", idx)
	old := runtime.GOMAXPROCS(1)
	defer runtime.GOMAXPROCS(old)
	runtime.GC()
	runtime.GC()
	// the first Writev has taken its data and is slow to return; a Writev that starts meanwhile waits before its data is looked at
	plan := []mon.Step{{At: "tV1", Occ: 1, Kind: mon.Gate, Until: "release", UntilCount: 1, Timeout: 3 * time.Second},
		{At: "tV0", Occ: 2, Kind: mon.Gate, Until: "release2", UntilCount: 1, Timeout: 3 * time.Second}}
	tr := mon.NewRecTransport()
	tr.SnapshotVec = true // the vectored write has set up its iovecs when it starts waiting
	rig := mon.NewRig(mon.RigOpts{Mode: mon.Blocking, Queue: 16, Plan: plan, QuietTail: true, Tr: tr})
	defer rig.Dispose()
	sizes := []int{100, 700, 1024, 1500, 3000}
	n := 3 + rng.Intn(4)
	rig.Ch.Write1(mon.Payload(1, 0, sizes[rng.Intn(len(sizes))]))
	if !rig.S.Await("tV1", 1, 3*time.Second) {
		c.Inconclusive(id, "sender never reached its first Writev")
		return
	}
	for k := 1; k < n; k++ {
		rig.Ch.Write1(mon.Payload(1, k, sizes[rng.Intn(len(sizes))]))
	}
	closed := make(chan struct{})
	go func() { defer close(closed); rig.Ch.Close(errSentinel) }()
	// let the pending Close poll a few times, then churn the pool
	for i := 0; i < 30; i++ {
		time.Sleep(5 * time.Millisecond)
		for _, cl := range []int{100, 1024, 2048, 4096} {
			p := pbytes.Get(cl)
			b := (*p)[:cap(*p)]
			for j := range b {
				b[j] = 0xEE
			}
			*p = b[:0]
			pbytes.Put(p)
		}
	}
	churn := func() {
		for _, cl := range []int{100, 1024, 2048, 4096} {
			for k := 0; k < 4; k++ {
				p := pbytes.Get(cl)
				b := (*p)[:cap(*p)]
				for j := range b {
					b[j] = 0xEE
				}
				*p = b[:0]
				pbytes.Put(p)
			}
		}
	}
	rig.S.Mark("release")
	for i := 0; i < 10; i++ {
		time.Sleep(2 * time.Millisecond)
		churn()
	}
	rig.S.Mark("release2")
	select {
	case <-closed:
	case <-time.After(10 * time.Second):
		c.Inconclusive(id, "watchdog: Close did not complete")
		return
	}
	rig.Ex.WaitOutstanding(0, 5*time.Second)
	c.Count("close_scripts", 1)
	c.Sig("close-script", n)
	_, wire := rig.T.Snapshot()
	recs, perrs := mon.ParseWire(wire)
	if len(perrs) > 0 {
		c.Violation("C10:wire-corrupt", id, fmt.Sprintf("Close called while the sender was inside its first Writev with %d more payloads queued, pool traffic meanwhile: the transport received bytes that are not the payloads written: %s", n-1, perrs[0]), nil)
		return
	}
	for _, r := range recs {
		if !bytes.Equal(wire[r.Off:r.Off+r.Size], mon.Payload(r.W, r.Seq, r.Size)) {
			c.Violation("C10:payload-altered", id, fmt.Sprintf("payload #%d differs on the wire from what was written", r.Seq), nil)
			return
		}
	}
}

// c10Framed: several goroutines write through a length-field codec, each from one scratch buffer it overwrites as soon as
// its Write call has returned, while the first low-level write is held until every writer has a message past the codec:
// every frame on the wire must be the header of, and the bytes of, one message as its buffer held it at the call.
func c10Framed(c *core.Ctx, id string, idx int) {
	rng := c.Rand("framed", idx)
	mode := mon.Mode(idx % 3)
	hdr := []int{2, 4}[(idx/3)%2]
	W := 2 + rng.Intn(3)
	per := 3 + rng.Intn(6)
	sizes := []int{20, 60, 255, 256, 300, 1000, 1024, 5000}
	counts := make([]int, W)
	scratch := make([][]byte, W)
	plan := make([][]int, W)
	want := map[string]bool{}
	for w := 0; w < W; w++ {
		counts[w] = per
		scratch[w] = make([]byte, 8192)
		for s := 0; s < per; s++ {
			plan[w] = append(plan[w], sizes[rng.Intn(len(sizes))])
			want[fmt.Sprintf("%d.%d", w, s)] = true
		}
	}
	gen := func(w, i int) netty.Message {
		b := scratch[w][:plan[w][i]]
		copy(b, mon.Payload(w, i, len(b)))
		return b
	}
	after := func(w, i int) {
		b := scratch[w][:plan[w][i]]
		for j := range b {
			b[j] = 0xEE
		}
	}
	res := concodec.RunGen(mode, 8, []netty.Handler{frame.LengthFieldCodec(binary.BigEndian, 1<<20, 0, hdr, 0, hdr)}, counts, gen, after)
	c.Count("framed_concurrent_trials", 1)
	if res.Stalled {
		c.Count("framed_concurrent_trials_with_pileup", 1)
		c.Sig("framed", int(mode), hdr, W)
	}
	if !res.Done {
		c.Inconclusive(id, "watchdog: concurrent framed writers stuck")
		return
	}
	if mode == mon.NonBlock || len(res.Excs) > 0 {
		// refused writes (full non-blocking queue) are legitimate: only what is on the wire is judged
		for k := range want {
			delete(want, k)
		}
	}
	off, bad, got := 0, "", 0
	for off < len(res.Wire) && bad == "" {
		if off+hdr > len(res.Wire) {
			bad = fmt.Sprintf("%d stray bytes at offset %d", len(res.Wire)-off, off)
			break
		}
		n := int(binary.BigEndian.Uint16(res.Wire[off:]))
		if hdr == 4 {
			n = int(binary.BigEndian.Uint32(res.Wire[off:]))
		}
		if off+hdr+n > len(res.Wire) {
			bad = fmt.Sprintf("frame at offset %d: header announces %d body bytes, %d left on the wire", off, n, len(res.Wire)-off-hdr)
			break
		}
		recs, perr := mon.ParseWire(res.Wire[off+hdr : off+hdr+n])
		if len(perr) > 0 || len(recs) != 1 || recs[0].Size != n {
			bad = fmt.Sprintf("frame at offset %d: header announces %d bytes but what follows is not one whole message as its writer's buffer held it at the call", off, n)
			break
		}
		k := fmt.Sprintf("%d.%d", recs[0].W, recs[0].Seq)
		if recs[0].W >= W || recs[0].Seq >= per || plan[recs[0].W][recs[0].Seq] != n {
			bad = "a frame that was never written: " + k
		}
		delete(want, k)
		got++
		off += hdr + n
	}
	c.Count("framed_concurrent_frames_checked", int64(got))
	if bad == "" && len(want) > 0 {
		bad = fmt.Sprintf("%d messages whose Write was issued on an open channel are missing from the wire", len(want))
	}
	if bad != "" {
		c.Violation("C10:framed-message-altered-under-concurrent-writers", id,
			fmt.Sprintf("%d goroutines writing through LengthFieldCodec(%d-byte header) on a %s channel, each overwriting its buffer after Write returned: %s", W, hdr, mode, bad),
			map[string]interface{}{"writers": W, "wire_prefix": fmt.Sprintf("%x", res.Wire[:minIntC10(len(res.Wire), 96)])})
	}
}

func minIntC10(a, b int) int {
	if a < b {
		return a
	}
	return b
}

func runC10(c *core.Ctx) {
	for i, n := 0, c.Scale(16, 320); i < n; i++ {
		if !c.Mine(i) {
			continue
		}
		id := fmt.Sprintf("close-script%d", i)
		if c.CaseQuiet(id) {
			c10CloseScript(c, id, i)
		}
	}
	for i, n := 0, c.Scale(32, 640); i < n; i++ {
		if !c.Mine(i) {
			continue
		}
		id := fmt.Sprintf("zero-read%d", i)
		if c.CaseQuiet(id) {
			c10ZeroReadScript(c, id, i)
		}
	}
	for i, n := 0, c.Scale(40, 800); i < n; i++ {
		if !c.Mine(i) {
			continue
		}
		id := fmt.Sprintf("response-writers%d", i)
		if c.CaseQuiet(id) {
			c10ResponseWriters(c, id, i)
		}
	}
	for i, n := 0, c.Scale(48, 960); i < n; i++ {
		if !c.Mine(i) {
			continue
		}
		id := fmt.Sprintf("framed%d", i)
		if c.CaseQuiet(id) {
			c10Framed(c, id, i)
		}
	}
	total := c.Scale(16000, 160000)
	stuck := 0
	for idx := 0; idx < total; idx++ {
		if !c.Mine(idx) {
			continue
		}
		if c.Enough() {
			break
		}
		id := fmt.Sprintf("t%d", idx)
		if !c.CaseQuiet(id) {
			continue
		}
		rng := c.Rand("cfg", idx)
		cfg := wl.Cfg{}
		cfg.Mode = mon.Mode(idx % 3)
		cfg.Queue = []int{1, 2, 4, 8, 64}[(idx/3)%5]
		cfg.Writers = 1 + rng.Intn(4)
		cfg.PerWriter = 4 + rng.Intn(12)
		cfg.Procs = []int{1, 2, 4, 8}[rng.Intn(4)]
		cfg.Entries = []int{wl.EWrite1, wl.EWritev, wl.ECtxWrite1, wl.ECtxWritev, wl.EWriter, wl.EReadFrom, wl.EReadFromEOF}
		switch rng.Intn(4) {
		case 3:
			// one writer whose payloads travel through ReadFrom in short pieces (several low-level writes per payload, in order)
			cfg.Writers = 1
			if cfg.Mode == mon.NonBlock {
				cfg.Mode = mon.Blocking // a refused piece would legitimately cut the payload short
			}
			cfg.Entries = []int{wl.EReadFromFrag, wl.EReadFromFrag, wl.EWrite1}
			cfg.Sizes = []int{16, 100, 300, 700, 1000, 1024, 2000, 3000}
			cfg.PerWriter = 6 + rng.Intn(10)
		case 0:
			cfg.Sizes = []int{0, 16, 17, 100, 500, 1023, 1024} // ReadFrom-safe: single chunk
		case 1:
			cfg.Sizes = []int{0, 16, 1024, 1025, 2048, 4096, 4097, 8192, 65536, 65537}
			cfg.Entries = cfg.Entries[:5]
			cfg.PerWriter = 3 + rng.Intn(5)
		default:
			cfg.Sizes = []int{0, 0, 16, 17, 100, 1023, 1024, 1025, 2047, 2048, 2049}
			cfg.Entries = cfg.Entries[:5]
			cfg.ScratchCap = []int{0, 4096, 4096, 8192}[rng.Intn(4)] // a scratch buffer whose capacity is a pool size class
		}
		// delays that keep payloads in the queue / batch while buffers are overwritten
		pts := []string{"sBat", "tV0", "sWr", "sRec", "sLoop", "x1"}
		d := 1 + rng.Intn(3)
		name := "hold:"
		for i := 0; i < d; i++ {
			p := pts[rng.Intn(len(pts))]
			dur := time.Duration(50+rng.Intn(500)) * time.Microsecond
			cfg.Plan = append(cfg.Plan, mon.Step{At: p, Occ: rng.Intn(4), Kind: mon.Sleep, D: dur})
			name += fmt.Sprintf("%s+%dus,", p, dur/time.Microsecond)
		}
		cfg.PlanKind = name
		fragTrial := len(cfg.Entries) > 0 && cfg.Entries[0] == wl.EReadFromFrag // pieces refused by a Close would legitimately cut a payload short
		if idx%64 == 1 && !fragTrial {
			// Close arrives while the sender is still inside its first Writev with the other accepted payloads queued behind it
			// (the sender is held there until Close has polled once), and late writers keep writing
			cfg.Mode, cfg.Queue = mon.Blocking, 64
			cfg.Writers, cfg.PerWriter = 2+rng.Intn(2), 3+rng.Intn(3)
			cfg.Closer, cfg.LateWriters = 1, 1+rng.Intn(2)
			cfg.Plan = []mon.Step{{At: "tV0", Occ: 1, Kind: mon.Gate, Until: "cPoll", UntilCount: 1, Timeout: 300 * time.Millisecond},
				{At: "tV0", Occ: 2, Kind: mon.Sleep, D: time.Duration(50+rng.Intn(300)) * time.Microsecond}}
			cfg.PlanKind = "close-while-sender-inside-writev"
		}
		if idx%4 == 3 {
			wraps := [][2]int{{0, 64}, {4096, 4096}, {0, 4096}, {0, 0}}
			wv := wraps[(idx/4)%len(wraps)]
			cfg.Wrap = &wv
		}
		runtime.GOMAXPROCS(cfg.Procs)

		// scribblers
		var stop int32
		var gets, reuse int64
		var sw sync.WaitGroup
		if len(cfg.Entries) > 0 && cfg.Entries[0] == wl.EReadFromFrag {
			// extra traffic in ReadFrom's own size class: buffers that are taken, scribbled, put back and taken again
			for s := 0; s < 2; s++ {
				sw.Add(1)
				go func() {
					defer sw.Done()
					for i := 0; atomic.LoadInt32(&stop) == 0; i++ {
						p, q := pbytes.Get(1024), pbytes.Get(1000)
						for _, b := range []*[]byte{p, q} {
							full := (*b)[:cap(*b)]
							for j := range full {
								full[j] = 0xBB
							}
							*b = full[:0]
						}
						pbytes.Put(p)
						runtime.Gosched()
						pbytes.Put(q)
						atomic.AddInt64(&gets, 2)
					}
				}()
			}
		}
		for s := 0; s < 3; s++ {
			sw.Add(1)
			go func(s int) {
				defer sw.Done()
				classes := []int{1, 100, 1024, 2048, 4096, 8192, 16384, 32768, 65536}
				for i := 0; atomic.LoadInt32(&stop) == 0; i++ {
					p := pbytes.Get(classes[(i+s)%len(classes)])
					b := (*p)[:cap(*p)]
					if len(b) > 0 && (b[0] == 0xA5 || b[0]&0xF0 == 0xE0) {
						atomic.AddInt64(&reuse, 1) // held channel payload bytes before: recycled by the sender
					}
					for j := range b {
						b[j] = 0xBB
					}
					*p = b[:0]
					pbytes.Put(p)
					atomic.AddInt64(&gets, 1)
					if i%8 == 0 {
						runtime.Gosched()
					}
				}
			}(s)
		}
		h := wl.Run(cfg, c.Rand("trial", idx), 8*time.Second)
		atomic.StoreInt32(&stop, 1)
		sw.Wait()
		c.Count("scribbler_gets", gets)
		c.Count("pool_reuse_seen", reuse)
		if h.WritersDone {
			recs, viols := wl.CheckC01(h)
			c.Count("records_checked", int64(len(recs)))
			for w := range h.Writes {
				for _, r := range h.Writes[w] {
					c.Count("writes_via_"+wl.EntryName[r.Entry], 1)
				}
			}
			sig, alt := h.Rig.S.Signature()
			if reuse > 0 || alt >= 2 {
				c.SigHash(sig)
			}
			if c.WantSample() && reuse > 0 {
				c.Sample(wl.Summary(h, 8))
			}
			for _, v := range viols {
				if v.Key == "payload-altered" || v.Key == "wire-corrupt" {
					c.Violation("C10:"+v.Key, id, v.What+" ["+h.Cfg.String()+"]", wl.Summary(h, 400))
				}
			}
		} else {
			c.Inconclusive(id, "watchdog: writers did not finish: "+cfg.String())
		}
		h.Rig.Dispose()
		if !h.Quiesced {
			if stuck++; stuck >= 2 {
				c.Count("aborted_after_watchdogs", 1)
				break
			}
		}
	}
	runtime.GOMAXPROCS(runtime.NumCPU())
}
