package props

import (
	"context"
	"encoding/binary"
	"errors"
	"fmt"
	"github.com/go-netty/go-netty/codec/format"
	"github.com/go-netty/go-netty/codec/frame"
	"github.com/go-netty/go-netty/codec/xhttp"
	"io"
	"net"
	"net/http"
	"strings"
	"sync"
	"sync/atomic"
	"time"

	netty "github.com/go-netty/go-netty"

	"verif/core"
	"verif/mon"
)

func init() {
	core.Register(&core.Prop{
		ID:               "C07",
		Level:            "fault_enumeration",
		CrashIsViolation: true,
		Rule: "finite grid enumerated completely: pipelines of 1..4 probes x panicking position x event kind (active, read, write, user event) x entry point (read loop, Channel.Write, Channel.Trigger, ctx.Write, ctx.Trigger; idle-timer callbacks in a separate 1.1 s batch) x panic value (error, string, real runtime error, timeout net.Error, non-timeout net.Error) x exception-handler shape (none / forwards / swallows / two handlers) x channel state (open, closing = closer gated right after its election, closed) x channel mode; " +
			"plus transport faults: Write/Writev/Flush/Read failing at call k in {1,2,3} with a plain error, a timeout and a non-timeout net.Error on sync and queued channels. Oracle: no panic escapes an API call, the worker survives, exception probes see exactly one exception per panic in pipeline order (the panic value itself when it is an error, its text otherwise), unconsumed => channel closed and inactive carries it, consumed => a following read is delivered and a following write reaches the wire; failing sender write / unswallowed read failure close the channel with that error. " +
			"distinct_nontrivial = distinct grid cells executed (all of them)",
		Assumptions: []string{
			"exception handlers never panic and panic(nil) is not generated (provisos of the statement)",
			"for closing/closed channels only 'no escape, no crash' is required",
			"a swallowed non-timeout net.Error may still close the channel (documented behaviour); usability is then not required",
		},
		Shards:     func(tier string) int { return 8 },
		TimeoutSec: func(tier string) int { return 600 },
		Required:   []string{"grid_cells", "exceptions_checked", "fault_cells", "idle_cells"},
		Exhaustive: func(tier string) bool { return true },
		Run:        runC07,
	})
}

type c07Tok struct{ b byte }
type c07Ev struct{ n int }

var errC07 = errors.New("c07 injected panic error")

func c07PanicValue(kind int) (interface{}, string) {
	switch kind {
	case 0:
		return errC07, "error"
	case 1:
		return "c07 string panic", "string"
	case 2:
		return nil, "runtime-error" // provoked for real at the panic site
	case 3:
		return tmoErr{true}, "net-timeout"
	default:
		return tmoErr{false}, "net-nontimeout"
	}
}

// fprobe implements active, inbound, outbound and event handling; it panics once at the armed (kind).
type fprobe struct {
	pos     int
	first   bool // first inbound probe: reads the token byte off the transport
	mu      sync.Mutex
	ctx     netty.HandlerContext
	armKind string
	armVal  interface{}
	armRT   bool
	fired   int
	reads   []byte
	events  int
	writes  int
}

func (p *fprobe) maybePanic(kind string) {
	p.mu.Lock()
	if p.armKind != kind {
		p.mu.Unlock()
		return
	}
	p.armKind = ""
	p.fired++
	v, rt := p.armVal, p.armRT
	p.mu.Unlock()
	if rt {
		// a real runtime error; the value the runtime panics with is remembered (recover, re-panic the very same value)
		defer func() {
			r := recover()
			c07LastRuntimeErr.Store(&r)
			panic(r)
		}()
		var m map[string]int
		m["boom"] = 1
	}
	panic(v)
}

// c07LastRuntimeErr holds the value of the most recent provoked runtime error (cells run one after another per worker).
var c07LastRuntimeErr atomic.Value

func (p *fprobe) HandleActive(ctx netty.ActiveContext) {
	p.mu.Lock()
	p.ctx = ctx
	p.mu.Unlock()
	p.maybePanic("active")
	ctx.HandleActive()
}

func (p *fprobe) HandleRead(ctx netty.InboundContext, message netty.Message) {
	if r, ok := message.(io.Reader); ok && p.first {
		var b [1]byte
		if _, err := r.Read(b[:]); err != nil {
			panic(err)
		}
		message = c07Tok{b[0]}
	}
	if t, ok := message.(c07Tok); ok {
		p.mu.Lock()
		p.reads = append(p.reads, t.b)
		p.mu.Unlock()
		if t.b == 'P' {
			p.maybePanic("read")
		}
	}
	ctx.HandleRead(message)
}

func (p *fprobe) HandleWrite(ctx netty.OutboundContext, message netty.Message) {
	p.mu.Lock()
	p.writes++
	p.mu.Unlock()
	if b, ok := message.([]byte); ok && len(b) > 0 && b[0] == 'P' {
		p.maybePanic("write")
	}
	ctx.HandleWrite(message)
}

func (p *fprobe) HandleEvent(ctx netty.EventContext, ev netty.Event) {
	p.mu.Lock()
	p.events++
	p.mu.Unlock()
	switch ev.(type) {
	case c07Ev, netty.ReadIdleEvent, netty.WriteIdleEvent:
		p.maybePanic("event")
	}
	ctx.HandleEvent(ev)
}

type excProbe struct {
	name    string
	swallow bool
	mu      sync.Mutex
	seen    []error
	ticks   []uint64
}

func (e *excProbe) HandleException(ctx netty.ExceptionContext, ex netty.Exception) {
	e.mu.Lock()
	e.seen = append(e.seen, ex)
	e.ticks = append(e.ticks, mon.Tick())
	e.mu.Unlock()
	if !e.swallow {
		ctx.HandleException(ex)
	}
}

type inactProbe struct {
	mu   sync.Mutex
	errs []error
}

func (i *inactProbe) HandleInactive(ctx netty.InactiveContext, ex netty.Exception) {
	i.mu.Lock()
	i.errs = append(i.errs, ex)
	i.mu.Unlock()
	ctx.HandleInactive(ex)
}

var c07Shapes = []string{"none", "forwards", "swallows", "two"}
var c07States = []string{"open", "closing", "closed", "open-parent-context-ended"}

type c07Cell struct {
	n, pos      int
	kind, entry string
	val         int
	shape       string
	state       string
	mode        mon.Mode
	from        int // position ctx.Write / ctx.Trigger is issued from
}

func (x c07Cell) String() string {
	_, vn := c07PanicValue(x.val)
	return fmt.Sprintf("n=%d pos=%d kind=%s entry=%s from=%d value=%s shape=%s state=%s mode=%s", x.n, x.pos, x.kind, x.entry, x.from, vn, x.shape, x.state, x.mode)
}

func c07Cells() []c07Cell {
	var cells []c07Cell
	for n := 1; n <= 4; n++ {
		for pos := 1; pos <= n; pos++ {
			for _, ke := range [][2]string{{"active", "read-loop"}, {"read", "read-loop"}, {"write", "Channel.Write"}, {"write", "ctx.Write"}, {"event", "Channel.Trigger"}, {"event", "ctx.Trigger"}} {
				from := 0
				if ke[1] == "ctx.Write" {
					if pos == n {
						continue // needs a context behind the panicking handler
					}
					from = n
				}
				if ke[1] == "ctx.Trigger" {
					if pos == 1 {
						continue
					}
					from = 1
				}
				for val := 0; val < 5; val++ {
					for _, shape := range c07Shapes {
						for _, state := range c07States {
							if ke[0] == "active" && state != "open" {
								continue
							}
							if state == "open-parent-context-ended" && ke[1] == "read-loop" {
								continue // the read loop would notice the ended context by itself
							}
							for m := 0; m < 2; m++ {
								mode := mon.Sync
								if m == 1 {
									mode = mon.Blocking
								}
								if n > 2 && m == 1 && state != "open" {
									continue // thin out: state x mode only for short pipelines
								}
								cells = append(cells, c07Cell{n, pos, ke[0], ke[1], val, shape, state, mode, from})
							}
						}
					}
				}
			}
		}
	}
	return cells
}

func runC07(c *core.Ctx) {
	cells := c07Cells()
	// idle-timer batch first (needs 1.1 s of wall time, runs concurrently with the grid)
	var idleWG sync.WaitGroup
	idleN := 0
	for val := 0; val < 5; val++ {
		for si, shape := range c07Shapes {
			for h := 0; h < 2; h++ {
				idleN++
				if !c.Mine(idleN) {
					continue
				}
				id := fmt.Sprintf("idle/%d/%s/%d", val, shape, h)
				if !c.Case(id) {
					continue
				}
				idleWG.Add(1)
				go func(id string, val, si, h int) {
					defer idleWG.Done()
					c07Idle(c, id, val, c07Shapes[si], h == 0)
				}(id, val, si, h)
			}
		}
	}
	for i, cell := range cells {
		if !c.Mine(i) {
			continue
		}
		if c.Enough() {
			break
		}
		id := fmt.Sprintf("g%d", i)
		if !c.Case(id) {
			continue
		}
		t0 := time.Now()
		c07Run(c, id, cell)
		if d := time.Since(t0); d > 200*time.Millisecond {
			c.Count("slow_ms_"+cell.kind+"/"+cell.entry+"/"+cell.state+"/"+cell.shape+"/"+cell.mode.String(), d.Milliseconds())
		}
	}
	// the head handler itself raises (unsupported message type): consumed => the channel stays usable
	ui := 0
	for _, mode := range []mon.Mode{mon.Sync, mon.Blocking, mon.NonBlock} {
		for _, shape := range []string{"swallows", "two"} {
			for _, bad := range []netty.Message{42, "a string", struct{ X int }{1}} {
				ui++
				if !c.Mine(ui) {
					continue
				}
				id := fmt.Sprintf("unsupported/%s/%s/%T", mode, shape, bad)
				if !c.Case(id) {
					continue
				}
				c07Unsupported(c, id, mode, shape, bad)
			}
		}
	}
	// a built-in handler raises during the active event: the channel holder refuses a channel id it already holds
	hi := 0
	for _, mode := range []mon.Mode{mon.Sync, mon.Blocking, mon.NonBlock} {
		for _, swallow := range []bool{false, true} {
			hi++
			if !c.Mine(hi) {
				continue
			}
			id := fmt.Sprintf("holder-duplicate-id/%s/sw%v", mode, swallow)
			if !c.Case(id) {
				continue
			}
			c07HolderDup(c, id, mode, swallow)
		}
	}
	// read-event panics behind the shipped packet codec (which keeps one buffer across packets): after the consumed
	// exception the channel must still deliver the following packets as they are
	pi := 0
	for _, mode := range []mon.Mode{mon.Sync, mon.Blocking} {
		for val := 0; val < 5; val++ {
			for _, inner := range []string{"text", "length-field+text"} {
				pi++
				if !c.Mine(pi) {
					continue
				}
				id := fmt.Sprintf("packet-after-panic/%s/v%d/%s", mode, val, inner)
				if !c.Case(id) {
					continue
				}
				c07PacketAfterPanic(c, id, mode, val, inner)
			}
		}
	}
	// an http.Handler behind the shipped HTTP server codec panics while the response cannot be flushed (two faults at once)
	hx := 0
	for _, mode := range []mon.Mode{mon.Sync, mon.Blocking} {
		for val := 0; val < 4; val++ {
			for _, wrote := range []bool{false, true} {
				hx++
				if !c.Mine(hx) {
					continue
				}
				id := fmt.Sprintf("http-handler-panic-failing-flush/%s/v%d/wrote%v", mode, val, wrote)
				if !c.Case(id) {
					continue
				}
				c07HTTPDoubleFault(c, id, mode, val, wrote)
			}
		}
	}
	// transport faults
	fi := 0
	for _, mode := range []mon.Mode{mon.Sync, mon.Blocking, mon.NonBlock} {
		for _, op := range []string{mon.OpWrite, mon.OpWritev, mon.OpFlush, mon.OpRead} {
			for k := 1; k <= 3; k++ {
				for ek := 0; ek < 3; ek++ {
					for _, swallow := range []bool{false, true} {
						fi++
						if !c.Mine(fi) {
							continue
						}
						id := fmt.Sprintf("fault/%s/%s/k%d/e%d/sw%v", mode, op, k, ek, swallow)
						if !c.Case(id) {
							continue
						}
						c07Fault(c, id, mode, op, k, ek, swallow)
					}
				}
			}
		}
	}
	// failing transport reads that travel through a shipped frame decoder (fault at the 1st..6th one-byte read: inside a
	// header, a body, a delimiter, at a frame boundary)
	for ci := 1; ci < len(c07ReadCodecs); ci++ {
		for k := 1; k <= 6; k++ {
			for ek := 0; ek < 3; ek++ {
				for _, swallow := range []bool{false, true} {
					fi++
					if !c.Mine(fi) {
						continue
					}
					id := fmt.Sprintf("fault/read-through-%s/k%d/e%d/sw%v", c07ReadCodecs[ci].name, k, ek, swallow)
					if !c.Case(id) {
						continue
					}
					c07FaultVia(c, id, mon.Sync, mon.OpRead, k, ek, swallow, ci)
				}
			}
		}
	}
	idleWG.Wait()
}

func c07Build(cell c07Cell, extra ...netty.Handler) (*mon.Rig, []*fprobe, []*excProbe, *inactProbe, func()) {
	probes := make([]*fprobe, cell.n)
	var hs []netty.Handler
	var excs []*excProbe
	if cell.shape == "two" {
		e := &excProbe{name: "front"}
		excs = append(excs, e)
		hs = append(hs, e)
	}
	hs = append(hs, extra...)
	for i := range probes {
		probes[i] = &fprobe{pos: i + 1, first: i == 0}
		hs = append(hs, probes[i])
	}
	switch cell.shape {
	case "forwards":
		e := &excProbe{name: "back"}
		excs = append(excs, e)
		hs = append(hs, e)
	case "swallows", "two":
		e := &excProbe{name: "back", swallow: true}
		excs = append(excs, e)
		hs = append(hs, e)
	}
	in := &inactProbe{}
	hs = append(hs, in)
	val, _ := c07PanicValue(cell.val)
	p := probes[cell.pos-1]
	arm := func() {
		p.mu.Lock()
		p.armKind, p.armVal, p.armRT = cell.kind, val, cell.val == 2
		p.mu.Unlock()
	}
	if cell.kind == "active" {
		arm()
	}
	var plan []mon.Step
	if cell.state == "closing" {
		plan = []mon.Step{{At: "cEl", Occ: 1, Kind: mon.Gate, Until: "inject-done", UntilCount: 1, Timeout: 5 * time.Second}}
	}
	opts := mon.RigOpts{Mode: cell.mode, Queue: 4, NoPark: true, Handlers: hs, Plan: plan}
	if cell.state == "open-parent-context-ended" {
		// the parent context ends while the read loop is parked in Read: the channel stays open
		// (IsActive, writes still reach the transport) and the guarantees still apply
		pctx, cancel := context.WithCancel(context.Background())
		opts.Ctx = pctx
		defer cancel()
	}
	rig := mon.NewRig(opts)
	return rig, probes, excs, in, arm
}

func c07Run(c *core.Ctx, id string, cell c07Cell) {
	rig, probes, excs, in, arm := c07Build(cell)
	defer rig.Dispose()
	viol := func(key, what string) {
		c.Violation("C07:"+key, id, what+" ["+cell.String()+"]", map[string]interface{}{"cell": cell.String(), "marks": rig.S.LogString(40)})
	}
	c.Count("grid_cells", 1)
	c.Sig(cell.String())
	val, vname := c07PanicValue(cell.val)
	// channel state
	var closeDone chan struct{}
	switch cell.state {
	case "closing":
		closeDone = make(chan struct{})
		go func() { defer close(closeDone); rig.Ch.Close(errSentinel) }()
		if !rig.S.Await("cEl", 1, 5*time.Second) {
			c.Inconclusive(id, "closer did not reach its election")
			return
		}
	case "closed":
		rig.Ch.Close(errSentinel)
		rig.Ex.WaitOutstanding(0, 5*time.Second)
	}
	if cell.kind != "active" {
		arm()
	}
	// inject through the entry point; no panic may escape
	escaped := interface{}(nil)
	callSync := func(fn func()) {
		defer func() {
			if r := recover(); r != nil {
				escaped = r
			}
		}()
		fn()
	}
	call := callSync
	if cell.state == "closing" {
		// Channel.Write on a closing channel waits for the close to complete: run the call aside,
		// give it a moment, then let the closer go and collect the call.
		call = func(fn func()) {
			done := make(chan struct{})
			go func() { defer close(done); callSync(fn) }()
			select {
			case <-done:
				return
			case <-time.After(10 * time.Millisecond):
			}
			rig.S.Mark("inject-done")
			select {
			case <-done:
			case <-time.After(10 * time.Second):
				c.Inconclusive(id, "watchdog: API call on a closing channel did not return")
			}
		}
	}
	p := probes[cell.pos-1]
	ctxOf := func(i int) netty.HandlerContext {
		q := probes[i-1]
		q.mu.Lock()
		defer q.mu.Unlock()
		return q.ctx
	}
	switch cell.entry {
	case "read-loop":
		if cell.kind == "read" {
			rig.T.FeedBytes([]byte{'P'})
		}
	case "Channel.Write":
		call(func() { rig.Ch.Write([]byte("Pwrite")) })
	case "ctx.Write":
		hc := ctxOf(cell.from)
		if hc == nil {
			c.Inconclusive(id, "no context captured")
			return
		}
		call(func() { hc.Write([]byte("Pwrite")) })
	case "Channel.Trigger":
		call(func() { rig.Ch.Trigger(c07Ev{1}) })
	case "ctx.Trigger":
		hc := ctxOf(cell.from)
		if hc == nil {
			c.Inconclusive(id, "no context captured")
			return
		}
		call(func() { hc.Trigger(c07Ev{1}) })
	}
	if escaped != nil {
		viol("panic-escaped-into-caller", fmt.Sprintf("a panic (%v) raised by a handler escaped into the caller of %s", escaped, cell.entry))
		return
	}
	// wait for the effect of read-loop injections
	if cell.entry == "read-loop" && cell.state == "open" {
		deadline := time.Now().Add(5 * time.Second)
		for time.Now().Before(deadline) {
			p.mu.Lock()
			f := p.fired
			p.mu.Unlock()
			if f > 0 {
				break
			}
			time.Sleep(50 * time.Microsecond)
		}
	}
	if cell.state == "closing" {
		rig.S.Mark("inject-done")
		select {
		case <-closeDone:
		case <-time.After(10 * time.Second):
			c.Inconclusive(id, "watchdog: Close did not finish")
		}
		return // only "no escape, no crash" is required
	}
	if cell.state == "closed" {
		return
	}
	p.mu.Lock()
	fired := p.fired
	p.mu.Unlock()
	if fired != 1 {
		// the panic site was not reached (e.g. activation order) - nothing to judge
		c.Count("panic_site_not_reached", 1)
		return
	}
	wantClosed := cell.shape == "none" || cell.shape == "forwards"
	// let the exception path complete: closed => executor idle; open => read loop parked again
	if wantClosed {
		if !rig.Ex.WaitOutstanding(0, 5*time.Second) {
			if rig.T.IsClosed() {
				c.Inconclusive(id, "watchdog: actions outstanding after close")
			} else {
				viol("unconsumed-exception-did-not-close", "no handler consumed the exception but the channel was not closed")
			}
			return
		}
	} else if cell.entry == "read-loop" {
		// consumed: give the exception probe a chance to see it
		deadline := time.Now().Add(5 * time.Second)
		for time.Now().Before(deadline) {
			excs[len(excs)-1].mu.Lock()
			k := len(excs[len(excs)-1].seen)
			excs[len(excs)-1].mu.Unlock()
			if k > 0 {
				break
			}
			time.Sleep(50 * time.Microsecond)
		}
	}
	// exception probes: exactly one each, in pipeline order, right value
	var lastTick uint64
	for _, e := range excs {
		e.mu.Lock()
		seen := append([]error(nil), e.seen...)
		ticks := append([]uint64(nil), e.ticks...)
		e.mu.Unlock()
		c.Count("exceptions_checked", 1)
		if len(seen) != 1 {
			viol("exception-count", fmt.Sprintf("exception handler %q saw %d exceptions for one injected panic (%s)", e.name, len(seen), vname))
			return
		}
		if ticks[0] < lastTick {
			viol("exception-order", "exception handlers were not visited in pipeline order")
		}
		lastTick = ticks[0]
		if !c07SameExc(seen[0], val, cell.val) {
			viol("exception-value", fmt.Sprintf("exception handler %q received %v (%T) for a panic with %s value %v", e.name, seen[0], seen[0], vname, val))
		}
	}
	in.mu.Lock()
	inact := append([]error(nil), in.errs...)
	in.mu.Unlock()
	if wantClosed {
		if rig.Ch.IsActive() || !rig.T.IsClosed() {
			viol("unconsumed-exception-did-not-close", "no handler consumed the exception but the channel is still open")
			return
		}
		if len(inact) != 1 {
			viol("inactive-count-after-exception", fmt.Sprintf("inactive delivered %d times", len(inact)))
		} else if !c07SameExc(inact[0], val, cell.val) {
			viol("inactive-carries-other-error", fmt.Sprintf("the channel was closed because of the unconsumed exception but inactive carried %v", inact[0]))
		}
		return
	}
	if cell.state == "open-parent-context-ended" {
		return // the read loop will close the channel as soon as it comes around: usability is not required
	}
	// consumed: channel must stay usable (unless the documented non-timeout net.Error close applied)
	if cell.entry == "read-loop" {
		// the read loop deals with the recovered panic on its own goroutine: after the exception handlers it either closes
		// the channel (non-timeout net.Error rule) or goes back into the transport's Read - wait for one of the two
		for dl := time.Now().Add(2 * time.Second); rig.Ch.IsActive() && rig.T.InRead() == 0 && time.Now().Before(dl); {
			time.Sleep(20 * time.Microsecond)
		}
	}
	if cell.val == 4 && !rig.Ch.IsActive() {
		c.Count("closed_by_nontimeout_neterror_rule", 1)
		return
	}
	if !rig.Ch.IsActive() || rig.T.IsClosed() {
		viol("consumed-exception-closed-channel", "the exception was consumed by a handler but the channel was closed")
		return
	}
	// a following read is delivered to the last probe
	last := probes[len(probes)-1]
	rig.T.FeedBytes([]byte{'r'})
	okRead := false
	deadline := time.Now().Add(5 * time.Second)
	for time.Now().Before(deadline) && !okRead {
		last.mu.Lock()
		for _, b := range last.reads {
			if b == 'r' {
				okRead = true
			}
		}
		last.mu.Unlock()
		if !okRead {
			time.Sleep(50 * time.Microsecond)
		}
	}
	if !okRead {
		if rig.Ex.Outstanding() == 0 {
			viol("read-loop-died-after-panic", "after a consumed handler panic the read loop is gone: a following inbound message was never delivered")
		} else {
			c.Inconclusive(id, "watchdog: follow-up read not seen")
		}
		return
	}
	// a following write reaches the wire (and returns)
	if st := c07WriteWD(rig.Ch, []byte("after-panic")); st != "" {
		if st == "blocked" {
			viol("following-write-blocked-forever", "after a consumed handler panic a following Channel.Write never returned (still blocked inside the head handler after 5 s)")
		} else {
			c.Inconclusive(id, "watchdog: follow-up write did not return")
		}
		return
	}
	rig.Ex.WaitOutstanding(1, 5*time.Second)
	if !containsBytes(rig.T.Wire(), []byte("after-panic")) {
		viol("channel-unusable-after-consumed-panic", "after a consumed handler panic a following write never reached the transport")
	}
	c.Count("usable_after_consumed", 1)
	if c.WantSample() {
		c.Sample(map[string]interface{}{"cell": cell.String(), "exceptions_seen": len(excs), "closed": !rig.Ch.IsActive()})
	}
}

// c07WriteWD performs Channel.Write with a watchdog: "" = returned, "blocked" = still parked in the
// head handler on a mutex after 5 s (a definite stuck state), "timeout" otherwise.
func c07WriteWD(ch netty.Channel, msg netty.Message) string {
	done := make(chan struct{})
	go func() {
		defer close(done)
		defer func() { recover() }()
		ch.Write(msg)
	}()
	select {
	case <-done:
		return ""
	case <-time.After(5 * time.Second):
		if mon.ParkedIn("headHandler.HandleWrite", "sync.Mutex.Lock", "semacquire") > 0 {
			return "blocked"
		}
		return "timeout"
	}
}

func containsBytes(h, n []byte) bool {
	for i := 0; i+len(n) <= len(h); i++ {
		if string(h[i:i+len(n)]) == string(n) {
			return true
		}
	}
	return false
}

// c07SameExc: the exception must be the panic value itself when it is an error, else carry its text.
func c07SameExc(got error, val interface{}, kind int) bool {
	if got == nil {
		return false
	}
	if kind == 2 {
		// the runtime error itself (it is an error): the very value the runtime panicked with
		if p, _ := c07LastRuntimeErr.Load().(*interface{}); p != nil {
			if e, ok := (*p).(error); ok {
				return got == e
			}
		}
		var re interface{ RuntimeError() }
		return errors.As(got, &re)
	}
	if e, ok := val.(error); ok {
		return got == e
	}
	return got.Error() == fmt.Sprint(val)
}

// c07Idle: a panic in the handlers of an idle event must be routed as an exception.
func c07Idle(c *core.Ctx, id string, valKind int, shape string, readIdle bool) {
	cell := c07Cell{n: 2, pos: 2, kind: "event", entry: "idle-timer", val: valKind, shape: shape, state: "open", mode: mon.Sync}
	var idle netty.Handler
	if readIdle {
		idle = netty.ReadIdleHandler(time.Second)
	} else {
		idle = netty.WriteIdleHandler(time.Second)
	}
	rig, probes, excs, in, arm := c07Build(cell, idle)
	defer rig.Dispose()
	arm()
	c.Count("idle_cells", 1)
	c.Sig("idle", valKind, shape, readIdle)
	val, vname := c07PanicValue(valKind)
	p := probes[1]
	deadline := time.Now().Add(8 * time.Second)
	for time.Now().Before(deadline) {
		p.mu.Lock()
		f := p.fired
		p.mu.Unlock()
		if f > 0 {
			break
		}
		time.Sleep(5 * time.Millisecond)
	}
	p.mu.Lock()
	fired := p.fired
	p.mu.Unlock()
	if fired == 0 {
		c.Inconclusive(id, "idle event never reached the panicking handler within 8 s")
		return
	}
	time.Sleep(20 * time.Millisecond) // the timer goroutine finishes routing; verdict below does not depend on more than that
	wantClosed := shape == "none" || shape == "forwards"
	for _, e := range excs {
		dl := time.Now().Add(3 * time.Second)
		for time.Now().Before(dl) {
			e.mu.Lock()
			k := len(e.seen)
			e.mu.Unlock()
			if k > 0 {
				break
			}
			time.Sleep(time.Millisecond)
		}
		e.mu.Lock()
		seen := append([]error(nil), e.seen...)
		e.mu.Unlock()
		c.Count("exceptions_checked", 1)
		if len(seen) != 1 {
			c.Violation("C07:exception-count", id, fmt.Sprintf("idle-timer entry: exception handler %q saw %d exceptions for one panic (%s) [%s]", e.name, len(seen), vname, cell), nil)
			return
		}
		if !c07SameExc(seen[0], val, valKind) {
			c.Violation("C07:exception-value", id, fmt.Sprintf("idle-timer entry: exception handler %q received %v for panic value %v [%s]", e.name, seen[0], val, cell), nil)
		}
	}
	if wantClosed {
		dl := time.Now().Add(3 * time.Second)
		for time.Now().Before(dl) && rig.Ch.IsActive() {
			time.Sleep(time.Millisecond)
		}
		if rig.Ch.IsActive() {
			c.Violation("C07:unconsumed-exception-did-not-close", id, "idle-timer entry: no handler consumed the exception but the channel is still open ["+cell.String()+"]", nil)
		}
		_ = in
	} else if !rig.Ch.IsActive() && valKind != 4 {
		c.Violation("C07:consumed-exception-closed-channel", id, "idle-timer entry: the exception was consumed but the channel was closed ["+cell.String()+"]", nil)
	}
}

// c07Fault: transport failures.
// c07TextSink records text messages and panics on the ones starting with "bad".
type c07TextSink struct {
	mu   sync.Mutex
	msgs []string
	val  interface{}
}

func (t *c07TextSink) HandleRead(ctx netty.InboundContext, message netty.Message) {
	s, ok := message.(string)
	if !ok {
		ctx.HandleRead(message)
		return
	}
	t.mu.Lock()
	t.msgs = append(t.msgs, s)
	t.mu.Unlock()
	if strings.HasPrefix(s, "bad") {
		if t.val == nil {
			var m map[string]int
			m["boom"] = 1 // a real runtime error
		}
		panic(t.val)
	}
}

func c07PacketAfterPanic(c *core.Ctx, id string, mode mon.Mode, valKind int, inner string) {
	val, _ := c07PanicValue(valKind)
	if ne, ok := val.(net.Error); ok && !ne.Timeout() {
		return // the documented exception: a non-timeout net.Error closes the channel
	}
	sink := &c07TextSink{val: val}
	exc := &excProbe{name: "only", swallow: true}
	hs := []netty.Handler{frame.PacketCodec(64)}
	enc := func(s string) []byte { return []byte(s) }
	if inner == "length-field+text" {
		hs = append(hs, frame.LengthFieldCodec(binary.BigEndian, 1024, 0, 2, 0, 2))
		enc = func(s string) []byte { return append([]byte{byte(len(s) >> 8), byte(len(s))}, s...) }
	}
	hs = append(hs, format.TextCodec(), sink, exc)
	tr := mon.NewRecTransport()
	packets := []string{"one", "bad packet", "two", "bad again", "three"}
	for _, p := range packets {
		tr.Feed(mon.ReadStep{Data: enc(p), WithErr: io.EOF})
	}
	rig := mon.NewRig(mon.RigOpts{Mode: mode, Queue: 4, NoPark: true, Handlers: hs, Tr: tr})
	defer rig.Dispose()
	for dl := time.Now().Add(10 * time.Second); !(tr.ScriptExhausted() && tr.InRead() > 0) && !tr.IsClosed(); {
		if time.Now().After(dl) {
			c.Inconclusive(id, "watchdog: packets not consumed")
			return
		}
		time.Sleep(50 * time.Microsecond)
	}
	c.Count("packet_after_panic_cells", 1)
	c.Sig("packet-after-panic", mode, valKind, inner)
	sink.mu.Lock()
	got := append([]string(nil), sink.msgs...)
	sink.mu.Unlock()
	exc.mu.Lock()
	nexc := len(exc.seen)
	exc.mu.Unlock()
	where := fmt.Sprintf("[PacketCodec -> %s -> handler panicking with %T on two of five packets, exceptions consumed, mode=%s]", inner, val, mode)
	if tr.IsClosed() || !rig.Ch.IsActive() {
		c.Violation("C07:consumed-exception-closed-channel", id, "the panics were consumed but the channel was closed "+where, nil)
		return
	}
	if nexc != 2 {
		c.Violation("C07:exception-count", id, fmt.Sprintf("two read-event panics were delivered %d times as exceptions %s", nexc, where), nil)
		return
	}
	if fmt.Sprint(got) != fmt.Sprint(packets) {
		c.Violation("C07:channel-unusable-after-consumed-panic", id, fmt.Sprintf("after a consumed read-event panic the following packets are not delivered as they were received: got %q, want %q %s", got, packets, where), nil)
	}
}

// c07HTTPDoubleFault: the handler of the shipped HTTP server codec panics, and finishing the response fails as well (the
// transport refuses every write). The handler's panic is what the exception handlers get - once, the value itself.
func c07HTTPDoubleFault(c *core.Ctx, id string, mode mon.Mode, valKind int, wrote bool) {
	val, _ := c07PanicValue(valKind)
	exc := &excProbe{name: "first", swallow: true}
	h := http.HandlerFunc(func(w http.ResponseWriter, r *http.Request) {
		if wrote {
			w.Header().Set("Content-Length", "5")
			w.Write([]byte("hello"))
		}
		if val == nil {
			defer func() {
				r := recover()
				c07LastRuntimeErr.Store(&r)
				panic(r)
			}()
			var m map[string]int
			m["boom"] = 1
		}
		panic(val)
	})
	tr := mon.NewRecTransport()
	tr.AddFault(mon.Fault{Kind: mon.OpWrite, K: 0, Err: errors.New("c07 peer gone")})
	tr.AddFault(mon.Fault{Kind: mon.OpWritev, K: 0, Err: errors.New("c07 peer gone")})
	tr.FeedBytes([]byte("GET /x HTTP/1.1\r\nHost: c07.test\r\n\r\n"))
	rig := mon.NewRig(mon.RigOpts{Mode: mode, Queue: 4, NoPark: true, Tr: tr, Handlers: []netty.Handler{exc, xhttp.ServerCodec(), xhttp.Handler(h)}})
	defer rig.Dispose()
	for dl := time.Now().Add(5 * time.Second); time.Now().Before(dl); {
		exc.mu.Lock()
		n := len(exc.seen)
		exc.mu.Unlock()
		if n > 0 {
			break
		}
		time.Sleep(100 * time.Microsecond)
	}
	time.Sleep(2 * time.Millisecond)
	c.Count("http_double_fault_cells", 1)
	c.Sig("http-double-fault", mode, valKind, wrote)
	exc.mu.Lock()
	seen := append([]error(nil), exc.seen...)
	exc.mu.Unlock()
	where := fmt.Sprintf("[http.Handler panicking with %T behind ServerCodec, every transport write failing, mode=%s, response written=%v]", val, mode, wrote)
	if len(seen) == 0 {
		c.Violation("C07:handler-panic-not-routed", id, "the http.Handler's panic was not delivered as an exception "+where, nil)
		return
	}
	if !c07SameExc(seen[0], val, valKind) {
		c.Violation("C07:exception-value", id, fmt.Sprintf("the exception handlers received %T %v instead of the handler's panic value %s", seen[0], seen[0], where), nil)
	}
}

// c07Drain reads every delivered frame to its end and raises a read error the way the shipped codecs do.
type c07Drain struct{}

func (c07Drain) HandleRead(ctx netty.InboundContext, message netty.Message) {
	if r, ok := message.(io.Reader); ok {
		if _, err := io.Copy(io.Discard, r); err != nil {
			panic(err)
		}
	}
}

// c07ReadCodecs: the shipped frame decoders a failing transport read may travel through (frame = one byte 'x').
var c07ReadCodecs = []struct {
	name  string
	mk    func() netty.Handler
	frame []byte
}{
	{"none", nil, []byte{'x'}},
	{"length-field", func() netty.Handler { return frame.LengthFieldCodec(binary.BigEndian, 64, 0, 2, 0, 2) }, []byte{0, 1, 'x'}},
	{"length-field-strip-into-body", func() netty.Handler { return frame.LengthFieldCodec(binary.BigEndian, 64, 0, 2, 0, 3) }, []byte{0, 2, 'y', 'x'}},
	{"varint", func() netty.Handler { return frame.VarintLengthFieldCodec(64) }, []byte{1, 'x'}},
	{"delimiter", func() netty.Handler { return frame.DelimiterCodec(64, "\n", true) }, []byte{'x', '\n'}},
	{"fixed", func() netty.Handler { return frame.FixedLengthCodec(2) }, []byte{'x', 'x'}},
}

func c07Fault(c *core.Ctx, id string, mode mon.Mode, op string, k, ek int, swallow bool) {
	c07FaultVia(c, id, mode, op, k, ek, swallow, 0)
}

func c07FaultVia(c *core.Ctx, id string, mode mon.Mode, op string, k, ek int, swallow bool, codec int) {
	var ferr error
	switch ek {
	case 0:
		ferr = errors.New("c07 plain transport failure")
	case 1:
		ferr = tmoErr{true}
	default:
		ferr = tmoErr{false}
	}
	exc := &excProbe{name: "only", swallow: swallow}
	in := &inactProbe{}
	hs := []netty.Handler{&mon.ParkReader{}, exc, in}
	cd := c07ReadCodecs[codec]
	if cd.mk != nil {
		hs = []netty.Handler{cd.mk(), c07Drain{}, exc, in}
		c.Count("read_fault_cells_through_a_frame_decoder", 1)
	}
	tr := mon.NewRecTransport()
	tr.SetMaxReadChunk(1) // one byte per transport read: the k-th read falls into a header, a body or a delimiter
	rig := mon.NewRig(mon.RigOpts{Mode: mode, Queue: 4, NoPark: true, Handlers: hs, Tr: tr})
	defer rig.Dispose()
	c.Count("fault_cells", 1)
	c.Sig("fault", mode, op, k, ek, swallow, cd.name)
	viol := func(key, what string) {
		ops, _ := rig.T.Snapshot()
		c.Violation("C07:"+key, id, fmt.Sprintf("%s [fault %s#%d err=%v mode=%s swallow=%v]", what, op, k, ferr, mode, swallow), map[string]interface{}{"ops": tailOpString(ops)})
	}
	rig.T.AddFault(mon.Fault{Kind: op, K: k, Err: ferr})
	escaped := interface{}(nil)
	call := func(fn func()) {
		defer func() {
			if r := recover(); r != nil {
				escaped = r
			}
		}()
		fn()
	}
	if op == mon.OpRead {
		// reads 1..k: the k-th fails
		for i := 0; i < 4; i++ {
			rig.T.FeedBytes(cd.frame)
		}
	} else {
		// drive enough writes through Channel.Write for the k-th transport call to happen
		for i := 0; i < 4 && escaped == nil; i++ {
			for _, msg := range []netty.Message{mon.Payload(1, i, 32), [][]byte{mon.Payload(2, i, 32)}} {
				msg := msg
				done := make(chan struct{})
				go func() { defer close(done); call(func() { rig.Ch.Write(msg) }) }()
				select {
				case <-done:
				case <-time.After(5 * time.Second):
					if mon.ParkedIn("headHandler.HandleWrite", "sync.Mutex.Lock", "semacquire") > 0 {
						viol("following-write-blocked-forever", "after a transport write failure that a handler consumed, the next Channel.Write never returned (blocked inside the head handler)")
					} else if mode != mon.Sync && !rig.T.IsClosed() && !rig.Ch.IsActive() && mon.ParkedIn("(*channel).writeOnce", "sleep") > 0 && mon.ParkedIn("(*channel).Close", "sleep") > 0 {
						// the failed sender sits inside Close polling for the sender flag it still holds itself: nothing can ever
						// clear it, so the transport is never closed and the channel stays 'closing' forever
						viol("sender-failure-did-not-close", "the background sender's transport call failed and the sender is parked inside Close waiting for its own sender flag: the transport is never closed, inactive never delivered, and the next Channel.Write blocks forever")
					} else {
						c.Inconclusive(id, "watchdog: Channel.Write did not return")
					}
					return
				}
			}
			if mode != mon.Sync {
				rig.Ex.WaitOutstanding(1, 5*time.Second)
			}
		}
	}
	if escaped != nil {
		viol("panic-escaped-into-caller", fmt.Sprintf("a transport failure escaped as a panic (%v) into the caller of Channel.Write", escaped))
		return
	}
	// did the fault fire?
	fired := false
	deadline := time.Now().Add(3 * time.Second)
	for time.Now().Before(deadline) && !fired {
		ops, _ := rig.T.Snapshot()
		for _, o := range ops {
			if o.Err == ferr {
				fired = true
			}
		}
		if op == mon.OpRead {
			exc.mu.Lock()
			fired = len(exc.seen) > 0
			exc.mu.Unlock()
		}
		if !fired {
			time.Sleep(100 * time.Microsecond)
		}
	}
	if !fired {
		c.Count("fault_not_reached", 1)
		return
	}
	senderFault := mode != mon.Sync && (op == mon.OpWritev || op == mon.OpFlush)
	switch {
	case senderFault:
		// a failing transport write in the background sender closes the channel with that error
		if !rig.Ex.WaitOutstanding(0, 5*time.Second) {
			if !rig.T.IsClosed() {
				viol("sender-failure-did-not-close", "the background sender's transport write failed but the channel was not closed")
			} else {
				c.Inconclusive(id, "watchdog after sender failure")
			}
			return
		}
		in.mu.Lock()
		inact := append([]error(nil), in.errs...)
		in.mu.Unlock()
		if rig.Ch.IsActive() || len(inact) != 1 {
			viol("sender-failure-did-not-close", fmt.Sprintf("after the sender's transport write failed: active=%v inactive events=%d", rig.Ch.IsActive(), len(inact)))
		} else if !errors.Is(inact[0], ferr) {
			viol("sender-failure-wrong-close-error", fmt.Sprintf("the channel was closed with %v instead of the sender's write error", inact[0]))
		}
		c.Count("sender_failures_checked", 1)
	case op == mon.OpRead:
		exc.mu.Lock()
		seen := append([]error(nil), exc.seen...)
		exc.mu.Unlock()
		if len(seen) < 1 || !errors.Is(seen[0], ferr) {
			viol("read-failure-not-routed", fmt.Sprintf("a failing transport read was not delivered as that exception (saw %v)", seen))
			return
		}
		if !swallow {
			if !rig.Ex.WaitOutstanding(0, 5*time.Second) {
				viol("read-failure-did-not-close", "an unswallowed transport read failure did not close the channel / end the read loop")
				return
			}
			in.mu.Lock()
			inact := append([]error(nil), in.errs...)
			in.mu.Unlock()
			if len(inact) != 1 || !errors.Is(inact[0], ferr) {
				viol("read-failure-wrong-close-error", fmt.Sprintf("after an unswallowed read failure inactive carried %v", inact))
			}
		} else if ek != 2 {
			// swallowed (and not the documented non-timeout net.Error close): remains usable
			if !rig.Ch.IsActive() {
				viol("consumed-exception-closed-channel", "a swallowed transport read failure closed the channel")
				return
			}
			call(func() { rig.Ch.Write([]byte("after-fault")) })
			if mode != mon.Sync {
				rig.Ex.WaitOutstanding(1, 5*time.Second)
			}
			if !containsBytes(rig.T.Wire(), []byte("after-fault")) {
				viol("channel-unusable-after-consumed-panic", "after a swallowed read failure a following write never reached the transport")
			}
		}
		c.Count("read_failures_checked", 1)
	default:
		// sync-path write failure: surfaces as an exception of the failing Channel.Write
		exc.mu.Lock()
		seen := append([]error(nil), exc.seen...)
		exc.mu.Unlock()
		if len(seen) < 1 || !errors.Is(seen[0], ferr) {
			viol("write-failure-not-routed", fmt.Sprintf("a failing synchronous transport write was not delivered as that exception (saw %v)", seen))
		}
		if swallow && ek != 2 && rig.Ch.IsActive() {
			if st := c07WriteWD(rig.Ch, []byte("after-fault")); st == "blocked" {
				viol("following-write-blocked-forever", "after a consumed synchronous write failure a following Channel.Write never returned")
			} else if st == "" {
				if mode != mon.Sync {
					rig.Ex.WaitOutstanding(1, 5*time.Second)
				}
				if !containsBytes(rig.T.Wire(), []byte("after-fault")) {
					viol("channel-unusable-after-consumed-panic", "after a consumed write failure a following write never reached the transport")
				}
			}
		}
		c.Count("sync_write_failures_checked", 1)
	}
}

var _ net.Error = tmoErr{}

// c07HolderDup: channels A (id 7), B (id 7 again) and C (id 8) share one ChannelHolder. B's active event panics inside the
// holder ("duplicate channel"): the panic must be routed as an exception on B, close B when nobody consumes it (or leave B
// usable when consumed), must not wedge B's read goroutine, and must leave A, C and the holder working.
func c07HolderDup(c *core.Ctx, id string, mode mon.Mode, swallow bool) {
	holder := netty.NewChannelHolder(4)
	type built struct {
		rig *mon.Rig
		exc *excProbe
		in  *inactProbe
	}
	build := func(chID int64) *built {
		b := &built{exc: &excProbe{name: "only", swallow: swallow}, in: &inactProbe{}}
		done := make(chan struct{})
		go func() {
			defer close(done)
			b.rig = mon.NewRig(mon.RigOpts{Mode: mode, Queue: 4, ID: chID, QuietTail: true, Handlers: []netty.Handler{holder, b.exc, b.in}})
		}()
		select {
		case <-done:
			return b
		case <-time.After(10 * time.Second):
			return nil
		}
	}
	c.Count("holder_duplicate_cells", 1)
	c.Sig("holder-dup", mode, swallow)
	viol := func(key, what string) {
		c.Violation("C07:"+key, id, fmt.Sprintf("%s [mode=%s exception handler swallows=%v]", what, mode, swallow), nil)
	}
	wedged := func(who string) bool {
		if mon.ParkedIn("(*channelHolder)", "sync.Mutex.Lock", "sync.RWMutex.Lock", "sync.RWMutex.RLock", "semacquire") > 0 {
			viol("active-panic-in-holder-wedges-channels", "after the channel holder panicked in an active event (duplicate channel id) "+who+" never finished its active event: a goroutine is parked on the holder's lock, which the panic left locked")
			return true
		}
		return false
	}
	a := build(7)
	if a == nil {
		c.Inconclusive(id, "watchdog: first channel did not become active")
		return
	}
	defer a.rig.Dispose()
	b := build(7)
	if b == nil {
		if !wedged("the refused channel") {
			c.Inconclusive(id, "watchdog: second channel did not finish its active event")
		}
		return
	}
	defer b.rig.Dispose()
	b.exc.mu.Lock()
	seen := append([]error(nil), b.exc.seen...)
	b.exc.mu.Unlock()
	if len(seen) != 1 || !strings.Contains(seen[0].Error(), "duplicate channel") {
		viol("panic-not-routed-as-exception", fmt.Sprintf("the holder's panic during the active event was delivered %d times as an exception (%v)", len(seen), seen))
		return
	}
	if !swallow {
		if !b.rig.Ex.WaitOutstanding(0, 5*time.Second) || !b.rig.T.IsClosed() {
			if !wedged("the refused channel") {
				viol("unconsumed-exception-did-not-close", "nobody consumed the exception of the holder's panic but the channel was not closed / its read loop did not end")
			}
			return
		}
		b.in.mu.Lock()
		inact := append([]error(nil), b.in.errs...)
		b.in.mu.Unlock()
		if len(inact) != 1 || inact[0] != seen[0] {
			viol("unconsumed-exception-wrong-close-error", fmt.Sprintf("the channel was closed with %v instead of the exception %v", inact, seen[0]))
		}
	} else {
		if !b.rig.Ch.IsActive() {
			viol("consumed-exception-closed-channel", "the exception of the holder's panic was consumed but the channel was closed")
			return
		}
		if st := c07WriteWD(b.rig.Ch, []byte("after-dup")); st != "" {
			viol("following-write-blocked-forever", "after the consumed exception of the holder's panic a Channel.Write never returned")
			return
		}
		b.rig.Ex.WaitOutstanding(1, 5*time.Second)
		if !containsBytes(b.rig.T.Wire(), []byte("after-dup")) {
			viol("channel-unusable-after-consumed-panic", "after the consumed exception of the holder's panic a following write never reached the transport")
		}
	}
	// the other channels of the holder are not affected
	cc := build(8)
	if cc == nil {
		if !wedged("a later channel of the same holder") {
			c.Inconclusive(id, "watchdog: third channel did not become active")
		}
		return
	}
	defer cc.rig.Dispose()
	if st := c07WriteWD(a.rig.Ch, []byte("a-still-works")); st != "" {
		viol("following-write-blocked-forever", "after the holder's panic on another channel a Channel.Write on the first channel never returned")
		return
	}
	a.rig.Ex.WaitOutstanding(1, 5*time.Second)
	if !containsBytes(a.rig.T.Wire(), []byte("a-still-works")) {
		viol("channel-unusable-after-consumed-panic", "after the holder's panic on another channel a write on the first channel never reached the transport")
	}
	closed := make(chan struct{})
	go func() { defer close(closed); holder.CloseAll(nil) }()
	select {
	case <-closed:
	case <-time.After(10 * time.Second):
		if !wedged("CloseAll") {
			c.Inconclusive(id, "watchdog: CloseAll did not return")
		}
		return
	}
	if !cc.rig.T.IsClosed() {
		viol("holder-close-all-skipped-channel", "CloseAll returned but a registered channel's transport is still open")
	}
	c.Count("holder_duplicate_checked", 1)
}

func c07Unsupported(c *core.Ctx, id string, mode mon.Mode, shape string, bad netty.Message) {
	cell := c07Cell{n: 1, pos: 1, kind: "none", entry: "Channel.Write", val: 0, shape: shape, state: "open", mode: mode}
	rig, _, excs, _, _ := c07Build(cell)
	defer rig.Dispose()
	c.Count("unsupported_cells", 1)
	c.Sig("unsupported", mode, shape, fmt.Sprintf("%T", bad))
	if st := c07WriteWD(rig.Ch, bad); st != "" {
		c.Inconclusive(id, "watchdog on the unsupported write")
		return
	}
	for _, e := range excs {
		e.mu.Lock()
		n := len(e.seen)
		e.mu.Unlock()
		if n != 1 {
			c.Violation("C07:exception-count", id, fmt.Sprintf("unsupported message type %T: exception handler %q saw %d exceptions", bad, e.name, n), nil)
			return
		}
	}
	if !rig.Ch.IsActive() {
		c.Violation("C07:consumed-exception-closed-channel", id, fmt.Sprintf("the exception for an unsupported message type %T was consumed but the channel was closed", bad), nil)
		return
	}
	switch c07WriteWD(rig.Ch, []byte("after-unsupported")) {
	case "blocked":
		c.Violation("C07:following-write-blocked-forever", id, fmt.Sprintf("after a consumed exception for an unsupported message type %T the next Channel.Write never returned (blocked inside the head handler) [mode=%s]", bad, mode), nil)
		return
	case "timeout":
		c.Inconclusive(id, "watchdog on the follow-up write")
		return
	}
	rig.Ex.WaitOutstanding(1, 5*time.Second)
	if !containsBytes(rig.T.Wire(), []byte("after-unsupported")) {
		c.Violation("C07:channel-unusable-after-consumed-panic", id, "after a consumed unsupported-type exception a following write never reached the transport", nil)
	}
}
