package props

import (
	"bytes"
	"context"
	"encoding/binary"
	"fmt"
	"hash/crc32"
	"io"
	"runtime"
	"strings"
	"sync"
	"testing/iotest"
	"time"

	netty "github.com/go-netty/go-netty"
	"github.com/go-netty/go-netty/codec/format"
	"github.com/go-netty/go-netty/codec/frame"

	"verif/core"
	"verif/mon"
)

func init() {
	core.Register(&core.Prop{
		ID:    "C09",
		Level: "exploration",
		Rule: "trial = one channel (sync / queued), W in {2,4,8} goroutines each writing 60-200 self-describing messages through Channel.Write or ctx.Write with one carrier class per trial ([]byte, [][]byte, *bytes.Buffer, *bytes.Reader, *strings.Reader, read-only io.Reader, io.MultiReader, string via the text codec) and sizes below/at/above the 1024-byte streaming chunk, " +
			"through one of the pipelines {none, delimiter+text (the README pipeline), length-field, varint}, with yields injected at transport calls; oracle: the wire decoded with a reference decoder of the installed frame codec must be a sequence of whole records; a torn record is classified by the carrier reaching the head handler and by whether the tear sits on a boundary between two low-level writes; " +
			"distinct_nontrivial = distinct (pipeline, carrier, mode, W, size class, observed writer-interleaving pattern prefix) among trials in which messages of different writers actually alternated on the wire",
		Assumptions: []string{"only tears are judged (order and completeness are C01/C02)", "bounds: <=8 writers, <=200 messages per writer, sizes 32..5000"},
		Shards:      func(tier string) int { return 8 },
		TimeoutSec:  func(tier string) int { return map[bool]int{true: 300, false: 1800}[tier != "thorough"] },
		Required:    []string{"messages_on_wire", "trials_with_interleaving"},
		Run:         runC09,
	})
}

// text-armoured record: M<wid>-<seq>-<len>-<filler>-<crc32 hex>, no delimiter bytes inside.
func armoured(wid, seq, size int) string {
	if size < 40 {
		size = 40
	}
	head := fmt.Sprintf("M%02d-%06d-%05d-", wid, seq, size)
	fill := size - len(head) - 9
	b := make([]byte, 0, size)
	b = append(b, head...)
	for i := 0; i < fill; i++ {
		b = append(b, byte('a'+(wid+seq+i)%26))
	}
	b = append(b, fmt.Sprintf("-%08x", crc32.ChecksumIEEE(b))...)
	return string(b)
}

func parseArmoured(line []byte) (wid, seq int, ok bool) {
	var size int
	if len(line) < 27 || line[0] != 'M' {
		return
	}
	if n, _ := fmt.Sscanf(string(line[:17]), "M%02d-%06d-%05d-", &wid, &seq, &size); n != 3 {
		return
	}
	if size != len(line) {
		return wid, seq, false
	}
	var crc uint32
	if n, _ := fmt.Sscanf(string(line[len(line)-9:]), "-%08x", &crc); n != 1 {
		return wid, seq, false
	}
	return wid, seq, crc32.ChecksumIEEE(line[:len(line)-9]) == crc
}

type onlyReader struct{ r io.Reader }

func (o onlyReader) Read(p []byte) (int, error) { return o.r.Read(p) }

var c09Carriers = []string{"[]byte", "[][]byte", "*bytes.Buffer", "*bytes.Reader", "*strings.Reader", "io.Reader", "io.MultiReader", "string", "io.Reader(data+EOF)"}
var c09Pipes = []string{"none", "delimiter+text", "length-field", "varint"}

// streamAtHead reports whether the message reaches the head handler as an
// io.WriterTo / io.Reader (several low-level writes) for this pipeline+carrier.
func streamAtHead(pipe, carrier string) bool {
	if i := strings.IndexByte(carrier, '+'); i > 0 {
		carrier = carrier[:i] // mixed trial: the torn message is attributed below by its header
	}
	switch pipe {
	case "none":
		return carrier == "*bytes.Reader" || carrier == "*strings.Reader" || carrier == "io.Reader" || carrier == "io.MultiReader" || carrier == "io.Reader(data+EOF)"
	case "delimiter+text":
		return carrier != "[]byte" // everything but []byte becomes MultiReader(body, delimiter)
	}
	return false // length-field / varint encoders gather the body and emit one [][]byte
}

func c09Msg(carrier string, data []byte) netty.Message {
	switch carrier {
	case "[]byte":
		return data
	case "[][]byte":
		k := len(data) / 3
		return [][]byte{data[:k], data[k : 2*k], data[2*k:]}
	case "*bytes.Buffer":
		return bytes.NewBuffer(data)
	case "*bytes.Reader":
		return bytes.NewReader(data)
	case "*strings.Reader":
		return strings.NewReader(string(data))
	case "io.Reader":
		return onlyReader{bytes.NewReader(data)}
	case "io.MultiReader":
		k := len(data) / 2
		return io.MultiReader(onlyReader{bytes.NewReader(data[:k])}, onlyReader{bytes.NewReader(data[k:])})
	case "string":
		return string(data)
	case "io.Reader(data+EOF)":
		return iotest.DataErrReader(onlyReader{bytes.NewReader(data)})
	}
	panic(carrier)
}

type ctxWriter struct {
	mu  sync.Mutex
	ctx netty.HandlerContext
}

func (c *ctxWriter) HandleActive(ctx netty.ActiveContext) {
	c.mu.Lock()
	c.ctx = ctx
	c.mu.Unlock()
	ctx.HandleActive()
}

func runC09(c *core.Ctx) {
	total := c.Scale(400, 8000)
	for idx := 0; idx < total; idx++ {
		if !c.Mine(idx) {
			continue
		}
		if c.Enough() {
			break
		}
		id := fmt.Sprintf("t%d", idx)
		if !c.Case(id) {
			continue
		}
		rng := c.Rand("cfg", idx)
		pipe := c09Pipes[idx%len(c09Pipes)]
		carrier := c09Carriers[(idx/len(c09Pipes))%len(c09Carriers)]
		if carrier == "string" && pipe != "delimiter+text" {
			carrier = "*strings.Reader"
		}
		if pipe == "delimiter+text" && carrier == "[][]byte" {
			carrier = "string" // the delimiter encoder only accepts what ToReader accepts; [][]byte is fine too but keep README usage dominant
		}
		mode := mon.Mode(rng.Intn(3))
		q := []int{1, 4, 64}[rng.Intn(3)]
		if mode == mon.NonBlock {
			q = 32768 // a refused low-level write would cut a message short: not what C09 is about
		}
		W := []int{2, 4, 8}[rng.Intn(3)]
		per := 60 + rng.Intn(140)
		sizeClass := rng.Intn(3)
		sizes := [][]int{{40, 64, 200, 700}, {1000, 1023, 1024, 1025, 1100}, {2047, 2048, 2049, 3000, 5000}}[sizeClass]
		useCtx := rng.Intn(3) == 0
		// mixed trials: even writers stream (several low-level writes per message), odd writers send single-write messages
		carrier2 := carrier
		if (idx/4)%7 == 3 && pipe == "none" {
			carrier = []string{"io.Reader", "io.MultiReader", "*bytes.Reader"}[rng.Intn(3)]
			carrier2 = []string{"[]byte", "[][]byte", "*bytes.Buffer"}[rng.Intn(3)]
			sizeClass = 2
			sizes = []int{2047, 2048, 2049, 3000, 5000}
		}
		// close-in-flight trials: Channel.Close arrives while streamed messages are being sent by a slow transport; whatever
		// was accepted before must still go out as whole messages, in one piece each (only the very last one may be cut short)
		closeInFlight := idx%8 == 6
		if closeInFlight {
			pipe = "none"
			carrier = []string{"io.Reader", "io.MultiReader", "*bytes.Reader", "*bytes.Buffer"}[rng.Intn(4)]
			carrier2 = []string{carrier, "[]byte", "[][]byte"}[rng.Intn(3)]
			sizeClass = 2
			sizes = []int{2047, 2048, 2049, 3000, 5000}
			if mode == mon.NonBlock {
				mode = mon.Blocking
			}
			q = []int{4, 8, 64}[rng.Intn(3)]
			per = 10 + rng.Intn(20)
		}
		// sender-fault trials: one Writev of the background sender fails (timeout or not) in the middle of streamed messages;
		// whatever the library does then (it closes the channel), the order in which bytes are HANDED to the transport -
		// refused batch included - still keeps every message in one piece
		senderFault := idx%8 == 2
		if senderFault {
			pipe = "none"
			carrier = []string{"io.Reader", "io.MultiReader", "*bytes.Reader"}[rng.Intn(3)]
			carrier2 = []string{carrier, "[]byte"}[rng.Intn(2)]
			sizeClass = 2
			sizes = []int{2047, 2048, 2049, 3000, 5000}
			mode = []mon.Mode{mon.Blocking, mon.NonBlock}[rng.Intn(2)]
			q = []int{4, 8, 64}[rng.Intn(3)]
			if mode == mon.NonBlock {
				q = 32768
			}
			per = 10 + rng.Intn(20)
			closeInFlight = false
		}
		// the context the channel was created with ends while streamed messages are being written on a synchronous channel:
		// nobody closes the channel (its read loop is parked), writes go on, and messages still must not interleave
		parentEnds := idx%8 == 4
		if parentEnds {
			mode = mon.Sync
			carrier = []string{"io.Reader", "io.MultiReader", "*bytes.Reader", "*strings.Reader"}[rng.Intn(4)]
			if pipe == "delimiter+text" && rng.Intn(2) == 0 {
				carrier = "string"
			}
			carrier2 = carrier
			sizeClass = 2
			sizes = []int{2047, 2048, 2049, 3000, 5000}
			per = 20 + rng.Intn(30)
			closeInFlight, senderFault = false, false
		}
		procs := []int{1, 1, 2, 4, 8, 16}[rng.Intn(6)]
		runtime.GOMAXPROCS(procs)

		var handlers []netty.Handler
		cw := &ctxWriter{}
		switch pipe {
		case "delimiter+text":
			handlers = []netty.Handler{frame.DelimiterCodec(1<<20, "\n", true), format.TextCodec()}
		case "length-field":
			handlers = []netty.Handler{frame.LengthFieldCodec(binary.BigEndian, 1<<20, 0, 4, 0, 4)}
		case "varint":
			handlers = []netty.Handler{frame.VarintLengthFieldCodec(1 << 20)}
		}
		handlers = append(handlers, cw)
		plan := []mon.Step{{At: []string{"tW1", "tV1", "tW0", "tV0"}[rng.Intn(4)], Occ: 0, Kind: mon.Yield, N: 1 + rng.Intn(3)}}
		if rng.Intn(2) == 0 {
			// a sender that lags behind the writers: queued chunks wait in the queue / batch meanwhile
			plan = append(plan, mon.Step{At: []string{"sBat", "sLoop", "x1", "tV0"}[rng.Intn(4)], Occ: 0, Kind: mon.Sleep, D: time.Duration(50+rng.Intn(300)) * time.Microsecond})
		}
		if closeInFlight {
			plan = []mon.Step{{At: "tV0", Occ: 0, Kind: mon.Sleep, D: time.Duration(100+rng.Intn(400)) * time.Microsecond},
				{At: "tW0", Occ: 0, Kind: mon.Sleep, D: time.Duration(50+rng.Intn(100)) * time.Microsecond}}
		}
		var parentCancel context.CancelFunc
		ro := mon.RigOpts{Mode: mode, Queue: q, Handlers: handlers, QuietTail: true, Plan: plan}
		if parentEnds {
			ro.Ctx, parentCancel = context.WithCancel(context.Background())
			ro.Plan = []mon.Step{{At: "tW0", Occ: 0, Kind: mon.Sleep, D: time.Duration(20+rng.Intn(100)) * time.Microsecond},
				{At: "tV0", Occ: 0, Kind: mon.Sleep, D: time.Duration(20+rng.Intn(100)) * time.Microsecond}}
		}
		if idx%5 == 4 {
			// on the library's own (buffering) transport wrapper: the bytes are judged at the connection underneath
			wraps := [][2]int{{0, 4096}, {0, 64}, {4096, 4096}, {0, 0}}
			wv := wraps[(idx/5)%len(wraps)]
			ro.Wrap = &wv
			c.Count("trials_on_transport_wrapper", 1)
		}
		rig := mon.NewRig(ro)
		if senderFault {
			ferr := error(tmoErr{true})
			if rng.Intn(2) == 0 {
				ferr = tmoErr{false}
			}
			rig.T.AddFault(mon.Fault{Kind: mon.OpWritev, K: 2 + rng.Intn(5), Err: ferr})
			c.Count("trials_sender_fault", 1)
		}
		text := pipe == "delimiter+text"
		var wg sync.WaitGroup
		for w := 0; w < W; w++ {
			wg.Add(1)
			go func(w int) {
				defer wg.Done()
				for seq := 0; seq < per; seq++ {
					size := sizes[(seq+w)%len(sizes)]
					var data []byte
					if text {
						data = []byte(armoured(w, seq, size))
					} else {
						data = mon.Payload(w, seq, size)
					}
					car := carrier
					if w%2 == 1 {
						car = carrier2
						if carrier2 != carrier {
							sz := 64 // short single-write messages slip between the chunks of a streamed one
							if !text && carrier2 == "[][]byte" && seq%4 == 1 {
								sz = 70000 // ... and so must the ones above the pool's largest size class
							}
							data = data[:64]
							if text {
								data = []byte(armoured(w, seq, 64))
							} else {
								data = mon.Payload(w, seq, sz)
							}
						}
					}
					msg := c09Msg(car, data)
					if useCtx {
						cw.mu.Lock()
						hc := cw.ctx
						cw.mu.Unlock()
						hc.Write(msg)
					} else {
						rig.Ch.Write(msg)
					}
				}
			}(w)
		}
		var cg sync.WaitGroup
		if parentEnds {
			after := 5 + rng.Intn(40)
			cg.Add(1)
			go func() {
				defer cg.Done()
				for i := 0; i < 100000 && rig.S.Count("tW0")+rig.S.Count("tV0") < after; i++ {
					time.Sleep(20 * time.Microsecond)
				}
				parentCancel()
			}()
			c.Count("trials_parent_context_ends_mid_traffic", 1)
		}
		if closeInFlight {
			after := 1 + rng.Intn(6)
			wdone := make(chan struct{})
			go func() { wg.Wait(); close(wdone) }()
			cg.Add(1)
			go func() {
				defer cg.Done()
				// once a few transport calls have happened, with more traffic queued behind the slow one in progress
				// (or, at the latest, when the writers are through)
				for rig.S.Count("tV0")+rig.S.Count("tW0") < after {
					select {
					case <-wdone:
					case <-time.After(50 * time.Microsecond):
						continue
					}
					break
				}
				rig.Ch.Close(fmt.Errorf("c09 close in flight"))
			}()
			c.Count("trials_close_in_flight", 1)
		}
		done := make(chan struct{})
		go func() { wg.Wait(); close(done) }()
		select {
		case <-done:
		case <-time.After(30 * time.Second):
			c.Inconclusive(id, "watchdog: writers stuck")
			rig.Dispose()
			continue
		}
		if parentEnds {
			cg.Wait()
			parentCancel()
		}
		if closeInFlight {
			cg.Wait()
			rig.Ex.WaitOutstanding(0, 10*time.Second)
		} else if senderFault {
			if !rig.Ex.WaitOutstanding(1, 10*time.Second) {
				rig.Ex.WaitOutstanding(0, time.Second)
			}
		} else {
			rig.Ex.WaitOutstanding(1, 10*time.Second)
		}
		ops, wire := rig.T.Snapshot()
		if senderFault {
			// judge the order of hand-over: every write call's data, the refused one included
			var ops2 []mon.Op
			var wire2 []byte
			for _, o := range ops {
				if o.Kind != mon.OpWrite && o.Kind != mon.OpWritev {
					continue
				}
				o.Start, o.Rejected = len(wire2), false
				wire2 = append(wire2, o.Data...)
				ops2 = append(ops2, o)
			}
			ops, wire = ops2, wire2
		}
		c09Judge(c, id, pipe, carrier+mixSuffix(carrier, carrier2), mode, W, sizeClass, useCtx, ops, wire, closeInFlight || senderFault)
		rig.Dispose()
	}
	runtime.GOMAXPROCS(runtime.NumCPU())
}

func c09Judge(c *core.Ctx, id, pipe, carrier string, mode mon.Mode, W, sizeClass int, useCtx bool, ops []mon.Op, wire []byte, closed bool) {
	// boundaries between low-level writes
	bound := map[int]bool{}
	for _, o := range ops {
		if (o.Kind == mon.OpWrite || o.Kind == mon.OpWritev) && !o.Rejected {
			off := o.Start
			for _, l := range o.PartLens {
				bound[off] = true // every packet handed to the transport = one low-level write
				off += l
			}
		}
	}
	// strip the frame layer with a reference decoder, collecting record bytes and their wire offsets
	type frameAt struct {
		off  int
		data []byte
	}
	var frames []frameAt
	tornAt := -1
	tornWhy := ""
	switch pipe {
	case "none":
		frames = []frameAt{{0, wire}}
	case "delimiter+text":
		off := 0
		for off < len(wire) {
			i := bytes.IndexByte(wire[off:], '\n')
			if i < 0 {
				tornAt, tornWhy = off, "trailing bytes without delimiter"
				break
			}
			frames = append(frames, frameAt{off, wire[off : off+i]})
			off += i + 1
		}
	case "length-field":
		off := 0
		for off < len(wire) {
			if off+4 > len(wire) {
				tornAt, tornWhy = off, "truncated length header"
				break
			}
			n := int(binary.BigEndian.Uint32(wire[off:]))
			if n > len(wire)-off-4 {
				tornAt, tornWhy = off, fmt.Sprintf("length header %d exceeds the remaining wire", n)
				break
			}
			frames = append(frames, frameAt{off + 4, wire[off+4 : off+4+n]})
			off += 4 + n
		}
	case "varint":
		off := 0
		for off < len(wire) {
			n, k := binary.Uvarint(wire[off:])
			if k <= 0 || int(n) > len(wire)-off-k {
				tornAt, tornWhy = off, "bad varint header"
				break
			}
			frames = append(frames, frameAt{off + k, wire[off+k : off+k+int(n)]})
			off += k + int(n)
		}
	}
	nmsg := 0
	var order []byte
	if tornAt < 0 {
		for _, f := range frames {
			if pipe == "delimiter+text" {
				w, _, ok := parseArmoured(f.data)
				if !ok {
					tornAt, tornWhy = f.off, fmt.Sprintf("line %q... is not one whole message", trunc(f.data, 48))
					break
				}
				nmsg++
				order = append(order, byte('0'+w))
				continue
			}
			recs, perrs := mon.ParseWire(f.data)
			if len(perrs) > 0 {
				tornAt, tornWhy = f.off+perrs[0].Off, perrs[0].Why
				break
			}
			if pipe != "none" && len(recs) != 1 {
				tornAt, tornWhy = f.off, fmt.Sprintf("frame holds %d records", len(recs))
				break
			}
			for _, r := range recs {
				order = append(order, byte('0'+r.W))
			}
			nmsg += len(recs)
		}
	}
	c.Count("messages_on_wire", int64(nmsg))
	c.Count("low_level_writes", int64(len(bound)))
	alternations := 0
	for i := 1; i < len(order); i++ {
		if order[i] != order[i-1] {
			alternations++
		}
	}
	if alternations >= 2 {
		c.Count("trials_with_interleaving", 1)
		pre := order
		if len(pre) > 24 {
			pre = pre[:24]
		}
		c.Sig(pipe, carrier, mode, W, sizeClass, useCtx, string(pre))
	}
	stream := streamAtHead(pipe, carrier)
	if stream {
		c.Count("trials_stream_carrier", 1)
	} else {
		c.Count("trials_atomic_carrier", 1)
	}
	if c.WantSample() && alternations >= 2 {
		c.Sample(map[string]interface{}{"case": id, "pipeline": pipe, "carrier": carrier, "mode": mode.String(), "writers": W, "messages": nmsg, "low_level_writes": len(bound), "writer_order_prefix": string(order[:min(len(order), 40)])})
	}
	if tornAt < 0 {
		return
	}
	// exact tear position: regenerate the broken message from its header and find the first deviating byte
	atBoundary := false
	tearPos := -1
	if pipe == "delimiter+text" {
		var w, q, size int
		if tornAt+17 <= len(wire) {
			if n, _ := fmt.Sscanf(string(wire[tornAt:tornAt+17]), "M%02d-%06d-%05d-", &w, &q, &size); n == 3 {
				want := armoured(w, q, size)
				tearPos = tornAt + firstDiff(wire[tornAt:], []byte(want))
			}
		}
	} else if tornAt+12 <= len(wire) && wire[tornAt] == 0xA5 && wire[tornAt+1] == 0x5A {
		w := int(binary.BigEndian.Uint16(wire[tornAt+2:]))
		q := int(binary.BigEndian.Uint32(wire[tornAt+4:]))
		size := int(binary.BigEndian.Uint32(wire[tornAt+8:]))
		if size >= mon.MinRecord && size <= 1<<20 {
			tearPos = tornAt + firstDiff(wire[tornAt:], mon.Payload(w, q, size))
		}
	}
	if tearPos >= 0 {
		// the first bytes of the intruding message may coincide with the expected ones by chance
		for d := 0; d <= 3; d++ {
			if bound[tearPos-d] {
				atBoundary = true
			}
		}
		atBoundary = atBoundary || tearPos == len(wire)
		if closed && tearPos == len(wire) {
			// the channel was closed while this message was being streamed: its remaining chunks were refused, nothing follows it
			c.Count("last_message_cut_short_by_close", 1)
			return
		}
	} else {
		// header itself unreadable: fall back to "some low-level write starts within the next bytes"
		for b := range bound {
			if b > tornAt && b <= tornAt+16 {
				atBoundary = true
			}
		}
	}
	key := "C09:torn-message"
	switch {
	case stream && atBoundary:
		key = "C09:stream-carrier-split-at-write-boundary"
	case stream:
		key = "C09:stream-carrier-torn-inside-one-write"
	case atBoundary:
		key = "C09:atomic-carrier-torn:" + carrier
	default:
		key = "C09:atomic-carrier-torn-inside-one-write:" + carrier
	}
	c.Violation(key, id, fmt.Sprintf("bytes of different messages interleave on the wire at offset %d (%s); pipeline=%s carrier=%s (reaches the head as %s) mode=%s writers=%d",
		tornAt, tornWhy, pipe, carrier, map[bool]string{true: "io.WriterTo/io.Reader, i.e. several low-level writes", false: "one low-level write"}[stream], mode, W),
		map[string]interface{}{"pipeline": pipe, "carrier": carrier, "mode": mode.String(), "writers": W, "torn_at": tornAt, "tear_position": tearPos, "tear_on_low_level_write_boundary": atBoundary, "why": tornWhy,
			"wire_around": fmt.Sprintf("%q", trunc(wire[max(0, tornAt-32):], 160))})
}

func firstDiff(got, want []byte) int {
	n := len(want)
	if len(got) < n {
		n = len(got)
	}
	for i := 0; i < n; i++ {
		if got[i] != want[i] {
			return i
		}
	}
	return n
}

func mixSuffix(a, b string) string {
	if a == b {
		return ""
	}
	return "+" + b
}

func trunc(b []byte, n int) []byte {
	if len(b) > n {
		return b[:n]
	}
	return b
}

func min(a, b int) int {
	if a < b {
		return a
	}
	return b
}

func max(a, b int) int {
	if a > b {
		return a
	}
	return b
}
