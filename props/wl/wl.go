// Package wl is the shared concurrent-writer workload and its offline oracles
// (used by C01, C02, C06, C10, C18).
package wl

import (
	"bytes"
	"context"
	"errors"
	"fmt"
	"io"
	"math/rand"
	"sort"
	"sync"
	"testing/iotest"
	"time"

	netty "github.com/go-netty/go-netty"

	"verif/mon"
)

// Entry points.
const (
	EWrite1 = iota
	EWritev
	ECtxWrite1
	ECtxWritev
	EWriter
	NEntries
	// EReadFrom is Channel.ReadFrom (pooled 1024-byte chunks handed over without a copy); not
	// part of the default mix because payloads above 1024 bytes become several low-level writes.
	EReadFrom = NEntries
	// EReadFromEOF is ReadFrom over a reader that returns its last data together with io.EOF.
	EReadFromEOF = NEntries + 1
	// EReadFromFrag is ReadFrom over a reader that hands its data over in short pieces (1..300 bytes) and now and then
	// returns (0, nil): the payload becomes several low-level writes (single-writer trials only).
	EReadFromFrag = NEntries + 2
)

// EntryName names the entry points.
var EntryName = []string{"Write1", "Writev", "CtxWrite1", "CtxWritev", "Writer().Write", "ReadFrom", "ReadFrom(data+EOF)", "ReadFrom(short pieces)"}

// WriteRec is one write call as seen at the client boundary.
type WriteRec struct {
	W, Seq, Entry, Size int
	Call, Ret           uint64
	N                   int64
	Err                 string
	OK                  bool
	NoSpace             bool
	CtxEnded            bool // the call was given a context that had already ended
}

// Cfg of a trial.
type Cfg struct {
	Mode      mon.Mode
	Queue     int
	Writers   int
	PerWriter int
	Sizes     []int
	Plan      []mon.Step
	PlanKind  string
	Procs     int
	Entries   []int // allowed entry points (nil = all)
	// Closer: 0 = the channel stays open; 1 = Close(err) from a user goroutine
	// once all (early) writers returned; 2 = Close from a handler on the read loop;
	// 3 = the parent context is cancelled and then Close(err) is called (Bootstrap.Shutdown's order);
	// 4 = nobody calls Close: the first transport write of the background sender fails once and the failed sender closes the channel.
	Closer int
	// Wrap: run on the library's transport wrapper with these {read, write} buffer sizes (nil = mock transport directly).
	Wrap *[2]int
	// NoCtxKinds: always hand context.Background() to CtxWrite1/CtxWritev.
	NoCtxKinds bool
	// LateWriters start writing at the moment Close is invoked (ids Writers..).
	LateWriters int
	// Factory: build the channel from this factory value (shared with sibling trials running at the
	// same time); WBase offsets the writer ids so that siblings' payloads are distinguishable.
	Factory netty.ChannelFactory
	WBase   int
	// ScratchCap: every writer's scratch buffer has this capacity (0 = the largest payload size): an application buffer
	// whose capacity happens to be a pool size class, of which the writes are sub-slices (also empty ones).
	ScratchCap int
	// NoDeadlines: the transport refuses SetWriteDeadline (legal: not every transport supports deadlines); a CtxWrite whose
	// context carries a deadline then fails on a synchronous channel, everything else must go on as usual.
	NoDeadlines bool
}

func (c Cfg) String() string {
	wrap := "mock-transport"
	if c.Wrap != nil {
		wrap = fmt.Sprintf("NewTransport(conn,%d,%d)", c.Wrap[0], c.Wrap[1])
	}
	if c.NoDeadlines {
		wrap += "(refuses deadlines)"
	}
	return fmt.Sprintf("mode=%s Q=%d W=%d per=%d plan=%s procs=%d transport=%s", c.Mode, c.Queue, c.Writers, c.PerWriter, c.PlanKind, c.Procs, wrap)
}

// History is everything recorded in one trial.
type History struct {
	Cfg      Cfg
	Writes   [][]WriteRec
	Ops      []mon.Op
	Wire     []byte
	Unflush  int
	Quiesced bool
	// SenderSpins: the watchdog fired while a sender action was still running and the mark board shows the
	// sender passing its loop head far more often than it handed anything to the transport: it cycles
	// without draining the non-empty queue (a livelock: nothing will ever move the accepted payloads).
	SenderSpins bool
	SpinLoops   int
	// WritersDone is false when the watchdog fired with write calls still blocked
	// (their records are then incomplete and the history must not be judged).
	WritersDone bool
	Rig         *mon.Rig
	// close bookkeeping (Closer != 0)
	CloseCall, CloseRet uint64
	CloseWallCall       time.Time
	CloseErr            error
}

var cancelledCtx, expiredCtx = func() (context.Context, context.Context) {
	c1, cancel := context.WithCancel(context.Background())
	cancel()
	c2, cancel2 := context.WithDeadline(context.Background(), time.Unix(1, 0))
	_ = cancel2
	return c1, c2
}()

// ErrTrialClose is the error trials close their channel with.
var ErrTrialClose = errors.New("trial close")

// closeOnRead closes the channel from the read loop when a byte arrives.
type closeOnRead struct {
	h *History
}

func (c *closeOnRead) HandleRead(ctx netty.InboundContext, message netty.Message) {
	var b [1]byte
	if _, err := message.(io.Reader).Read(b[:]); err != nil {
		panic(err)
	}
	c.h.CloseWallCall = time.Now()
	c.h.CloseCall = mon.Tick()
	ctx.Close(ErrTrialClose)
	c.h.CloseRet = mon.Tick()
}

// Viol is a violated predicate with its classification key (without property prefix).
type Viol struct {
	Key, What string
}

// DoWrite performs one low-level write through the chosen entry point.
// buf is the caller's buffer holding the payload; it is scribbled on after the
// call returns (snapshot semantics are part of what is checked).
func DoWrite(ch netty.Channel, ctx context.Context, entry int, buf []byte, rng *rand.Rand) (int64, error) {
	switch entry {
	case EWrite1:
		n, err := ch.Write1(buf)
		return int64(n), err
	case ECtxWrite1:
		n, err := ch.CtxWrite1(ctx, buf)
		return int64(n), err
	case EWriter:
		n, err := ch.Writer().Write(buf)
		return int64(n), err
	case EReadFrom:
		return ch.ReadFrom(bytes.NewReader(buf))
	case EReadFromEOF:
		return ch.ReadFrom(iotest.DataErrReader(bytes.NewReader(buf)))
	case EReadFromFrag:
		return ch.ReadFrom(&pieceReader{b: buf, rng: rng})
	case EWritev, ECtxWritev:
		parts := split(buf, rng)
		if entry == EWritev {
			return ch.Writev(parts)
		}
		return ch.CtxWritev(ctx, parts)
	}
	panic("bad entry")
}

// pieceReader delivers its data in short pieces and sometimes returns (0, nil) in between.
type pieceReader struct {
	b    []byte
	rng  *rand.Rand
	zero bool
}

func (r *pieceReader) Read(p []byte) (int, error) {
	if len(r.b) == 0 {
		return 0, io.EOF
	}
	if !r.zero && r.rng.Intn(6) == 0 {
		r.zero = true
		return 0, nil
	}
	r.zero = false
	n := 1 + r.rng.Intn(300)
	if n > len(r.b) {
		n = len(r.b)
	}
	if n > len(p) {
		n = len(p)
	}
	copy(p, r.b[:n])
	r.b = r.b[n:]
	return n, nil
}

func split(buf []byte, rng *rand.Rand) [][]byte {
	k := 1 + rng.Intn(3)
	parts := make([][]byte, 0, k+1)
	rest := buf
	for i := 1; i < k && len(rest) > 0; i++ {
		c := rng.Intn(len(rest) + 1)
		parts = append(parts, rest[:c])
		rest = rest[c:]
	}
	parts = append(parts, rest)
	if rng.Intn(4) == 0 {
		parts = append(parts, []byte{}) // an empty slice among the parts
	}
	return parts
}

// Scribble overwrites a caller buffer after the write returned.
func Scribble(b []byte) {
	for i := range b {
		b[i] = 0xBB
	}
}

// Run executes one trial: W writers issue PerWriter writes each, then the
// harness waits for logical quiescence (every sender action handed to the
// executor has returned) and snapshots the logs.
func Run(cfg Cfg, rng *rand.Rand, watchdog time.Duration) *History {
	h := &History{Cfg: cfg, Writes: make([][]WriteRec, cfg.WBase+cfg.Writers+cfg.LateWriters)}
	opts := mon.RigOpts{Mode: cfg.Mode, Queue: cfg.Queue, Plan: cfg.Plan, QuietTail: true, Wrap: cfg.Wrap, Factory: cfg.Factory}
	if cfg.Closer == 2 {
		opts.NoPark = true
		opts.Handlers = []netty.Handler{&closeOnRead{h}}
	}
	var parentCancel context.CancelFunc
	if cfg.Closer == 3 {
		// the way Bootstrap.Shutdown closes channels: the parent context ends first, then Close is called
		opts.Ctx, parentCancel = context.WithCancel(context.Background())
		defer parentCancel()
	}
	if cfg.NoDeadlines {
		opts.Tr = mon.NewRecTransport()
		opts.Tr.DeadlineErr = errors.New("mock transport: deadlines not supported")
	}
	rig := mon.NewRig(opts)
	h.Rig = rig
	if cfg.Closer == 4 {
		rig.T.AddFault(mon.Fault{Kind: mon.OpWritev, K: 1, Err: ErrTrialClose})
		rig.T.AddFault(mon.Fault{Kind: mon.OpWrite, K: 1, Err: ErrTrialClose})
	}
	var wg sync.WaitGroup
	for w := cfg.WBase; w < cfg.WBase+cfg.Writers; w++ {
		wg.Add(1)
		wr := rand.New(rand.NewSource(rng.Int63()))
		go func(w int, wr *rand.Rand) {
			defer wg.Done()
			h.Writes[w] = writer(rig, cfg, w, wr)
		}(w, wr)
	}
	done := make(chan struct{})
	go func() { wg.Wait(); close(done) }()
	select {
	case <-done:
	case <-time.After(watchdog):
		rig.S.ReleaseAll()
		select {
		case <-done:
		case <-time.After(watchdog):
			// writers still stuck: snapshot what we have, flagged not quiesced.
			h.Ops, h.Wire = rig.T.Snapshot()
			return h
		}
	}
	h.WritersDone = true
	rig.S.Mark("allret")
	outstanding := 1
	if cfg.Closer != 0 {
		outstanding = 0
		var lw sync.WaitGroup
		for w := cfg.WBase + cfg.Writers; w < cfg.WBase+cfg.Writers+cfg.LateWriters; w++ {
			lw.Add(1)
			wr := rand.New(rand.NewSource(rng.Int63()))
			go func(w int, wr *rand.Rand) {
				defer lw.Done()
				h.Writes[w] = writer(rig, cfg, w, wr)
			}(w, wr)
		}
		closed := make(chan struct{})
		switch cfg.Closer {
		case 1, 3:
			if parentCancel != nil {
				parentCancel()
			}
			go func() {
				defer close(closed)
				h.CloseWallCall = time.Now()
				h.CloseCall = mon.Tick()
				rig.S.Mark("closeCall")
				rig.Ch.Close(ErrTrialClose)
				h.CloseRet = mon.Tick()
			}()
		case 2:
			rig.T.FeedBytes([]byte{'!'})
			go func() {
				defer close(closed)
				<-rig.T.Closed()
			}()
		case 4:
			go func() {
				defer close(closed)
				select {
				case <-rig.T.Closed():
				case <-time.After(watchdog):
				}
			}()
		}
		lwDone := make(chan struct{})
		go func() { lw.Wait(); <-closed; close(lwDone) }()
		select {
		case <-lwDone:
		case <-time.After(watchdog):
			rig.S.ReleaseAll()
			select {
			case <-lwDone:
			case <-time.After(watchdog):
				h.WritersDone = false
				h.Ops, h.Wire = rig.T.Snapshot()
				return h
			}
		}
	}
	// logical quiescence: only the read loop (action #0) may be outstanding
	// (nothing at all once the channel was closed).
	h.Quiesced = rig.Ex.WaitOutstanding(outstanding, watchdog)
	if cfg.Closer == 4 {
		for _, e := range rig.S.Log() {
			if e.Name == "cEl" {
				h.CloseCall = e.Tick // writes that returned before the election had certainly been accepted before the Close
				break
			}
		}
	}
	if !h.Quiesced {
		loops, writes, starts := rig.S.Count("sLoop"), rig.S.Count("tV0"), rig.Ex.Submitted()
		// a correct sender hands at least one packet to the transport per loop iteration that finds the
		// queue non-empty, and otherwise leaves the loop: iterations <= writes + activations + re-checks
		if loops > 3*(writes+starts)+2000 {
			h.SenderSpins, h.SpinLoops = true, loops
		}
	}
	h.Ops, h.Wire = rig.T.Snapshot()
	h.Unflush = rig.T.Unflushed()
	return h
}

func writer(rig *mon.Rig, cfg Cfg, w int, rng *rand.Rand) []WriteRec {
	recs := make([]WriteRec, 0, cfg.PerWriter)
	maxSize := 0
	for _, s := range cfg.Sizes {
		if s > maxSize {
			maxSize = s
		}
	}
	if cfg.ScratchCap > maxSize {
		maxSize = cfg.ScratchCap
	}
	buf := make([]byte, maxSize)
	ctx := context.Background()
	for seq := 0; seq < cfg.PerWriter; seq++ {
		size := cfg.Sizes[rng.Intn(len(cfg.Sizes))]
		entry := rng.Intn(NEntries)
		if len(cfg.Entries) > 0 {
			entry = cfg.Entries[rng.Intn(len(cfg.Entries))]
		}
		p := buf[:size]
		mon.FillPayload(p, w, seq)
		rec := WriteRec{W: w, Seq: seq, Entry: entry, Size: size}
		cctx := ctx
		if (entry == ECtxWrite1 || entry == ECtxWritev) && !cfg.NoCtxKinds {
			// context flavours: mostly live, sometimes already ended (the call may then be refused
			// or - when the queue has room - accepted: either way the outcome must be consistent)
			switch rng.Intn(8) {
			case 0:
				cctx = cancelledCtx
				rec.CtxEnded = true
			case 1:
				cctx = expiredCtx
				rec.CtxEnded = true
			case 2:
				var cancel context.CancelFunc
				cctx, cancel = context.WithCancel(ctx)
				defer cancel()
			}
		}
		rec.Call = mon.Tick()
		n, err := DoWrite(rig.Ch, cctx, entry, p, rng)
		rec.Ret = mon.Tick()
		Scribble(p)
		rec.N = n
		if err != nil {
			rec.Err = SafeErr(err)
			rec.NoSpace = errors.Is(err, netty.ErrAsyncNoSpace)
		} else {
			rec.OK = true
		}
		recs = append(recs, rec)
		rig.S.Mark("ret")
	}
	return recs
}

// WireRec is a record on the wire resolved to its write call.
type WireRec struct {
	mon.Rec
	Call *WriteRec
	Op   *mon.Op
}

// Resolve parses the wire and maps every record to its call and transport op.
func Resolve(h *History) (recs []WireRec, viols []Viol) {
	raw, perrs := mon.ParseWire(h.Wire)
	for _, e := range perrs {
		viols = append(viols, Viol{"wire-corrupt", "wire is not a sequence of whole payloads: " + e.String()})
		if len(viols) > 4 {
			break
		}
	}
	// accepted ops sorted by Start
	var ops []*mon.Op
	for i := range h.Ops {
		o := &h.Ops[i]
		if (o.Kind == mon.OpWrite || o.Kind == mon.OpWritev) && !o.Rejected {
			ops = append(ops, o)
		}
	}
	opAt := func(off int) *mon.Op {
		i := sort.Search(len(ops), func(i int) bool { return ops[i].Start+len(ops[i].Data) > off })
		if i < len(ops) {
			return ops[i]
		}
		return nil
	}
	// tiny records: the k-th tiny record of writer w on the wire corresponds to
	// the k-th successful tiny write of w (per-writer order); mismatch is reported.
	tinyIdx := map[int]int{}
	tinyCalls := map[int][]*WriteRec{}
	for w := range h.Writes {
		for i := range h.Writes[w] {
			c := &h.Writes[w][i]
			if c.OK && c.Size > 0 && c.Size < mon.MinRecord {
				tinyCalls[w] = append(tinyCalls[w], c)
			}
		}
	}
	for _, r := range raw {
		wr := WireRec{Rec: r, Op: opAt(r.Off)}
		if r.Tiny {
			k := tinyIdx[r.W]
			tinyIdx[r.W]++
			if k >= len(tinyCalls[r.W]) {
				viols = append(viols, Viol{"unaccepted-bytes-on-wire",
					fmt.Sprintf("tiny payload #%d of writer %d (size %d) at offset %d: the writer had only %d accepted tiny writes", k, r.W, r.Size, r.Off, len(tinyCalls[r.W]))})
				continue
			}
			c := tinyCalls[r.W][k]
			if c.Size != r.Size || (r.Size > 1 && c.Seq%32 != r.Seq) {
				viols = append(viols, Viol{"payload-altered",
					fmt.Sprintf("tiny payload at offset %d: writer %d wrote seq=%d size=%d, wire has seq%%32=%d size=%d", r.Off, r.W, c.Seq, c.Size, r.Seq, r.Size)})
				continue
			}
			wr.Seq = c.Seq
			wr.Call = c
		} else {
			if r.W >= len(h.Writes) || r.Seq >= len(h.Writes[r.W]) {
				viols = append(viols, Viol{"unaccepted-bytes-on-wire", fmt.Sprintf("record w=%d seq=%d at offset %d was never written", r.W, r.Seq, r.Off)})
				continue
			}
			wr.Call = &h.Writes[r.W][r.Seq]
		}
		recs = append(recs, wr)
	}
	return
}

// CheckC01 is the offline exactly-once / order / integrity oracle.
func CheckC01(h *History) (recs []WireRec, viols []Viol) {
	recs, viols = Resolve(h)
	seen := map[[2]int]int{}
	lastSeq := map[int]int{}
	var maxCall uint64
	var maxCallRec *WireRec
	for i := range recs {
		r := &recs[i]
		c := r.Call
		id := [2]int{r.W, r.Seq}
		// (1) whole and unmodified
		if !r.Tiny {
			if c.Size != r.Size || !bytes.Equal(h.Wire[r.Off:r.Off+r.Size], mon.Payload(r.W, r.Seq, c.Size)) {
				viols = append(viols, Viol{"payload-altered", fmt.Sprintf("record w=%d seq=%d at offset %d differs from the payload written (size written %d, on wire %d)", r.W, r.Seq, r.Off, c.Size, r.Size)})
			}
		}
		// whole within one transport call ("at every moment")
		if h.Cfg.Wrap == nil && r.Op != nil && r.Off+r.Size > r.Op.Start+len(r.Op.Data) {
			viols = append(viols, Viol{"payload-split-across-transport-calls", fmt.Sprintf("record w=%d seq=%d at offset %d spans two transport calls", r.W, r.Seq, r.Off)})
		}
		// (2) at most once
		if prev, dup := seen[id]; dup {
			viols = append(viols, Viol{"payload-duplicated", fmt.Sprintf("payload w=%d seq=%d appears at offsets %d and %d", r.W, r.Seq, prev, r.Off)})
			continue
		}
		seen[id] = r.Off
		// (3) failed calls contribute nothing; nothing appears before its call began
		if !c.OK {
			viols = append(viols, Viol{"failed-write-transmitted", fmt.Sprintf("payload w=%d seq=%d (%s) is on the wire at offset %d although its call returned error %q", r.W, r.Seq, EntryName[c.Entry], r.Off, c.Err)})
		}
		if r.Op != nil && r.Op.Out < c.Call {
			viols = append(viols, Viol{"bytes-before-call", fmt.Sprintf("payload w=%d seq=%d was handed to the transport (tick %d) before its call began (tick %d)", r.W, r.Seq, r.Op.Out, c.Call)})
		}
		// (4) per-writer order
		if ls, ok := lastSeq[r.W]; ok && r.Seq < ls {
			viols = append(viols, Viol{"writer-order-inverted", fmt.Sprintf("writer %d: seq %d appears after seq %d on the wire", r.W, r.Seq, ls)})
		}
		lastSeq[r.W] = r.Seq
		// (5) real-time order
		if maxCallRec != nil && c.Ret < maxCall {
			viols = append(viols, Viol{"realtime-order-inverted", fmt.Sprintf("payload w=%d seq=%d returned at tick %d, before the call of w=%d seq=%d began (tick %d), yet appears after it on the wire",
				r.W, r.Seq, c.Ret, maxCallRec.W, maxCallRec.Seq, maxCall)})
		}
		if c.Call > maxCall {
			maxCall = c.Call
			maxCallRec = r
		}
	}
	// prefix-closedness: an accepted payload missing from the wire while a
	// payload whose call began after it returned is present.
	var latestCallOnWire uint64
	var latest *WireRec
	for i := range recs {
		if recs[i].Call.Call > latestCallOnWire {
			latestCallOnWire = recs[i].Call.Call
			latest = &recs[i]
		}
	}
	for w := range h.Writes {
		for i := range h.Writes[w] {
			c := &h.Writes[w][i]
			if !c.OK || c.Size == 0 {
				continue
			}
			if _, on := seen[[2]int{c.W, c.Seq}]; on {
				continue
			}
			if latest != nil && c.Ret < latestCallOnWire {
				viols = append(viols, Viol{"accepted-payload-skipped", fmt.Sprintf("payload w=%d seq=%d (size %d) was accepted (returned at tick %d) and is missing from the wire, while w=%d seq=%d whose call began later (tick %d) is present",
					c.W, c.Seq, c.Size, c.Ret, latest.W, latest.Seq, latestCallOnWire)})
			}
		}
	}
	return
}

// CheckC02 is the quiescence oracle: every accepted payload is on the wire and flushed.
func CheckC02(h *History, recs []WireRec) (viols []Viol, accepted, onWire int) {
	seen := map[[2]int]bool{}
	for _, r := range recs {
		seen[[2]int{r.W, r.Seq}] = true
	}
	for w := range h.Writes {
		for i := range h.Writes[w] {
			c := &h.Writes[w][i]
			if !c.OK || c.Size == 0 {
				continue
			}
			accepted++
			if seen[[2]int{c.W, c.Seq}] {
				onWire++
				continue
			}
			if len(viols) < 3 {
				viols = append(viols, Viol{"accepted-payload-stranded", fmt.Sprintf("at quiescence (all calls returned, no sender action outstanding) payload w=%d seq=%d size=%d via %s, accepted at tick %d, was never handed to the transport; ops=%s",
					c.W, c.Seq, c.Size, EntryName[c.Entry], c.Ret, tailOps(h.Ops))})
			}
		}
	}
	// underneath a wrapper nothing is ever 'flushed' (the wrapper's flush is a Write): being on the connection's log is the criterion
	if h.Cfg.Wrap == nil && h.Unflush != 0 && len(viols) == 0 {
		viols = append(viols, Viol{"written-but-not-flushed", fmt.Sprintf("at quiescence %d bytes were written to the transport but never flushed; ops=%s", h.Unflush, tailOps(h.Ops))})
	}
	return
}

func tailOps(ops []mon.Op) string {
	if len(ops) > 12 {
		return "... " + mon.OpString(ops[len(ops)-12:])
	}
	return mon.OpString(ops)
}

// Summary renders a history compactly for samples and replays.
func Summary(h *History, maxWrites int) map[string]interface{} {
	var ws []string
	for w := range h.Writes {
		for i, c := range h.Writes[w] {
			if len(ws) >= maxWrites {
				break
			}
			_ = i
			res := "ok"
			if !c.OK {
				res = "err:" + c.Err
			}
			ws = append(ws, fmt.Sprintf("w%d#%d %s(%dB) call@%d ret@%d %s", c.W, c.Seq, EntryName[c.Entry], c.Size, c.Call, c.Ret, res))
		}
	}
	var ops []string
	for i, o := range h.Ops {
		if i >= 24 {
			ops = append(ops, "...")
			break
		}
		ops = append(ops, fmt.Sprintf("%s(%dB)@%d", o.Kind, len(o.Data), o.In))
	}
	m := map[string]interface{}{
		"cfg":    h.Cfg.String(),
		"writes": ws,
		"ops":    ops,
	}
	if h.Rig != nil {
		m["marks"] = h.Rig.S.LogString(60)
	}
	return m
}

// CheckC06 judges graceful close: every payload whose call returned success
// before Close was invoked must be on the wire and flushed when the transport
// is closed, and the transport must not be closed during a Writev.
func CheckC06(h *History, recs []WireRec) (viols []Viol, pre int, judged bool) {
	ci := -1
	for i, o := range h.Ops {
		if o.Kind == mon.OpClose {
			ci = i
			break
		}
	}
	if ci < 0 || h.CloseCall == 0 {
		return nil, 0, false
	}
	onWire := map[[2]int]*WireRec{}
	for i := range recs {
		onWire[[2]int{recs[i].W, recs[i].Seq}] = &recs[i]
	}
	opIndex := func(op *mon.Op) int {
		for i := range h.Ops {
			if &h.Ops[i] == op {
				return i
			}
		}
		return -1
	}
	refused := map[[2]int]bool{}
	for _, o := range h.Ops {
		if o.Rejected && o.AfterClose == false && (o.Kind == mon.OpWrite || o.Kind == mon.OpWritev) && ci >= 0 {
			rs, _ := mon.ParseWire(o.Data)
			for _, r := range rs {
				if !r.Tiny {
					refused[[2]int{r.W, r.Seq}] = true
				}
			}
		}
	}
	lastOp := -1
	for w := range h.Writes {
		for i := range h.Writes[w] {
			c := &h.Writes[w][i]
			if !c.OK || c.Size == 0 || c.Ret >= h.CloseCall {
				continue
			}
			if refused[[2]int{c.W, c.Seq}] {
				continue // was in a batch the transport refused (injected one-shot failure): not this property's subject
			}
			pre++
			r := onWire[[2]int{c.W, c.Seq}]
			if r == nil {
				if len(viols) < 3 {
					viols = append(viols, Viol{"accepted-before-close-lost", fmt.Sprintf("payload w=%d seq=%d size=%d via %s returned success at tick %d, before Close was invoked (tick %d), but was not handed to the transport before it was closed; ops=%s",
						c.W, c.Seq, c.Size, EntryName[c.Entry], c.Ret, h.CloseCall, tailOps(h.Ops))})
				}
				continue
			}
			if j := opIndex(r.Op); j > lastOp {
				lastOp = j
			}
		}
	}
	if h.Ops[ci].InWrite != 0 {
		viols = append(viols, Viol{"transport-closed-during-writev", fmt.Sprintf("the transport was closed while %d Writev call(s) were in progress; ops=%s", h.Ops[ci].InWrite, tailOps(h.Ops))})
	}
	if lastOp >= 0 && len(viols) == 0 && h.Cfg.Wrap == nil {
		flushed := false
		for j := lastOp + 1; j < ci; j++ {
			if h.Ops[j].Kind == mon.OpFlush && !h.Ops[j].Rejected {
				flushed = true
			}
		}
		if !flushed {
			viols = append(viols, Viol{"not-flushed-before-close", fmt.Sprintf("payloads accepted before Close were written but not flushed before the transport was closed; ops=%s", tailOps(h.Ops))})
		}
	}
	return viols, pre, true
}

// SafeErr renders an error without trusting it: an unsynchronised read of the
// channel's close error (a C12 matter) can hand the caller a torn interface
// value whose Error method faults.
func SafeErr(err error) (s string) {
	defer func() {
		if r := recover(); r != nil {
			s = fmt.Sprintf("<torn error value: %v>", r)
		}
	}()
	return err.Error()
}
