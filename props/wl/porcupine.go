package wl

import (
	"fmt"
	"sort"
	"strings"
	"time"

	"github.com/anishathalye/porcupine"

	"verif/mon"
)

// second, independent oracle for C01: the recorded history must be
// linearizable against a FIFO-queue model in which write(id) appends and every
// transport call is a "drain" that returns the ids it carried, which must be a
// prefix of the queue.

type pcWrite struct{ id string }
type pcDrain struct{}

var fifoModel = porcupine.Model{
	Init: func() interface{} { return "" },
	Step: func(state, input, output interface{}) (bool, interface{}) {
		st := state.(string)
		switch in := input.(type) {
		case pcWrite:
			return true, st + in.id + ","
		case pcDrain:
			out := output.(string)
			if !strings.HasPrefix(st, out) {
				return false, st
			}
			return true, st[len(out):]
		}
		return false, st
	},
	Equal: func(a, b interface{}) bool { return a.(string) == b.(string) },
	DescribeOperation: func(input, output interface{}) string {
		switch in := input.(type) {
		case pcWrite:
			return "write(" + in.id + ")"
		default:
			return "drain -> [" + output.(string) + "]"
		}
	},
}

// PorcupineC01 checks h; verdict is "ok", "illegal" or "unknown" (timeout). ops is the history size.
func PorcupineC01(h *History, recs []WireRec, timeout time.Duration) (verdict string, ops int, witness string) {
	var hist []porcupine.Operation
	for w := range h.Writes {
		for _, c := range h.Writes[w] {
			if !c.OK || c.Size == 0 {
				continue
			}
			hist = append(hist, porcupine.Operation{ClientId: w, Input: pcWrite{fmt.Sprintf("%d.%d", c.W, c.Seq)},
				Call: int64(c.Call), Output: "", Return: int64(c.Ret)})
		}
	}
	// group wire records by the transport op that carried them
	byOp := map[*mon.Op][]string{}
	var opsSeen []*mon.Op
	for i := range recs {
		r := &recs[i]
		if r.Op == nil {
			continue
		}
		if _, ok := byOp[r.Op]; !ok {
			opsSeen = append(opsSeen, r.Op)
		}
		byOp[r.Op] = append(byOp[r.Op], fmt.Sprintf("%d.%d", r.W, r.Seq))
	}
	sort.Slice(opsSeen, func(i, j int) bool { return opsSeen[i].In < opsSeen[j].In })
	for i, o := range opsSeen {
		// sync channels: transport calls come from the writers' goroutines and never overlap (write lock);
		// give every drain its own client id so that porcupine does not assume a per-client order beyond real time
		hist = append(hist, porcupine.Operation{ClientId: 1000 + i, Input: pcDrain{}, Call: int64(o.In),
			Output: strings.Join(byOp[o], ",") + ",", Return: int64(o.Out)})
	}
	ops = len(hist)
	res, info := porcupine.CheckOperationsVerbose(fifoModel, hist, timeout)
	switch res {
	case porcupine.Ok:
		return "ok", ops, ""
	case porcupine.Illegal:
		_ = info
		var b strings.Builder
		for _, op := range hist {
			fmt.Fprintf(&b, "%s@[%d,%d] ", fifoModel.DescribeOperation(op.Input, op.Output), op.Call, op.Return)
			if b.Len() > 3000 {
				break
			}
		}
		return "illegal", ops, b.String()
	}
	return "unknown", ops, ""
}
