package wl

import (
	"fmt"
	"math/rand"
	"time"

	"verif/mon"
)

// NamedPlan is a perturbation plan with a label.
type NamedPlan struct {
	Name  string
	Steps []mon.Step
}

// all points a plan can refer to on a queued channel.
var (
	writerPts = []string{"wEnq", "wAcq", "ret"}
	senderPts = []string{"x1", "sLoop", "sBat", "tV0", "tV1", "sWr", "sRec", "tF0", "tF1", "sFl", "sRel"}
)

// WindowPlans enumerates every ordered pair "role A waits at p (occurrence o)
// until role B has passed q once more", A != B, roles writer and sender.
func WindowPlans(timeout time.Duration) []NamedPlan {
	var out []NamedPlan
	for _, occ := range []int{1, 2} {
		for _, p := range writerPts {
			for _, q := range senderPts {
				out = append(out, NamedPlan{fmt.Sprintf("win:%s#%d<-%s", p, occ, q),
					[]mon.Step{{At: p, Occ: occ, Kind: mon.Gate, Until: q, UntilCount: 1, Rel: true, Timeout: timeout}}})
				out = append(out, NamedPlan{fmt.Sprintf("win:%s#%d<-%s", q, occ, p),
					[]mon.Step{{At: q, Occ: occ, Kind: mon.Gate, Until: p, UntilCount: 1, Rel: true, Timeout: timeout}}})
			}
		}
	}
	return out
}

// PCTPlan delays d <= 3 randomly chosen (point, occurrence) pairs by 0.1-2 ms
// and sprinkles yields on a few others.
func PCTPlan(rng *rand.Rand) NamedPlan {
	all := append(append([]string{}, writerPts...), senderPts...)
	d := 1 + rng.Intn(3)
	var steps []mon.Step
	name := "pct:"
	for i := 0; i < d; i++ {
		p := all[rng.Intn(len(all))]
		occ := 1 + rng.Intn(4)
		dur := time.Duration(100+rng.Intn(1900)) * time.Microsecond
		steps = append(steps, mon.Step{At: p, Occ: occ, Kind: mon.Sleep, D: dur})
		name += fmt.Sprintf("%s#%d+%dus,", p, occ, dur/time.Microsecond)
	}
	for i := 0; i < 2; i++ {
		p := all[rng.Intn(len(all))]
		steps = append(steps, mon.Step{At: p, Occ: 0, Kind: mon.Yield, N: 1 + rng.Intn(3)})
	}
	return NamedPlan{name, steps}
}

// LastWriteWindowPlan parks the sender after its final flush (before it
// releases ownership) until all n writes of the trial have been enqueued: the
// lost-wake-up window with nothing left to rescue a stranded payload.
func LastWriteWindowPlan(n int, at string, timeout time.Duration) NamedPlan {
	return NamedPlan{fmt.Sprintf("lastwin:%s<-wEnq=%d", at, n),
		[]mon.Step{{At: at, Occ: 0, Kind: mon.Gate, Until: "ret", UntilCount: n, Timeout: timeout}}}
}

// WindowHits counts, in a mark log, enqueues that fell between the sender's
// final flush and its release of ownership (the lost-wake-up window).
func WindowHits(log []mon.Ev) int {
	hits := 0
	in := false
	for _, e := range log {
		switch e.Name {
		case "tF0", "sFl":
			in = true
		case "sRel", "sLoop":
			in = false
		case "wEnq":
			if in {
				hits++
			}
		}
	}
	return hits
}
