package props

import (
	"fmt"
	"sync"
	"time"

	"verif/core"
	"verif/mon"
	"verif/props/wl"
)

func init() {
	core.Register(&core.Prop{
		ID:    "C06",
		Level: "exploration",
		Rule: "trial = queued channel (wait-forever and bounded-wait), W writers finish their writes, then Close is invoked (user goroutine or a handler on the read loop) while late writers may still write; " +
			"io.Reader messages of several pooled chunks (ReadFrom) accepted while the sender is inside Writev; plans: the decisive script (sender parked after its final flush until all calls returned, then parked after releasing ownership until the closer has left its wait loop), every closer-point x sender/writer-point window, PCT delays, stress; " +
			"oracle on the transport log at the Close op: every payload whose call returned OK before the Close invocation tick is on the wire and followed by a Flush, and no Writev is in progress; " +
			"distinct_nontrivial = distinct event-order signatures among trials where the closer overlapped a live sender (a sender point was passed after Close was invoked)",
		Assumptions: []string{
			"bounded-wait channels: a trial whose Close took >= 900 ms (monotonic) from invocation to transport close is inconclusive (grace period possibly exhausted)",
			"the transport accepts writes until closed",
		},
		Shards:     func(tier string) int { return 8 },
		TimeoutSec: func(tier string) int { return map[bool]int{true: 300, false: 2400}[tier != "thorough"] },
		Required:   []string{"pre_close_payloads", "close_overlapped_sender"},
		Run:        runC06,
	})
}

var closerPts = []string{"cEl", "cPoll", "cWait", "tC0"}

func c06Cfg(c *core.Ctx, idx int) wl.Cfg {
	rng := c.Rand("cfg", idx)
	cfg := wl.Cfg{}
	cfg.Mode = mon.Mode(1 + idx%2)
	cfg.Queue = []int{1, 2, 4, 8, 64}[(idx/2)%5]
	cfg.Closer = 1 + (idx/10)%4
	cfg.Writers = 1 + rng.Intn(3)
	cfg.PerWriter = 1 + rng.Intn(4)
	cfg.Sizes = []int{0, 0, 1, 16, 17, 100, 1024, 1025, 4097} // empty payloads are accepted too (and owe nothing but must not cost the others their flush)
	if cfg.Mode == mon.NonBlock {
		// refused writes are fine, but keep most accepted
		if cfg.Writers*cfg.PerWriter > cfg.Queue+1 {
			cfg.PerWriter = 1
		}
	}
	if idx%4 == 3 {
		wraps := [][2]int{{0, 64}, {4096, 4096}, {0, 0}, {64, 0}}
		wv := wraps[(idx/4)%len(wraps)]
		cfg.Wrap = &wv
	}
	if cfg.Closer == 4 {
		cfg.Sizes = []int{16, 17, 100, 1024, 1025}
		cfg.PerWriter += 2
		cfg.Wrap = nil // the refused batch must be identifiable: only the mock transport sees a whole Writev
	}
	n := cfg.Writers * cfg.PerWriter
	const T = 400 * time.Millisecond
	if idx%40 == 7 && cfg.Closer != 4 {
		cfg.Mode = mon.Blocking
		cfg.Closer = 1
		cfg.Wrap = nil
		cfg.Plan = []mon.Step{{At: "tV0", Occ: 1, Kind: mon.Gate, Until: "never", UntilCount: 1, Timeout: 1300 * time.Millisecond}}
		cfg.PlanKind = "sender-stalled-1.3s-in-writev"
		return cfg
	}
	if idx%40 == 17 && cfg.Closer != 4 {
		// messages handed over as io.Reader (ReadFrom: pooled 1024-byte chunks, several per message) accepted while the
		// sender is held inside its first Writev; one writer, so that the chunks of one message stay together
		cfg.Mode = mon.Blocking
		cfg.Queue = []int{8, 64}[rng.Intn(2)]
		cfg.Closer = 1
		cfg.Wrap = nil
		cfg.Writers, cfg.PerWriter = 1, 1+rng.Intn(3)
		cfg.Sizes = []int{1025, 2500, 4097}
		cfg.Entries = []int{wl.EReadFrom, wl.EReadFrom, wl.EReadFromEOF, wl.EWrite1}
		cfg.Plan = []mon.Step{{At: "tV0", Occ: 1, Kind: mon.Gate, Until: "ret", UntilCount: cfg.PerWriter, Timeout: 50 * time.Millisecond}}
		cfg.PlanKind = "readfrom-chunks-accepted-while-sender-in-writev"
		return cfg
	}
	switch k := (idx / 20) % 6; k {
	case 0, 1:
		// decisive script: second payload accepted while the sender owns the queue;
		// the closer polls between the sender's release and its re-check.
		at := []string{"sFl", "tF0", "tF1"}[rng.Intn(3)]
		cfg.Plan = []mon.Step{
			{At: at, Occ: 1, Kind: mon.Gate, Until: "ret", UntilCount: n, Timeout: 50 * time.Millisecond},
			{At: "sRel", Occ: 0, Kind: mon.Gate, Until: "cWait", UntilCount: 1, Timeout: T},
		}
		cfg.PlanKind = "decisive:" + at + "<-allret;sRel<-cWait"
	case 2:
		// closer waits at p until the sender passed q once more / sender waits for closer
		p := closerPts[rng.Intn(len(closerPts))]
		q := []string{"sLoop", "sBat", "tV0", "tV1", "sWr", "sRec", "tF0", "sFl", "sRel"}[rng.Intn(9)]
		if rng.Intn(2) == 0 {
			cfg.Plan = []mon.Step{{At: p, Occ: 1, Kind: mon.Gate, Until: q, UntilCount: 1, Rel: true, Timeout: 30 * time.Millisecond}}
			cfg.PlanKind = "win:" + p + "<-" + q
		} else {
			cfg.Plan = []mon.Step{{At: q, Occ: 1 + rng.Intn(2), Kind: mon.Gate, Until: p, UntilCount: 1, Timeout: T}}
			cfg.PlanKind = "win:" + q + "<-" + p
		}
		cfg.LateWriters = rng.Intn(2)
	case 3:
		// sender start delayed past Close
		cfg.Plan = []mon.Step{{At: "x1", Occ: 1, Kind: mon.Gate, Until: []string{"cEl", "cPoll", "closeCall"}[rng.Intn(3)], UntilCount: 1, Timeout: T}}
		cfg.PlanKind = "exec-start<-close"
	case 4:
		p := wl.PCTPlan(rng)
		cfg.Plan, cfg.PlanKind = p.Steps, p.Name
		cfg.LateWriters = rng.Intn(3)
	default:
		cfg.PlanKind = "stress"
		cfg.PerWriter += rng.Intn(8)
		cfg.LateWriters = rng.Intn(3)
	}
	return cfg
}

func runC06(c *core.Ctx) {
	total := c.Scale(2400, 40000)
	par := 24
	sem := make(chan struct{}, par)
	var wg sync.WaitGroup
	var mu sync.Mutex
	stuck := 0
	for idx := 0; idx < total; idx++ {
		if !c.Mine(idx) {
			continue
		}
		if c.Enough() {
			break
		}
		id := fmt.Sprintf("t%d", idx)
		if !c.CaseQuiet(id) {
			continue
		}
		mu.Lock()
		abort := stuck >= 3
		mu.Unlock()
		if abort {
			c.Count("aborted_after_watchdogs", 1)
			break
		}
		sem <- struct{}{}
		wg.Add(1)
		go func(idx int, id string) {
			defer wg.Done()
			defer func() { <-sem }()
			cfg := c06Cfg(c, idx)
			h := wl.Run(cfg, c.Rand("trial", idx), 10*time.Second)
			judgeC06(c, id, h)
			h.Rig.Dispose()
			if !h.Quiesced {
				mu.Lock()
				stuck++
				mu.Unlock()
			}
		}(idx, id)
	}
	wg.Wait()
}

func judgeC06(c *core.Ctx, id string, h *wl.History) {
	if !h.Quiesced || !h.WritersDone {
		c.Inconclusive(id, "watchdog: trial did not reach quiescence: "+h.Cfg.String())
		return
	}
	recs, _ := wl.Resolve(h)
	viols, pre, judged := wl.CheckC06(h, recs)
	if !judged {
		c.Inconclusive(id, "transport was never closed")
		return
	}
	// bounded-wait channels: the grace period must not have been exhausted
	if h.Cfg.Mode == mon.NonBlock {
		for _, o := range h.Ops {
			if o.Kind == mon.OpClose {
				if !h.CloseWallCall.IsZero() && o.WallIn.Sub(h.CloseWallCall) >= 900*time.Millisecond {
					busy := false
					for _, w := range h.Ops {
						if (w.Kind == mon.OpWrite || w.Kind == mon.OpWritev || w.Kind == mon.OpFlush) && w.Out >= h.CloseCall && w.In <= o.In {
							busy = true // the sender was inside the transport during the wait: it may have been stalled beyond the grace period
						}
					}
					if busy {
						c.Count("inconclusive_grace_possibly_exhausted", 1)
						return
					}
				}
				break
			}
		}
	}
	c.Count("pre_close_payloads", int64(pre))
	c.Count("mode_"+h.Cfg.Mode.String(), 1)
	c.Count("closer_"+[]string{"", "user-goroutine", "read-loop-handler", "parent-context-then-close", "failed-sender-closes"}[h.Cfg.Closer], 1)
	// did the closer overlap a live sender?
	overlapped := false
	after := false
	polls := 0
	for _, e := range h.Rig.S.Log() {
		if e.Name == "cEl" {
			after = true
		}
		if e.Name == "cPoll" {
			polls++
		}
		if after && mon.Role(e.Name) == 's' {
			overlapped = true
		}
	}
	c.Count("close_polls_observed", int64(polls))
	if overlapped {
		c.Count("close_overlapped_sender", 1)
		sig, _ := h.Rig.S.Signature()
		c.SigHash(sig)
	}
	c.Count("gates_honoured", int64(h.Rig.S.GateHit))
	c.Count("gates_not_honoured", int64(h.Rig.S.GateMiss))
	if c.WantSample() && overlapped {
		c.Sample(wl.Summary(h, 8))
	}
	for _, v := range viols {
		c.Violation("C06:"+v.Key, id, v.What+" ["+h.Cfg.String()+" closer="+fmt.Sprint(h.Cfg.Closer)+"]", wl.Summary(h, 400))
	}
}
