package c03

import (
	"fmt"
	"strings"

	netty "github.com/go-netty/go-netty"
)

// Operation kinds of a pipeline-building program.
const (
	opFirst = iota
	opLast
	opAt
)

var opNames = []string{"AddFirst", "AddLast", "AddHandler"}

// opRec is one building operation; Hs are indices into the case's instance pool.
type opRec struct {
	Op   string `json:"op"`
	Kind int    `json:"-"`
	Pos  int    `json:"pos"` // only for AddHandler
	Hs   []int  `json:"hs"`  // pool indices
}

func (o opRec) String() string {
	if o.Kind == opAt {
		return fmt.Sprintf("AddHandler(%d,%v)", o.Pos, o.Hs)
	}
	return fmt.Sprintf("%s(%v)", opNames[o.Kind], o.Hs)
}

// elem is one position of the model list; index 0 is the head (outbound only,
// writes to the channel), the last index is the tail (exception only, closes).
type elem struct {
	h    netty.Handler
	b    *base // nil for head and tail
	mask int
	pool int // pool index, -1 head, -2 tail
}

// model is the handler-list model: a Go slice including head and tail.
type model struct{ els []elem }

func (m *model) insert(at int, e elem) {
	m.els = append(m.els, elem{})
	copy(m.els[at+1:], m.els[at:])
	m.els[at] = e
}

// apply mirrors one operation on the list.
func (m *model) apply(o opRec, pool []elem) {
	switch {
	case o.Kind == opFirst:
		for _, i := range o.Hs { // each at the front in turn: a multi-handler call reverses
			m.insert(1, pool[i])
		}
	case o.Kind == opLast || o.Pos == -1 || o.Pos == len(m.els)-1:
		for _, i := range o.Hs {
			m.insert(len(m.els)-1, pool[i])
		}
	default:
		for k, i := range o.Hs { // in order after index Pos
			m.insert(o.Pos+1+k, pool[i])
		}
	}
}

func (m *model) String() string {
	var sb strings.Builder
	for i, e := range m.els {
		if i > 0 {
			sb.WriteByte(' ')
		}
		switch e.pool {
		case -1:
			sb.WriteString("head")
		case -2:
			sb.WriteString("tail")
		default:
			fmt.Fprintf(&sb, "h%d/%02d", e.pool, e.mask)
		}
	}
	return sb.String()
}

// masks is the shape of the list (for signatures).
func (m *model) masks() string {
	b := make([]byte, 0, len(m.els))
	for _, e := range m.els[1 : len(m.els)-1] {
		b = append(b, byte('0'+e.mask))
	}
	return string(b)
}

// expVisit is one predicted probe invocation.
type expVisit struct {
	pos     int
	kind    int
	payload interface{}
}

// sim predicts what firing an event does: the ordered probe visits, the bytes the
// head hands to the channel, and whether the tail closes the channel.
type sim struct {
	m       *model
	r       *run
	exp     []expVisit
	wire    []byte
	closed  bool
	closeEx error
}

// deliver routes an event of the given kind starting next to position from.
func (s *sim) deliver(kind, from int, payload interface{}, wbytes []byte) {
	step := 1
	if kind == kWrite {
		step = -1
	}
	for p := from + step; p >= 0 && p < len(s.m.els); p += step {
		if s.m.els[p].mask&kind != 0 {
			s.visit(p, kind, payload, wbytes)
			return
		}
	}
}

func (s *sim) visit(p, kind int, payload interface{}, wbytes []byte) {
	switch p {
	case 0: // head: the message goes to the channel
		s.wire = append(s.wire, wbytes...)
		return
	case len(s.m.els) - 1: // tail: close with that exception
		s.close(payload.(error))
		return
	}
	k := len(s.exp)
	s.exp = append(s.exp, expVisit{p, kind, payload})
	if k >= len(s.r.plan) {
		return
	}
	a := s.r.plan[k]
	switch a.Nest {
	case 1:
		w := s.r.nestW[k]
		s.protected(func() { s.deliver(kWrite, p, w.msg, w.bytes) })
	case 2:
		s.protected(func() { s.deliver(kEvent, p, s.r.nestE[k], nil) })
	}
	if a.Panic && kind != kExc && kind != kInactive {
		panic(simPanic{s.r.panE[k]})
	}
	if kind == kExc && s.r.stopB != nil && s.m.els[p].b == s.r.stopB {
		return
	}
	if a.Fwd {
		s.deliver(kind, p, payload, wbytes)
	}
}

// simPanic is a handler panic travelling up the model's own call stack.
type simPanic struct{ ex error }

// protected mirrors the recovery points of the library (handlerContext.Write / Trigger, Channel.Write / Trigger):
// a panic of the handlers invoked by fn becomes an exception event that enters the pipeline at the head; a panic
// raised while that exception is being delivered travels on to the next enclosing recovery point.
func (s *sim) protected(fn func()) {
	defer func() {
		if r := recover(); r != nil {
			sp, ok := r.(simPanic)
			if !ok {
				panic(r)
			}
			s.deliver(kExc, 0, sp.ex, nil)
		}
	}()
	fn()
}

// close mirrors Channel.Close: the first close fires inactive from the head.
func (s *sim) close(ex error) {
	if s.closed {
		return
	}
	s.closed, s.closeEx = true, ex
	s.deliver(kInactive, 0, ex, nil)
}

// structure compares Size / ContextAt / IndexOf / LastIndexOf with the model.
// It returns a list of (key, what) findings.
func structure(pl netty.Pipeline, m *model, pool []elem) (out [][2]string) {
	bad := func(key, format string, a ...interface{}) {
		out = append(out, [2]string{key, fmt.Sprintf(format, a...)})
	}
	n := len(m.els)
	if got := pl.Size(); got != n {
		bad("C03:size-mismatch", "Size()=%d, model has %d positions", got, n)
	}
	for i := 0; i < n; i++ {
		ctx := pl.ContextAt(i)
		if ctx == nil {
			bad("C03:contextat-mismatch", "ContextAt(%d) is nil, model has %s there", i, m.name(i))
			continue
		}
		h, usable := handlerOf(ctx)
		if !usable {
			bad("C03:contextat-mismatch", "ContextAt(%d) returned an unusable (nil-pointer) context, model has %s there", i, m.name(i))
		} else if h != m.els[i].h {
			bad("C03:contextat-mismatch", "ContextAt(%d).Handler() is %T, model has %s there", i, h, m.name(i))
		}
	}
	for _, i := range []int{-1, n, n + 1} {
		if ctx := pl.ContextAt(i); ctx != nil {
			bad("C03:contextat-out-of-range-not-nil", "ContextAt(%d) returned a context for a pipeline of %d positions", i, n)
		}
	}
	// per instance (head, tail, every pool instance whether added or not)
	insts := append([]elem{m.els[0], m.els[n-1]}, pool...)
	for _, e := range insts {
		first, last := -1, -1
		for i, x := range m.els {
			if x.h == e.h {
				if first < 0 {
					first = i
				}
				last = i
			}
		}
		is := func(h netty.Handler) bool { return h == e.h }
		if got := pl.IndexOf(is); got != first {
			bad("C03:indexof-mismatch", "IndexOf(%s)=%d, model says %d", e.name(), got, first)
		}
		if got := pl.LastIndexOf(is); got != last {
			bad("C03:lastindexof-mismatch", "LastIndexOf(%s)=%d, model says %d", e.name(), got, last)
		}
	}
	// full walks from both ends (a comparator that never matches sees every handler)
	var fw, bw []netty.Handler
	if got := pl.IndexOf(func(h netty.Handler) bool { fw = append(fw, h); return len(fw) > 4*n+8 }); got != -1 {
		bad("C03:forward-order-mismatch", "IndexOf with a never-matching comparator walked more than %d handlers (model has %d)", 4*n+8, n)
	}
	if got := pl.LastIndexOf(func(h netty.Handler) bool { bw = append(bw, h); return len(bw) > 4*n+8 }); got != -1 {
		bad("C03:backward-order-mismatch", "LastIndexOf with a never-matching comparator walked more than %d handlers (model has %d)", 4*n+8, n)
	}
	if d := walkDiff(fw, m, false); d != "" {
		bad("C03:forward-order-mismatch", "head-to-tail walk (IndexOf) differs from the model: %s", d)
	}
	if d := walkDiff(bw, m, true); d != "" {
		bad("C03:backward-order-mismatch", "tail-to-head walk (LastIndexOf) differs from the model: %s", d)
	}
	if got := pl.IndexOf(func(netty.Handler) bool { return true }); got != 0 {
		bad("C03:indexof-mismatch", "IndexOf(always)=%d, want 0", got)
	}
	if got := pl.LastIndexOf(func(netty.Handler) bool { return true }); got != n-1 {
		bad("C03:lastindexof-mismatch", "LastIndexOf(always)=%d, want %d", got, n-1)
	}
	return out
}

// handlerOf is ctx.Handler(), surviving a typed-nil context.
func handlerOf(ctx netty.HandlerContext) (h netty.Handler, usable bool) {
	defer func() {
		if recover() != nil {
			usable = false
		}
	}()
	return ctx.Handler(), true
}

func walkDiff(got []netty.Handler, m *model, reverse bool) string {
	n := len(m.els)
	if len(got) != n {
		return fmt.Sprintf("saw %d handlers, model has %d", len(got), n)
	}
	for k, h := range got {
		i := k
		if reverse {
			i = n - 1 - k
		}
		if h != m.els[i].h {
			return fmt.Sprintf("step %d saw %T, model has %s at index %d", k, h, m.name(i), i)
		}
	}
	return ""
}

func (e elem) name() string {
	switch e.pool {
	case -1:
		return "head"
	case -2:
		return "tail"
	}
	return fmt.Sprintf("h%d/%02d", e.pool, e.mask)
}

func (m *model) name(i int) string { return m.els[i].name() }
