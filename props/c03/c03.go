// Package c03 checks property C03: pipeline order and event routing match the
// handler-list model.
package c03

import (
	"bytes"
	"fmt"
	"io"
	"math/rand"
	"net"
	"os"
	"strings"
	"time"

	netty "github.com/go-netty/go-netty"

	"verif/core"
	"verif/mon"
)

func init() {
	core.Register(&core.Prop{
		ID:    "C03",
		Level: "exploration",
		Rule: "case = building program run on the pipeline of a REAL served channel (recording transport; sync, queued-blocking and queued-nonblocking) that already holds one inbound 'driver' probe parking the read loop; " +
			"programs: (a) every program of 1..3 operations x 1..2 handlers per call x every legal position (AddFirst, AddLast, AddHandler(-1..size-1)), handlers drawn from a 3-instance pool (repeats); " +
			"(b) random programs of 1..12 operations x 1..3 handlers over a pool of 1..8 instances of the 63 generated probe types (every non-empty subset of the six handler interfaces). " +
			"After every operation Size/ContextAt/IndexOf/LastIndexOf and full walks from both ends are compared with a slice model. On the built pipeline every entry point is fired " +
			"(6 pipeline.Fire*, Channel.Write/Trigger, ctx.Write and ctx.Trigger from EVERY position incl. head and tail) with every stop position of the forwarding chain (Fire*/Channel) or all-forward + a random stop (ctx.*), " +
			"plus random plans in which probes call ctx.Write/ctx.Trigger from inside a handler (nested routing); the last event of a pipeline is an exception forwarded past the last handler (built-in tail closes) or Channel.Close. " +
			"Oracle: ordered probe trace (instance, context, kind, payload identity) == model prediction, context == ContextAt(model index), wire delta == predicted bytes, transport Close count. " +
			"distinct_nontrivial = distinct (operation-kind sequence, interface-mask sequence of the final list) among pipelines with >=2 added handlers on which some event visited >=2 probes",
		Assumptions: []string{
			"bounds: <=12 operations, <=3 handlers per call, <=39 positions; illegal AddHandler positions (>= size) are not generated",
			"probes never panic, outbound payloads are of the five types the head accepts, the transport accepts every write; nothing is written after the closing event",
			"the pipeline is only mutated while the read loop is parked inside the transport's Read (the library does not synchronise pipeline mutation)",
			"IndexOf/LastIndexOf are assumed to scan from the head / from the tail (their documented 'first'/'last' meaning) when the comparator call order is compared with the model",
		},
		Shards:     func(tier string) int { return 8 },
		TimeoutSec: func(tier string) int { return map[bool]int{true: 120, false: 1500}[tier != "thorough"] },
		Required:   []string{"pipelines", "structure_checks", "events", "visits_checked", "writes_transmitted", "closes_by_tail", "nested_events"},
		Run:        runC03,
	})
}

// watchdogs counts expired watchdogs in this worker process.
var watchdogs int

// skel is an operation without its handlers.
type skel struct{ kind, pos, n int }

// enumSkels lists every program of 1..maxOps operations with 1..maxN handlers per
// call and every legal position, starting from a pipeline of startSize positions.
func enumSkels(maxOps, maxN, startSize int) [][]skel {
	var out [][]skel
	var rec func(prefix []skel, size int)
	rec = func(prefix []skel, size int) {
		if len(prefix) > 0 {
			out = append(out, append([]skel(nil), prefix...))
		}
		if len(prefix) == maxOps {
			return
		}
		for n := 1; n <= maxN; n++ {
			rec(append(prefix, skel{opFirst, 0, n}), size+n)
			rec(append(prefix, skel{opLast, 0, n}), size+n)
			for pos := -1; pos <= size-1; pos++ {
				rec(append(prefix, skel{opAt, pos, n}), size+n)
			}
		}
	}
	rec(nil, startSize)
	return out
}

// caseSpec is one generated case.
type caseSpec struct {
	ID    string `json:"id"`
	Masks []int  `json:"pool_masks"` // pool[0] is the driver (inbound only)
	// Mixed[i] != 0: pool entry i is form Mixed[i] of a mixed-receiver type (the mask is then what that form implements)
	Mixed []int   `json:"mixed_receiver_forms,omitempty"`
	Prog  []opRec `json:"program"`
	Mode  string  `json:"mode"`
	mode  mon.Mode
	queue int
}

func pickMode(i int) (mon.Mode, int) {
	switch i % 5 {
	case 3:
		return mon.Blocking, 16
	case 4:
		return mon.NonBlock, 1024
	}
	return mon.Sync, 0
}

func randMask(rng *rand.Rand) int {
	if rng.Intn(8) == 0 {
		return 63 // all six interfaces: long chains
	}
	return 1 + rng.Intn(63)
}

func exhaustiveCase(c *core.Ctx, sk []skel, idx, rep, gi int) caseSpec {
	rng := c.Rand("x", idx, rep)
	cs := caseSpec{ID: fmt.Sprintf("x%dr%d", idx, rep), Masks: []int{kRead}}
	for j := 0; j < 3; j++ {
		cs.Masks = append(cs.Masks, randMask(rng))
	}
	for _, s := range sk {
		o := opRec{Op: opNames[s.kind], Kind: s.kind, Pos: s.pos}
		for k := 0; k < s.n; k++ {
			o.Hs = append(o.Hs, 1+rng.Intn(3))
		}
		cs.Prog = append(cs.Prog, o)
	}
	cs.mode, cs.queue = pickMode(gi)
	cs.Mode = cs.mode.String()
	return cs
}

func randomCase(c *core.Ctx, idx, gi int) caseSpec {
	rng := c.Rand("r", idx)
	cs := caseSpec{ID: fmt.Sprintf("r%d", idx), Masks: []int{kRead}}
	np := 1 + rng.Intn(8)
	for j := 0; j < np; j++ {
		cs.Masks = append(cs.Masks, randMask(rng))
	}
	if rng.Intn(4) == 0 {
		cs.Mixed = make([]int, np+1)
		for j := 1; j <= np; j++ {
			if rng.Intn(2) == 0 {
				cs.Mixed[j] = 1 + rng.Intn(6)
			}
		}
	}
	size := 3
	for nops := 1 + rng.Intn(12); nops > 0; nops-- {
		o := opRec{}
		switch r := rng.Intn(4); {
		case r == 0:
			o.Kind = opFirst
		case r == 1:
			o.Kind = opLast
		default:
			o.Kind, o.Pos = opAt, -1+rng.Intn(size+1) // -1 .. size-1
		}
		o.Op = opNames[o.Kind]
		n := 1
		if r := rng.Intn(20); r >= 17 {
			n = 3
		} else if r >= 12 {
			n = 2
		}
		for k := 0; k < n; k++ {
			o.Hs = append(o.Hs, 1+rng.Intn(np))
		}
		size += n
		cs.Prog = append(cs.Prog, o)
	}
	cs.mode, cs.queue = pickMode(gi)
	cs.Mode = cs.mode.String()
	return cs
}

func runC03(c *core.Ctx) {
	for mask := 1; mask < 64; mask++ { // harness self-check: generated type <-> mask
		if got := implMask(mkProbe[mask](&base{})); got != mask {
			c.Inconclusive("selfcheck", fmt.Sprintf("generated probe p%02d implements mask %d", mask, got))
			return
		}
	}
	skels := enumSkels(3, 2, 3)
	reps := c.Scale(2, 20)
	nrand := c.Scale(8000, 240000)
	typesSeen := map[int]bool{}
	gi := 0
	exec := func(cs caseSpec, counter string) {
		if watchdogs >= 2 { // every further case would sit out the same watchdog
			c.Count("cases_not_run_after_watchdogs", 1)
			return
		}
		if !c.CaseQuiet(cs.ID) {
			return
		}
		c.Count(counter, 1)
		for _, o := range cs.Prog {
			for _, h := range o.Hs {
				typesSeen[cs.Masks[h]] = true
			}
		}
		t := &trial{c: c, cs: cs, tailClose: c.Rand("close", cs.ID).Intn(c.Scale(2, 10)) == 0}
		t.run()
	}
	// first case of every worker process: mixed-receiver types, for A and C the value form is added before the pointer
	// form, for B the pointer form first (whatever the library remembers per handler type is decided by the first use)
	warm := caseSpec{ID: fmt.Sprintf("mixed-first-use-s%d", c.Shard), Masks: []int{kRead, 1, 1, 1, 1, 1, 1}, Mixed: []int{0, 1, 2, 4, 3, 5, 6}}
	for j := 1; j <= 6; j++ {
		warm.Prog = append(warm.Prog, opRec{Op: opNames[opLast], Kind: opLast, Hs: []int{j}})
	}
	warm.mode, warm.queue = pickMode(c.Shard)
	warm.Mode = warm.mode.String()
	exec(warm, "mixed_first_use_programs")
	for rep := 0; rep < reps; rep++ {
		for idx, sk := range skels {
			if gi++; c.Mine(gi) {
				exec(exhaustiveCase(c, sk, idx, rep, gi), "exhaustive_programs")
			}
		}
	}
	for idx := 0; idx < nrand; idx++ {
		if gi++; c.Mine(gi) {
			exec(randomCase(c, idx, gi), "random_programs")
		}
	}
	c.Max("max_probe_types_used", int64(len(typesSeen)))
}

// entry is one way of injecting an event.
type entry struct {
	name string
	kind int
	from int // model position the routing starts next to (-1: Channel.Close)
}

type trial struct {
	postClose   bool
	stopLastExc bool
	c           *core.Ctx
	cs          caseSpec
	tailClose   bool
	rig         *mon.Rig
	pl          netty.Pipeline
	lab         *lab
	m           *model
	pool        []elem
	ctxs        []netty.HandlerContext
	rng         *rand.Rand
	seq         int // payload tags
	wops        int
	wireLen     int
	maxChain    int
	dead        bool // stop firing events (watchdog or channel state unknown)
}

func (t *trial) detail(extra map[string]interface{}) map[string]interface{} {
	d := map[string]interface{}{"case": t.cs, "model": t.m.String()}
	for k, v := range extra {
		d[k] = v
	}
	return d
}

func (t *trial) run() {
	c, cs := t.c, t.cs
	t.rng = c.Rand("ev", cs.ID)
	t.lab = &lab{}
	for i, mask := range cs.Masks {
		b := &base{lab: t.lab, id: i, mask: mask}
		var h netty.Handler
		if i == 0 {
			h = &driver{b: b, parked: make(chan struct{})}
		} else if i < len(cs.Mixed) && cs.Mixed[i] != 0 {
			h = mkMixed(cs.Mixed[i], b)
			mask = implMask(h)
			b.mask = mask
			c.Count("mixed_receiver_handlers", 1)
		} else {
			h = mkProbe[mask](b)
		}
		t.pool = append(t.pool, elem{h: h, b: b, mask: mask, pool: i})
	}
	drv := t.pool[0].h.(*driver)
	t.rig = mon.NewRig(mon.RigOpts{Mode: cs.mode, Queue: cs.queue, Handlers: []netty.Handler{drv}, NoPark: true, NoHooks: true})
	defer t.rig.Dispose()
	t.pl = t.rig.PL
	// head and tail handlers as the two walks see them first (no reliance on ContextAt yet)
	var headH, tailH netty.Handler
	if p := t.guard(func() {
		t.pl.IndexOf(func(h netty.Handler) bool { headH = h; return true })
		t.pl.LastIndexOf(func(h netty.Handler) bool { tailH = h; return true })
	}); p != nil || headH == nil || tailH == nil {
		c.Inconclusive(cs.ID, fmt.Sprintf("cannot identify head/tail of a fresh pipeline (panic=%v)", p))
		return
	}
	t.m = &model{els: []elem{{h: headH, mask: kWrite, pool: -1}, t.pool[0], {h: tailH, mask: kExc, pool: -2}}}

	// Structure after every operation.  Queries and event traversals only read the list, so the
	// first check and one read event are done before the read loop is known to be parked: a
	// pipeline whose read loop never reaches the driver is then judged on what it shows, not on a watchdog.
	check := func(step string) {
		c.Count("structure_checks", 1)
		var fs [][2]string
		if p := t.guard(func() { fs = structure(t.pl, t.m, t.pool) }); p != nil {
			fs = append(fs, [2]string{"C03:structure-query-panicked", fmt.Sprintf("Size/ContextAt/IndexOf/LastIndexOf panicked: %v", p)})
		}
		for _, f := range fs {
			c.Violation(f[0], cs.ID, fmt.Sprintf("after %s: %s; list should be [%s]", step, f[1], t.m), t.detail(map[string]interface{}{"after": step}))
		}
	}
	check("serve")
	if t.snapCtxs() {
		t.fire(entry{"fire-read", kRead, 0}, fwdPlan(4), false)
	}
	select {
	case <-drv.parked:
	case <-time.After(10 * time.Second):
		c.Inconclusive(cs.ID, "watchdog: read loop did not park in the driver probe")
		watchdogs++
		return
	}
	for k, o := range cs.Prog {
		hs := make([]netty.Handler, len(o.Hs))
		for i, p := range o.Hs {
			hs[i] = t.pool[p].h
		}
		if t.rng.Intn(4) == 0 && len(hs) >= 1 {
			// the same operation with a value that implements none of the handler interfaces among the
			// handlers: the call is rejected (panics) and must not have added anything
			bad := append([]netty.Handler{}, hs...)
			at := t.rng.Intn(len(bad) + 1)
			bad = append(bad[:at], append([]netty.Handler{struct{ notAHandler int }{k}}, bad[at:]...)...)
			p := t.guard(func() {
				switch o.Kind {
				case opFirst:
					t.pl.AddFirst(bad...)
				case opLast:
					t.pl.AddLast(bad...)
				default:
					t.pl.AddHandler(o.Pos, bad...)
				}
			})
			c.Count("rejected_operations", 1)
			if p == nil {
				c.Violation("C03:invalid-handler-accepted", cs.ID, fmt.Sprintf("operation #%d %s with a value implementing no handler interface at argument %d did not fail", k, o, at), t.detail(nil))
				return
			}
			check(fmt.Sprintf("rejected operation #%d %s (invalid handler at argument %d of %d)", k, o, at, len(bad)))
		}
		if p := t.guard(func() {
			switch o.Kind {
			case opFirst:
				t.pl.AddFirst(hs...)
			case opLast:
				t.pl.AddLast(hs...)
			default:
				t.pl.AddHandler(o.Pos, hs...)
			}
		}); p != nil {
			c.Violation("C03:legal-operation-panicked", cs.ID, fmt.Sprintf("operation #%d %s on [%s] panicked: %v", k, o, t.m, p), t.detail(nil))
			return
		}
		t.m.apply(o, t.pool)
		c.Count("operations", 1)
		check(fmt.Sprintf("operation #%d %s", k, o))
	}
	c.Count("pipelines", 1)
	c.Max("max_positions", int64(len(t.m.els)))
	if !t.snapCtxs() { // already reported by the structure check; routing cannot be addressed by position
		return
	}

	t.routeAll()
	if t.maxChain >= 2 && len(t.m.els) >= 5 {
		var ks strings.Builder
		for _, o := range cs.Prog {
			fmt.Fprintf(&ks, "%d.%d,", o.Kind, len(o.Hs))
		}
		c.Sig(ks.String(), t.m.masks())
	}
	c.Max("max_chain", int64(t.maxChain))
	if c.WantSample() && len(cs.Prog) >= 3 {
		c.Sample(map[string]interface{}{"case": cs, "final_list": t.m.String()})
	}
}

// snapCtxs records ContextAt(i) for every model position; false if one is missing.
func (t *trial) snapCtxs() (ok bool) {
	t.ctxs = t.ctxs[:0]
	ok = true
	if p := t.guard(func() {
		for i := range t.m.els {
			x := t.pl.ContextAt(i)
			if x == nil {
				ok = false
				return
			}
			x.Handler() // a typed nil panics here
			t.ctxs = append(t.ctxs, x)
		}
	}); p != nil {
		ok = false
	}
	return ok
}

func (t *trial) guard(fn func()) (p interface{}) {
	defer func() { p = recover() }()
	fn()
	return nil
}

func fwdPlan(n int) []act {
	p := make([]act, n)
	for i := range p {
		p[i].Fwd = true
	}
	return p
}

func (t *trial) routeAll() {
	n := len(t.m.els)
	full := 2*n + 2
	main := []entry{
		{"fire-active", kActive, 0}, {"fire-read", kRead, 0}, {"fire-write", kWrite, n - 1}, {"fire-exception", kExc, 0},
		{"fire-inactive", kInactive, 0}, {"fire-event", kEvent, 0}, {"channel-write", kWrite, n - 1}, {"channel-trigger", kEvent, 0},
	}
	// every stop position of the chain, then all-forward
	for _, e := range main {
		chain := t.chainLen(e)
		for s := 0; s < chain; s++ {
			t.fire(e, fwdPlan(s), false)
		}
		t.fire(e, fwdPlan(full), false) // skipped by fire() if it would close the channel
	}
	// ctx.Write / ctx.Trigger from every position, head and tail included
	for i := 0; i < n; i++ {
		for _, e := range []entry{{"ctx-write", kWrite, i}, {"ctx-trigger", kEvent, i}} {
			t.fire(e, fwdPlan(full), false)
			if chain := t.chainLen(e); chain > 0 {
				t.fire(e, fwdPlan(t.rng.Intn(chain)), false)
			}
			t.c.Count("ctx_entry_events", 1)
		}
	}
	// nested routing: probes call ctx.Write / ctx.Trigger from inside a handler
	plen := full
	if plen > 64 {
		plen = 64
	}
	for r := 0; r < 4+n/2; r++ {
		var e entry
		if k := t.rng.Intn(len(main) + 4); k < len(main) {
			e = main[k]
		} else if k%2 == 0 {
			e = entry{"ctx-write", kWrite, t.rng.Intn(n)}
		} else {
			e = entry{"ctx-trigger", kEvent, t.rng.Intn(n)}
		}
		plan := make([]act, plen)
		for i := range plan {
			plan[i].Fwd = t.rng.Intn(5) != 0
			switch x := t.rng.Intn(20); {
			case x < 3:
				plan[i].Nest = 1
			case x < 5:
				plan[i].Nest = 2
			}
		}
		t.fire(e, plan, false)
	}
	// panicking handlers under the entry points that promise to turn a panic into an exception event: the exception
	// is an inbound event like any other (head to tail, wherever the panicking or the issuing handler sits)
	for r := 0; r < 4+n/2; r++ {
		var e entry
		switch k := t.rng.Intn(6); k {
		case 0:
			e = main[6] // channel-write
		case 1:
			e = main[7] // channel-trigger
		case 2, 3:
			e = entry{"ctx-write", kWrite, 1 + t.rng.Intn(n-1)}
		default:
			e = entry{"ctx-trigger", kEvent, t.rng.Intn(n - 1)}
		}
		plan := make([]act, plen)
		for i := range plan {
			plan[i].Fwd = t.rng.Intn(6) != 0
			switch x := t.rng.Intn(20); {
			case x < 3:
				plan[i].Nest = 1
			case x < 6:
				plan[i].Nest = 2
			}
			plan[i].Panic = t.rng.Intn(4) == 0
		}
		t.stopLastExc = true
		t.fire(e, plan, false)
		t.stopLastExc = false
		t.c.Count("panic_plans", 1)
	}
	// closing event, last: exception past the last handler (built-in tail) or Channel.Close
	last := fwdPlan(full)
	nexc, nina := 0, 0
	for _, el := range t.m.els[1 : n-1] {
		if el.mask&kExc != 0 {
			nexc++
		}
		if el.mask&kInactive != 0 {
			nina++
		}
	}
	if t.tailClose {
		if nina > 0 && t.rng.Intn(2) == 0 {
			last = fwdPlan(nexc + t.rng.Intn(nina)) // stop somewhere in the inactive chain
		}
		t.fire(entry{"fire-exception", kExc, 0}, last, true)
	} else {
		if nina > 0 && t.rng.Intn(2) == 0 {
			last = fwdPlan(t.rng.Intn(nina))
		}
		t.fire(entry{"channel-close", kInactive, -1}, last, true)
	}
	// user events after the channel was closed: every entry point still routes them the same way
	t.postClose = true
	for _, e := range []entry{{"channel-trigger", kEvent, 0}, {"fire-event", kEvent, 0}, {"ctx-trigger", kEvent, 0}} {
		t.fire(e, fwdPlan(full), false)
		t.c.Count("events_after_close", 1)
	}
}

// chainLen is the number of probes an all-forward event from e visits.
func (t *trial) chainLen(e entry) int {
	k := 0
	step := 1
	if e.kind == kWrite {
		step = -1
	}
	for p := e.from + step; p > 0 && p < len(t.m.els)-1; p += step {
		if t.m.els[p].mask&e.kind != 0 {
			k++
		}
	}
	return k
}

func (t *trial) fire(e entry, plan []act, final bool) {
	if t.dead {
		return
	}
	c := t.c
	t.seq++
	r := &run{plan: plan, nestW: make([]*wpayload, len(plan)), nestE: make([]*token, len(plan)), panE: make([]*excTok, len(plan))}
	nested := false
	if t.stopLastExc {
		// the exception events of this run are consumed by the last exception-handling instance (so that they do not close the channel)
		for _, el := range t.m.els[1 : len(t.m.els)-1] {
			if el.mask&kExc != 0 {
				r.stopB = el.b
			}
		}
	}
	for k, a := range plan {
		if a.Panic {
			r.panE[k] = &excTok{t.seq*1000 + 500 + k}
		}
		switch a.Nest {
		case 1:
			r.nestW[k] = mkWrite(t.rng.Intn(5), 1+t.rng.Intn(40), t.seq*131+k)
			nested = true
		case 2:
			r.nestE[k] = &token{t.seq*1000 + k}
			nested = true
		}
	}
	var payload interface{}
	var wp *wpayload
	switch e.kind {
	case kRead, kEvent:
		payload = &token{t.seq}
	case kWrite:
		sizes := []int{1, 7, 100, 1024, 1500, 3000}
		wp = mkWrite(t.rng.Intn(5), sizes[t.rng.Intn(len(sizes))], t.seq)
		payload = wp.msg
	case kExc, kInactive:
		// the exception value is opaque to routing: plain errors, timeouts, temporary and connection errors all travel alike
		switch t.rng.Intn(8) {
		case 0:
			payload = &timeoutTok{excTok{t.seq}}
		case 1:
			payload = fmt.Errorf("c03 read deadline %d: %w", t.seq, os.ErrDeadlineExceeded)
		case 2:
			payload = &net.OpError{Op: "read", Net: "mock", Err: os.ErrDeadlineExceeded}
		case 3:
			payload = &net.OpError{Op: "read", Net: "mock", Err: fmt.Errorf("c03 reset %d", t.seq)}
		case 4:
			payload = fmt.Errorf("c03 eof %d: %w", t.seq, io.EOF)
		default:
			payload = &excTok{t.seq}
		}
	}
	s := &sim{m: t.m, r: r}
	if e.from < 0 {
		s.close(payload.(error))
	} else {
		var wb []byte
		if wp != nil {
			wb = wp.bytes
		}
		switch e.name {
		case "channel-write", "channel-trigger", "ctx-write", "ctx-trigger":
			s.protected(func() { s.deliver(e.kind, e.from, payload, wb) })
		default:
			s.deliver(e.kind, e.from, payload, wb)
		}
	}
	if s.closed && !final {
		c.Count("events_skipped_would_close", 1)
		return
	}

	var werr error
	t.lab.cur = r
	pan := t.guard(func() {
		pl, ch := t.pl, t.rig.Ch
		switch e.name {
		case "fire-active":
			pl.FireChannelActive()
		case "fire-read":
			pl.FireChannelRead(payload)
		case "fire-write":
			pl.FireChannelWrite(payload)
		case "fire-exception":
			pl.FireChannelException(payload.(error))
		case "fire-inactive":
			pl.FireChannelInactive(payload.(error))
		case "fire-event":
			pl.FireChannelEvent(payload)
		case "channel-write":
			werr = ch.Write(payload)
		case "channel-trigger":
			ch.Trigger(payload)
		case "ctx-write":
			t.ctxs[e.from].Write(payload)
		case "ctx-trigger":
			t.ctxs[e.from].Trigger(payload)
		case "channel-close":
			ch.Close(payload.(error))
		}
	})
	t.lab.cur = nil
	if t.rig.Ex.Outstanding() > 1 && !final {
		if !t.rig.Ex.WaitOutstanding(1, 20*time.Second) {
			c.Inconclusive(t.cs.ID, "watchdog: sender did not finish after "+e.name)
			t.dead, watchdogs = true, watchdogs+1
			return
		}
	}
	// Close is synchronous inside the closing call; only if it happened is there a read loop to wait for.
	if final && t.rig.T.CloseCount() > 0 && !t.rig.Ex.WaitOutstanding(0, 20*time.Second) {
		c.Inconclusive(t.cs.ID, "watchdog: read loop / sender did not finish after the closing event")
		t.dead, watchdogs = true, watchdogs+1
		return
	}
	c.Count("events", 1)
	c.Count("events_"+e.name, 1)
	if nested {
		c.Count("nested_events", 1)
	}
	if t.stopLastExc {
		for _, x := range s.exp {
			if x.kind == kExc {
				c.Count("panic_exception_visits", 1)
			}
		}
	}
	if len(s.exp) > t.maxChain {
		t.maxChain = len(s.exp)
	}

	ev := func() map[string]interface{} {
		return t.detail(map[string]interface{}{"entry": e.name, "from": e.from, "plan": planString(plan, len(s.exp)+1),
			"expected": t.expString(s.exp), "observed": t.obsString(r.obs)})
	}
	where := fmt.Sprintf("%s(from position %d) on [%s] with plan %s", e.name, e.from, t.m, planString(plan, len(s.exp)+1))
	if pan != nil {
		c.Violation("C03:routing-panicked:"+e.name, t.cs.ID, fmt.Sprintf("%s panicked: %v", where, pan), ev())
		t.dead = true
		return
	}
	if werr != nil {
		c.Violation("C03:channel-write-refused-while-active", t.cs.ID, fmt.Sprintf("%s returned %v on an open channel", where, werr), ev())
	}

	// 1. ordered trace
	for k := 0; k < len(s.exp) || k < len(r.obs); k++ {
		dir := func(kind int) string {
			if kind == kWrite {
				return "outbound"
			}
			return "inbound"
		}
		switch {
		case k >= len(r.obs):
			x := s.exp[k]
			c.Violation("C03:"+dir(x.kind)+"-route-mismatch:"+e.name, t.cs.ID,
				fmt.Sprintf("%s: visit #%d (%s at position %d, %s) did not happen; expected %s, observed %s", where, k, t.m.name(x.pos), x.pos, kindNames[x.kind], t.expString(s.exp), t.obsString(r.obs)), ev())
		case k >= len(s.exp):
			o := r.obs[k]
			c.Violation("C03:"+dir(o.kind)+"-route-mismatch:"+e.name, t.cs.ID,
				fmt.Sprintf("%s: extra visit #%d (h%d, %s); expected %s, observed %s", where, k, o.b.id, kindNames[o.kind], t.expString(s.exp), t.obsString(r.obs)), ev())
		default:
			x, o := s.exp[k], r.obs[k]
			c.Count("visits_checked", 1)
			switch {
			case o.b != t.m.els[x.pos].b || o.kind != x.kind:
				c.Violation("C03:"+dir(x.kind)+"-route-mismatch:"+e.name, t.cs.ID,
					fmt.Sprintf("%s: visit #%d went to h%d (%s), model says %s at position %d (%s); expected %s, observed %s", where, k, o.b.id, kindNames[o.kind], t.m.name(x.pos), x.pos, kindNames[x.kind], t.expString(s.exp), t.obsString(r.obs)), ev())
			case o.ctx != t.ctxs[x.pos]:
				c.Violation("C03:context-not-own-position:"+kindNames[x.kind], t.cs.ID,
					fmt.Sprintf("%s: visit #%d of %s got a context that is ContextAt(%d), not ContextAt(%d)", where, k, t.m.name(x.pos), t.ctxIndex(o.ctx), x.pos), ev())
			case !samePayload(o.payload, x.payload):
				c.Violation("C03:payload-altered:"+kindNames[x.kind], t.cs.ID,
					fmt.Sprintf("%s: visit #%d of %s received %T %v instead of the fired %T", where, k, t.m.name(x.pos), o.payload, o.payload, x.payload), ev())
			default:
				continue
			}
		}
		break // first divergence only
	}

	// 2. wire
	wops := t.rig.S.Count("tW1") + t.rig.S.Count("tV1")
	if wops != t.wops || len(s.wire) > 0 {
		wire := t.rig.T.Wire()
		var delta []byte
		if len(wire) >= t.wireLen {
			delta = wire[t.wireLen:]
		}
		switch {
		case bytes.Equal(delta, s.wire):
			if len(s.wire) > 0 {
				c.Count("writes_transmitted", 1)
				c.Count("bytes_transmitted", int64(len(s.wire)))
			}
		case len(delta) == 0:
			c.Violation("C03:write-not-transmitted:"+e.name, t.cs.ID, fmt.Sprintf("%s: the write was forwarded past the first handler but %d expected bytes did not reach the transport", where, len(s.wire)), ev())
		case len(s.wire) == 0:
			c.Violation("C03:unexpected-transmission:"+e.name, t.cs.ID, fmt.Sprintf("%s: %d bytes reached the transport although no write was forwarded past the first handler", where, len(delta)), ev())
		default:
			c.Violation("C03:transmitted-bytes-differ:"+e.name, t.cs.ID, fmt.Sprintf("%s: transport got %d bytes, expected %d (first difference at %d)", where, len(delta), len(s.wire), firstDiff(delta, s.wire)), ev())
		}
		t.wops, t.wireLen = wops, len(wire)
	}

	// 3. close
	if t.postClose {
		return
	}
	closes := t.rig.T.CloseCount()
	switch {
	case s.closed && (closes != 1 || t.rig.Ch.IsActive()):
		key := "C03:exception-past-last-handler-did-not-close"
		if e.from < 0 {
			key = "C03:channel-close-did-not-close-transport"
		}
		c.Violation(key, t.cs.ID, fmt.Sprintf("%s: transport Close count %d (want 1), channel active=%v", where, closes, t.rig.Ch.IsActive()), ev())
	case !s.closed && closes != 0:
		c.Violation("C03:unexpected-close:"+e.name, t.cs.ID, fmt.Sprintf("%s: transport was closed %d time(s) although no exception reached the tail", where, closes), ev())
		t.dead = true
	case s.closed && e.from >= 0:
		c.Count("closes_by_tail", 1)
	case s.closed:
		c.Count("closes_by_channel_close", 1)
	}
}

func firstDiff(a, b []byte) int {
	for i := 0; i < len(a) && i < len(b); i++ {
		if a[i] != b[i] {
			return i
		}
	}
	if len(a) < len(b) {
		return len(a)
	}
	return len(b)
}

func (t *trial) ctxIndex(x netty.HandlerContext) int {
	for i, cx := range t.ctxs {
		if cx == x {
			return i
		}
	}
	return -1
}

func planString(plan []act, upto int) string {
	var sb strings.Builder
	for k, a := range plan {
		if k >= upto {
			sb.WriteString("..")
			break
		}
		ch := byte('s')
		if a.Fwd {
			ch = 'f'
		}
		sb.WriteByte(ch)
		switch a.Nest {
		case 1:
			sb.WriteByte('W')
		case 2:
			sb.WriteByte('T')
		}
		if a.Panic {
			sb.WriteByte('!')
		}
	}
	if len(plan) < upto {
		sb.WriteString("s")
	}
	return sb.String()
}

func (t *trial) expString(exp []expVisit) string {
	var sb strings.Builder
	sb.WriteByte('[')
	for i, x := range exp {
		if i > 0 {
			sb.WriteByte(' ')
		}
		fmt.Fprintf(&sb, "%d:%s:%s", x.pos, t.m.name(x.pos), kindNames[x.kind])
	}
	sb.WriteByte(']')
	return sb.String()
}

func (t *trial) obsString(obs []seen) string {
	var sb strings.Builder
	sb.WriteByte('[')
	for i, o := range obs {
		if i > 0 {
			sb.WriteByte(' ')
		}
		fmt.Fprintf(&sb, "%d:h%d/%02d:%s", t.ctxIndex(o.ctx), o.b.id, o.b.mask, kindNames[o.kind])
	}
	sb.WriteByte(']')
	return sb.String()
}
