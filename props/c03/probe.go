package c03

import (
	"bytes"
	"fmt"
	"io"
	"sync"

	netty "github.com/go-netty/go-netty"
)

// Event kinds; the bit doubles as the interface bit of a probe's mask.
const (
	kActive = 1 << iota
	kRead
	kWrite
	kExc
	kInactive
	kEvent
)

var kindNames = map[int]string{kActive: "active", kRead: "read", kWrite: "write", kExc: "exception", kInactive: "inactive", kEvent: "event"}

// act is what a probe does at one visit (indexed by the visit's ordinal within
// the run, nested visits included).
type act struct {
	Fwd  bool // forward the event to the next handler
	Nest int  // before forwarding: 0 nothing, 1 ctx.Write(fresh payload), 2 ctx.Trigger(fresh token)
	// Panic: instead of returning, panic with a fresh exception token (ignored at exception/inactive visits). Only used
	// under entry points whose panics the library promises to turn into an exception event (Channel.Write/Trigger, ctx.Write/Trigger).
	Panic bool
}

// seen is one recorded probe invocation.
type seen struct {
	b       *base
	kind    int
	ctx     netty.HandlerContext
	payload interface{}
}

// run is the script and the trace of one fired event.
type run struct {
	plan  []act
	nestW []*wpayload // per visit ordinal, for Nest==1
	nestE []*token    // per visit ordinal, for Nest==2
	panE  []*excTok   // per visit ordinal, for Panic
	stopB *base       // exception visits of this instance never forward (nil: plan decides)
	obs   []seen
}

// lab is shared by the probes of one pipeline; cur is only touched by the
// goroutine that fires events (routing is synchronous).
type lab struct{ cur *run }

// base is the behaviour shared by the 63 generated probe types.
type base struct {
	lab  *lab
	id   int // pool index
	mask int
}

func (b *base) on(kind int, ctx netty.HandlerContext, payload interface{}) bool {
	r := b.lab.cur
	if r == nil {
		return true // not one of ours (serve-time active, dispose-time inactive): pass through
	}
	k := len(r.obs)
	r.obs = append(r.obs, seen{b, kind, ctx, payload})
	if k >= len(r.plan) {
		return false
	}
	a := r.plan[k]
	switch a.Nest {
	case 1:
		ctx.Write(r.nestW[k].msg)
	case 2:
		ctx.Trigger(r.nestE[k])
	}
	if a.Panic && kind != kExc && kind != kInactive {
		panic(r.panE[k])
	}
	if kind == kExc && r.stopB == b {
		return false
	}
	return a.Fwd
}

func (b *base) active(ctx netty.ActiveContext) {
	if b.on(kActive, ctx, nil) {
		ctx.HandleActive()
	}
}

func (b *base) read(ctx netty.InboundContext, m netty.Message) {
	if _, ours := m.(*token); !ours {
		ctx.HandleRead(m) // the channel's own read loop handing over the transport; touches no state
		return
	}
	if b.on(kRead, ctx, m) {
		ctx.HandleRead(m)
	}
}

func (b *base) write(ctx netty.OutboundContext, m netty.Message) {
	if b.on(kWrite, ctx, m) {
		ctx.HandleWrite(m)
	}
}

func (b *base) exception(ctx netty.ExceptionContext, ex netty.Exception) {
	if b.on(kExc, ctx, ex) {
		ctx.HandleException(ex)
	}
}

func (b *base) inactive(ctx netty.InactiveContext, ex netty.Exception) {
	if b.on(kInactive, ctx, ex) {
		ctx.HandleInactive(ex)
	}
}

func (b *base) event(ctx netty.EventContext, ev netty.Event) {
	if b.on(kEvent, ctx, ev) {
		ctx.HandleEvent(ev)
	}
}

// driver is the fixed inbound probe that is in the pipeline when the channel is
// served: it parks the read loop inside the transport's Read, and behaves like an
// ordinary inbound-only probe for the read events the check fires itself.
type driver struct {
	b      *base
	once   sync.Once
	parked chan struct{}
}

func (d *driver) HandleRead(ctx netty.InboundContext, m netty.Message) {
	if _, ours := m.(*token); ours {
		d.b.read(ctx, m)
		return
	}
	if r, ok := m.(io.Reader); ok {
		d.once.Do(func() { close(d.parked) })
		var buf [32]byte
		r.Read(buf[:]) // blocks until the transport is closed
	}
}

// token is the identity payload of read events and user events.
type token struct{ n int }

// excTok is the identity payload of exception / inactive events.
type excTok struct{ n int }

func (e *excTok) Error() string { return fmt.Sprintf("c03-exception-%d", e.n) }

// timeoutTok is an exception that is a net.Error reporting a timeout.
type timeoutTok struct{ excTok }

func (e *timeoutTok) Timeout() bool   { return true }
func (e *timeoutTok) Temporary() bool { return true }

// wpayload is an outbound message of one of the types the head accepts, with
// the bytes it must produce on the wire.
type wpayload struct {
	msg    netty.Message
	bytes  []byte
	flavor string
}

type onlyWriterTo struct {
	data  []byte
	split int
}

func (w *onlyWriterTo) WriteTo(dst io.Writer) (int64, error) {
	n1, err := dst.Write(w.data[:w.split])
	if err != nil {
		return int64(n1), err
	}
	n2, err := dst.Write(w.data[w.split:])
	return int64(n1 + n2), err
}

type onlyReader struct {
	data  []byte
	off   int
	chunk int
}

func (r *onlyReader) Read(p []byte) (int, error) {
	if r.off >= len(r.data) {
		return 0, io.EOF
	}
	n := len(r.data) - r.off
	if n > r.chunk {
		n = r.chunk
	}
	if n > len(p) {
		n = len(p)
	}
	copy(p, r.data[r.off:r.off+n])
	r.off += n
	return n, nil
}

var wFlavors = []string{"bytes", "byteslices", "buffer", "writerto", "reader"}

// mkWrite builds an outbound payload: flavor 0..4, size >= 1, content derived from tag.
func mkWrite(flavor, size, tag int) *wpayload {
	data := make([]byte, size)
	for i := range data {
		data[i] = byte(tag*31 + i*7 + 1)
	}
	w := &wpayload{bytes: data, flavor: wFlavors[flavor]}
	cp := append([]byte(nil), data...)
	switch flavor {
	case 0:
		w.msg = cp
	case 1:
		a := (size + 2) / 3
		b := a + (size-a)/2
		var parts [][]byte
		for _, p := range [][]byte{cp[:a], cp[a:b], cp[b:]} {
			if len(p) > 0 {
				parts = append(parts, p)
			}
		}
		w.msg = parts
	case 2:
		w.msg = bytes.NewBuffer(cp)
	case 3:
		w.msg = &onlyWriterTo{data: cp, split: size / 2}
	default:
		w.msg = &onlyReader{data: cp, chunk: 1 + size/2 + tag%7}
	}
	return w
}

// samePayload reports whether a handler was given the very object that was fired.
func samePayload(a, b interface{}) (same bool) {
	defer func() {
		if recover() != nil {
			same = false
		}
	}()
	switch x := a.(type) {
	case nil:
		return b == nil
	case []byte:
		y, ok := b.([]byte)
		return ok && len(x) == len(y) && (len(x) == 0 || &x[0] == &y[0])
	case [][]byte:
		y, ok := b.([][]byte)
		return ok && len(x) == len(y) && (len(x) == 0 || &x[0] == &y[0])
	}
	return a == b
}

// implMask reports which of the six handler interfaces h implements.
func implMask(h netty.Handler) int {
	m := 0
	if _, ok := h.(netty.ActiveHandler); ok {
		m |= kActive
	}
	if _, ok := h.(netty.InboundHandler); ok {
		m |= kRead
	}
	if _, ok := h.(netty.OutboundHandler); ok {
		m |= kWrite
	}
	if _, ok := h.(netty.ExceptionHandler); ok {
		m |= kExc
	}
	if _, ok := h.(netty.InactiveHandler); ok {
		m |= kInactive
	}
	if _, ok := h.(netty.EventHandler); ok {
		m |= kEvent
	}
	return m
}

// Mixed-receiver probe types: some Handle* methods have value receivers, others pointer receivers, so the value form T
// and the pointer form *T of one struct type implement different subsets of the six handler interfaces.
type mixA struct{ b *base }

func (p mixA) HandleRead(ctx netty.InboundContext, m netty.Message)    { p.b.read(ctx, m) }
func (p *mixA) HandleWrite(ctx netty.OutboundContext, m netty.Message) { p.b.write(ctx, m) }
func (p *mixA) HandleActive(ctx netty.ActiveContext)                   { p.b.active(ctx) }

type mixB struct{ b *base }

func (p mixB) HandleException(ctx netty.ExceptionContext, ex netty.Exception) { p.b.exception(ctx, ex) }
func (p mixB) HandleEvent(ctx netty.EventContext, ev netty.Event)             { p.b.event(ctx, ev) }
func (p *mixB) HandleRead(ctx netty.InboundContext, m netty.Message)          { p.b.read(ctx, m) }
func (p *mixB) HandleInactive(ctx netty.InactiveContext, ex netty.Exception)  { p.b.inactive(ctx, ex) }

type mixC struct{ b *base }

func (p mixC) HandleWrite(ctx netty.OutboundContext, m netty.Message) { p.b.write(ctx, m) }
func (p *mixC) HandleEvent(ctx netty.EventContext, ev netty.Event)    { p.b.event(ctx, ev) }
func (p *mixC) HandleActive(ctx netty.ActiveContext)                  { p.b.active(ctx) }
func (p *mixC) HandleException(ctx netty.ExceptionContext, ex netty.Exception) {
	p.b.exception(ctx, ex)
}

// mkMixed builds form k (1..6: A value, A pointer, B value, B pointer, C value, C pointer).
func mkMixed(k int, b *base) netty.Handler {
	switch k {
	case 1:
		return mixA{b}
	case 2:
		return &mixA{b}
	case 3:
		return mixB{b}
	case 4:
		return &mixB{b}
	case 5:
		return mixC{b}
	}
	return &mixC{b}
}
