package props

import (
	"bytes"
	"context"
	"encoding/binary"
	"fmt"
	"github.com/go-netty/go-netty/codec/frame"
	"math/rand"
	"sync"
	"sync/atomic"
	"time"

	netty "github.com/go-netty/go-netty"
	"github.com/go-netty/go-netty/transport/tcp"
	"github.com/go-netty/go-netty/utils/pool/pbuffer"
	"github.com/go-netty/go-netty/utils/pool/pbytes"

	"verif/core"
	"verif/mon"
)

func init() {
	core.Register(&core.Prop{
		ID:    "C12",
		Level: "exploration",
		Race:  true,
		Rule: "workers are built with -race (halt_on_error=0, reports parsed from the log, deduplicated by the innermost go-netty function of each conflicting access). Workload: every unordered pair of {Write, Write1, Writev, CtxWrite1, CtxWritev, ReadFrom, Writer().Write, Trigger, Close, IsActive, Context} looped concurrently on one channel (sync, queued blocking, queued non-blocking) with read loop, sender and both idle handlers' timers live; " +
			"bootstrap Listen/Async/Listener.Close/Shutdown/Connect overlapped in random orders on a mock factory and on real TCP loopback; holder add/del/CloseAll; pools from 16 goroutines. " +
			"distinct_nontrivial = (mode, op pair) combinations whose calls were measured to overlap in time at least once, plus bootstrap/pool scenario kinds",
		Assumptions: []string{
			"the race detector only reports races that occur in the run; absence of a report for a pair is claimed only when the pair was measured to overlap",
			"pipeline mutation during traffic and attachment access are never driven (outside the contract)",
			"race reports whose two access stacks contain no go-netty frame are harness faults and make the run inconclusive, not violated",
		},
		Shards:     func(tier string) int { return 8 },
		TimeoutSec: func(tier string) int { return map[bool]int{true: 400, false: 2400}[tier != "thorough"] },
		Required:   []string{"pair_trials_overlapped", "idle_timer_callbacks", "bootstrap_rounds", "tcp_rounds"},
		Run:        runC12,
	})
}

var c12Ops = []string{"Write", "Write1", "Writev", "CtxWrite1", "CtxWritev", "ReadFrom", "Writer().Write", "Trigger", "Close", "IsActive", "Context", "Writev(one slice)", "Write([][]byte one slice)"}

type evSink struct {
	n    int64
	slow time.Duration // keep the delivering goroutine (e.g. an idle timer callback) busy for a while
}

func (e *evSink) HandleEvent(ctx netty.EventContext, ev netty.Event) {
	atomic.AddInt64(&e.n, 1)
	if e.slow > 0 {
		time.Sleep(e.slow)
	}
}

type c12Event struct{ n int }

func c12Do(ch netty.Channel, op int, i int, buf []byte) {
	defer func() { recover() }()
	switch op {
	case 0:
		ch.Write(append([]byte(nil), buf...))
	case 1:
		ch.Write1(buf)
	case 2:
		ch.Writev([][]byte{buf[:8], buf[8:]})
	case 3:
		ch.CtxWrite1(context.Background(), buf)
	case 4:
		ch.CtxWritev(context.Background(), [][]byte{buf[:4], buf[4:]})
	case 5:
		ch.ReadFrom(bytes.NewReader(buf))
	case 6:
		ch.Writer().Write(buf)
	case 7:
		ch.Trigger(c12Event{i})
	case 8:
		ch.Close(errSentinel)
	case 9:
		ch.IsActive()
	case 10:
		select {
		case <-ch.Context().Done():
		default:
		}
		_ = ch.Context().Err()
	case 11:
		ch.Writev([][]byte{buf})
	case 12:
		ch.Write([][]byte{buf})
	}
	if (op >= 1 && op <= 6) || op == 11 {
		// the call has returned: the buffer is the caller's again (a low-level write takes a snapshot)
		buf[i%len(buf)]++
	}
}

type span struct{ a, b uint64 }

func overlaps(x, y []span) int {
	n := 0
	j := 0
	for _, s := range x {
		for j < len(y) && y[j].b < s.a {
			j++
		}
		for k := j; k < len(y) && y[k].a <= s.b; k++ {
			n++
		}
	}
	return n
}

func c12Pair(c *core.Ctx, mode mon.Mode, a, b, iters int, idleTimers *int64) int {
	sink := &evSink{}
	var wrap *[2]int
	if (a+b)%3 == 1 {
		// on the library's own buffering transport wrapper (what tcp.Options{ReadBufferSize, WriteBufferSize} selects)
		wv := [][2]int{{64, 64}, {0, 64}, {64, 0}}[(a*7+b)%3]
		wrap = &wv
	}
	hs := []netty.Handler{netty.ReadIdleHandler(time.Second), netty.WriteIdleHandler(time.Second), sink}
	if a == 0 || b == 0 || a == 12 || b == 12 {
		// messages written through the pipeline pass a shipped frame encoder (one codec instance per channel, called from
		// every writing goroutine)
		switch (a*3 + b + int(mode) + 1) % 4 {
		case 1:
			hs = append([]netty.Handler{frame.VarintLengthFieldCodec(1 << 20)}, hs...)
		case 2:
			hs = append([]netty.Handler{frame.LengthFieldCodec(binary.BigEndian, 1<<20, 0, 4, 0, 4)}, hs...)
		case 3:
			hs = append([]netty.Handler{frame.DelimiterCodec(1<<20, "\n", true)}, hs...)
		}
	}
	rig := mon.NewRig(mon.RigOpts{Mode: mode, Queue: 2, QuietTail: true, NoHooks: true, Wrap: wrap, Handlers: hs})
	defer rig.Dispose()
	var wg sync.WaitGroup
	start := make(chan struct{})
	spans := make([][]span, 2)
	ops := []int{a, b}
	closeAt := iters / 3
	for g := 0; g < 2; g++ {
		wg.Add(1)
		go func(g int) {
			defer wg.Done()
			buf := mon.Payload(g, 0, 64)
			<-start
			for i := 0; i < iters; i++ {
				op := ops[g]
				if op == 8 && i < closeAt {
					// before the close point the closing goroutine just observes
					op = 9
				}
				s := span{a: mon.Tick()}
				c12Do(rig.Ch, op, i, buf)
				s.b = mon.Tick()
				if op == ops[g] {
					spans[g] = append(spans[g], s)
				}
			}
		}(g)
	}
	// keep the read loop busy
	stop := make(chan struct{})
	wg.Add(1)
	go func() {
		defer wg.Done()
		for i := 0; i < 20; i++ {
			select {
			case <-stop:
				return
			default:
			}
			rig.T.FeedBytes([]byte("x"))
			time.Sleep(200 * time.Microsecond)
		}
	}()
	close(start)
	done := make(chan struct{})
	go func() { wg.Wait(); close(done) }()
	select {
	case <-done:
	case <-time.After(30 * time.Second):
		rig.Ch.Close(nil)
		<-done
	}
	close(stop)
	return overlaps(spans[0], spans[1])
}

// c12Idle keeps channels with both idle handlers alive across several timer
// periods with traffic, then closes them while timers are firing.
func c12Idle(c *core.Ctx, n int, wg *sync.WaitGroup) {
	for i := 0; i < n; i++ {
		wg.Add(1)
		go func(i int) {
			defer wg.Done()
			sink := &evSink{slow: 120 * time.Millisecond}
			rig := mon.NewRig(mon.RigOpts{Mode: mon.Mode(i % 3), Queue: 4, QuietTail: true, NoHooks: true,
				Handlers: []netty.Handler{netty.ReadIdleHandler(time.Second), netty.WriteIdleHandler(time.Second), sink}})
			t0 := time.Now()
			// traffic for 0.9 s in bursts, then silence until timers fired, then close at ~expiry
			for time.Since(t0) < 900*time.Millisecond {
				rig.T.FeedBytes([]byte("ping"))
				rig.Ch.Write([]byte("pong"))
				rig.Ch.IsActive()
				time.Sleep(time.Duration(20+i*7) * time.Millisecond)
			}
			time.Sleep(time.Duration(1000+i*13) * time.Millisecond)
			// the timers have fired by now (their callbacks are kept busy by the slow event handler): more reads
			// and writes pass the idle handlers while / right after the callbacks run
			for k := 0; k < 12; k++ {
				rig.T.FeedBytes([]byte("late"))
				rig.Ch.Write([]byte("late"))
				time.Sleep(time.Duration(15+i) * time.Millisecond)
			}
			time.Sleep(time.Duration(700+i*29) * time.Millisecond)
			rig.Ch.Close(errSentinel)
			c.Count("idle_timer_callbacks", atomic.LoadInt64(&sink.n))
			time.Sleep(50 * time.Millisecond)
			rig.Dispose()
		}(i)
	}
}

func c12BootstrapMock(c *core.Ctx, rng *rand.Rand) {
	f := &mon.MockFactory{}
	holder := netty.NewChannelHolder(8)
	var active int64
	init := func(ch netty.Channel) {
		ch.Pipeline().AddLast(&mon.ParkReader{}, netty.ActiveHandlerFunc(func(ctx netty.ActiveContext) {
			atomic.AddInt64(&active, 1)
			ctx.HandleActive()
		}), &mon.QuietTail{})
	}
	bs := netty.NewBootstrap(netty.WithTransport(f), netty.WithChildInitializer(init), netty.WithClientInitializer(init), netty.WithChannelHolder(holder))
	var wg sync.WaitGroup
	run := func(fn func()) {
		wg.Add(1)
		d := rng.Intn(4)
		go func() {
			defer wg.Done()
			defer func() { recover() }()
			if d > 0 {
				time.Sleep(time.Duration(d*50) * time.Microsecond)
			}
			fn()
		}()
	}
	l1 := bs.Listen("mock://one:1")
	l2 := bs.Listen("mock://two:2")
	steps := []func(){
		func() { l1.Async(func(error) {}) },
		func() { l2.Async(func(error) {}) },
		func() { l1.Close() },
		func() { bs.Shutdown() },
		func() {
			if ch, err := bs.Connect("mock://peer:9"); err == nil {
				ch.Write1([]byte("hello"))
				ch.IsActive()
			}
		},
		func() {
			if ch, err := bs.Connect("mock://peer:10"); err == nil {
				ch.Close(nil)
			}
		},
		func() {
			// inbound connections on whatever acceptors exist
			for k := 0; k < 3; k++ {
				as, _ := f.Snapshot()
				for _, a := range as {
					go a.Inject()
				}
				time.Sleep(30 * time.Microsecond)
			}
		},
		func() { holder.CloseAll(errSentinel) },
	}
	rng.Shuffle(len(steps), func(i, j int) { steps[i], steps[j] = steps[j], steps[i] })
	for _, s := range steps {
		run(s)
	}
	wg.Wait()
	bs.Shutdown()
	// release anything still parked (a listener that started accepting after Shutdown is C13's business)
	as, ts := f.Snapshot()
	for _, a := range as {
		a.Close()
	}
	for _, t := range ts {
		t.Close()
	}
	c.Count("bootstrap_rounds", 1)
}

var c12Port int32

func c12BootstrapTCP(c *core.Ctx, rng *rand.Rand) {
	port := 21000 + c.Shard*400 + int(atomic.AddInt32(&c12Port, 1))%400
	url := fmt.Sprintf("tcp://127.0.0.1:%d", port)
	var got int64
	srvInit := func(ch netty.Channel) {
		ch.Pipeline().AddLast(netty.InboundHandlerFunc(func(ctx netty.InboundContext, m netty.Message) {
			var b [256]byte
			n, err := m.(interface{ Read([]byte) (int, error) }).Read(b[:])
			if err != nil {
				panic(err)
			}
			atomic.AddInt64(&got, int64(n))
			ctx.Write(append([]byte(nil), b[:n]...))
		}), &mon.QuietTail{})
	}
	cliInit := func(ch netty.Channel) {
		ch.Pipeline().AddLast(&mon.ParkReader{}, &mon.QuietTail{})
	}
	bs := netty.NewBootstrap(netty.WithChildInitializer(srvInit), netty.WithClientInitializer(cliInit),
		netty.WithTransport(tcp.New()))
	// one custom options value shared by the listener and every Connect (the usual way to use tcp.WithOptions); the
	// unset fields (zero dial timeout = none, zero buffer sizes) are legal values
	opts := &tcp.Options{KeepAlive: rng.Intn(2) == 0, Linger: -1, NoDelay: true}
	if rng.Intn(3) == 0 {
		opts.Timeout = 2 * time.Second
	}
	if rng.Intn(3) == 0 {
		opts.ReadBufferSize, opts.WriteBufferSize = 512, 512
	}
	wo := tcp.WithOptions(opts)
	l := bs.Listen(url, wo)
	errc := make(chan error, 1)
	l.Async(func(err error) { errc <- err })
	// wait until the port answers: several clients connect at the same time
	var ch netty.Channel
	var err error
	var cmu sync.Mutex
	var cwg sync.WaitGroup
	for g := 0; g < 3; g++ {
		cwg.Add(1)
		go func() {
			defer cwg.Done()
			for i := 0; i < 200; i++ {
				c1, e1 := bs.Connect(url, wo)
				if e1 == nil {
					cmu.Lock()
					if ch == nil {
						ch = c1
					}
					cmu.Unlock()
					return
				}
				cmu.Lock()
				err = e1
				cmu.Unlock()
				time.Sleep(time.Millisecond)
			}
		}()
	}
	cwg.Wait()
	if ch != nil {
		err = nil
		c.Count("tcp_concurrent_connect_rounds", 1)
	}
	if err != nil {
		bs.Shutdown()
		c.Count("tcp_connect_failed", 1)
		return
	}
	var wg sync.WaitGroup
	for g := 0; g < 3; g++ {
		wg.Add(1)
		go func(g int) {
			defer wg.Done()
			defer func() { recover() }()
			for i := 0; i < 30; i++ {
				ch.Write1([]byte("0123456789abcdef"))
				ch.Writev([][]byte{[]byte("ab"), []byte("cd")})
				ch.IsActive()
			}
		}(g)
	}
	wg.Add(1)
	delay, closeFirst := time.Duration(rng.Intn(2000))*time.Microsecond, rng.Intn(2) == 0
	go func() {
		defer wg.Done()
		time.Sleep(delay)
		if closeFirst {
			l.Close()
		}
		bs.Shutdown()
	}()
	wg.Wait()
	select {
	case <-errc:
	case <-time.After(5 * time.Second):
		c.Count("tcp_listener_callback_missing", 1)
	}
	c.Count("tcp_rounds", 1)
	c.Count("tcp_bytes_echoed", atomic.LoadInt64(&got))
}

// c12SenderFailure: the background sender fails while writers keep writing and Close hands the queue over.
func c12SenderFailure(c *core.Ctx, r int) {
	rig := mon.NewRig(mon.RigOpts{Mode: mon.Mode(1 + r%2), Queue: 16, QuietTail: true, NoHooks: true})
	defer rig.Dispose()
	rig.T.AddFault(mon.Fault{Kind: mon.OpWritev, K: 2 + r%3, Err: errSentinel})
	rig.T.OnOp = func(kind string, phase int) {
		if kind == mon.OpWritev && phase == 0 {
			time.Sleep(time.Duration(50+r%7*40) * time.Microsecond) // keep the sender busy so that packets queue up behind it
		}
	}
	var wg sync.WaitGroup
	for g := 0; g < 4; g++ {
		wg.Add(1)
		go func(g int) {
			defer wg.Done()
			defer func() { recover() }()
			buf := mon.Payload(g, 0, 48)
			for i := 0; i < 300; i++ {
				if _, err := rig.Ch.Write1(buf); err != nil && i > 50 {
					// keep going a little after the failure: Close is handing over meanwhile
					if !rig.Ch.IsActive() && i%4 == 0 {
						return
					}
				}
			}
		}(g)
	}
	wg.Wait()
	rig.Ex.WaitOutstanding(0, 10*time.Second)
	c.Count("sender_failure_rounds", 1)
}

// c12CloseBuffered: Close racing writers on a synchronous channel over the library's buffering wrapper.
func c12CloseBuffered(c *core.Ctx, r int) {
	wv := [][2]int{{64, 64}, {0, 64}, {4096, 4096}}[r%3]
	rig := mon.NewRig(mon.RigOpts{Mode: mon.Mode(r % 2), Queue: 4, QuietTail: true, NoHooks: true, Wrap: &wv})
	defer rig.Dispose()
	var wg sync.WaitGroup
	start := make(chan struct{})
	for g := 0; g < 3; g++ {
		wg.Add(1)
		go func(g int) {
			defer wg.Done()
			defer func() { recover() }()
			buf := mon.Payload(g, 0, 40)
			<-start
			for i := 0; i < 400; i++ {
				if g == 0 {
					rig.Ch.Write1(buf)
				} else {
					rig.Ch.Writev([][]byte{buf[:10], buf[10:]})
				}
				if !rig.Ch.IsActive() && i%8 == 0 {
					return
				}
			}
		}(g)
	}
	wg.Add(1)
	go func() {
		defer wg.Done()
		<-start
		for i := 0; i < 20+r%60; i++ {
			rig.Ch.IsActive()
		}
		rig.Ch.Close(errSentinel)
	}()
	close(start)
	wg.Wait()
	c.Count("close_vs_write_on_buffered_wrapper_rounds", 1)
}

func c12Pools(c *core.Ctx, iters int) {
	var wg sync.WaitGroup
	for g := 0; g < 16; g++ {
		wg.Add(1)
		go func(g int) {
			defer wg.Done()
			sizes := []int{1, 100, 1024, 1500, 4096, 65536, 70000}
			for i := 0; i < iters; i++ {
				n := sizes[(i+g)%len(sizes)]
				p := pbytes.Get(n)
				b := (*p)[:cap(*p)]
				if len(b) > 0 {
					b[0] = byte(g)
				}
				pbytes.Put(p)
				bb := pbuffer.Get(n)
				bb.WriteByte(byte(g))
				pbuffer.Put(bb)
			}
		}(g)
	}
	wg.Wait()
	c.Count("pool_rounds", 1)
}

func runC12(c *core.Ctx) {
	iters := c.Scale(120, 400)
	reps := c.Scale(1, 6)
	var idleWG sync.WaitGroup
	if c.Case("idle-timers") {
		c12Idle(c, c.Scale(6, 24), &idleWG)
	}
	idx := 0
	for rep := 0; rep < reps; rep++ {
		for m := 0; m < 3; m++ {
			for a := 0; a < len(c12Ops); a++ {
				for b := a; b < len(c12Ops); b++ {
					idx++
					if !c.Mine(idx) {
						continue
					}
					id := fmt.Sprintf("pair/%s/%s+%s/r%d", mon.Mode(m), c12Ops[a], c12Ops[b], rep)
					if !c.Case(id) {
						continue
					}
					ov := 0
					for try := 0; try < 4 && ov == 0; try++ {
						ov = c12Pair(c, mon.Mode(m), a, b, iters*(try+1), nil)
					}
					c.Count("pair_trials", 1)
					if ov > 0 {
						c.Count("pair_trials_overlapped", 1)
						c.Count("call_overlaps_measured", int64(ov))
						c.Sig(m, a, b)
					} else {
						c.Count("pair_trials_never_overlapped", 1)
					}
					if c.WantSample() {
						c.Sample(map[string]interface{}{"case": id, "iterations_per_side": iters, "overlapping_call_pairs": ov})
					}
				}
			}
		}
	}
	rounds := c.Scale(12, 100)
	for r := 0; r < rounds; r++ {
		id := fmt.Sprintf("bootstrap-mock/r%d", r)
		if c.Case(id) {
			c12BootstrapMock(c, c.Rand("bsmock", r, c.Shard))
			c.Sig("bootstrap-mock", r%8)
		}
	}
	for r := 0; r < c.Scale(4, 30); r++ {
		id := fmt.Sprintf("bootstrap-tcp/r%d", r)
		if c.Case(id) {
			c12BootstrapTCP(c, c.Rand("bstcp", r, c.Shard))
			c.Sig("bootstrap-tcp", r%4)
		}
	}
	for r := 0; r < c.Scale(30, 300); r++ {
		if c.Case(fmt.Sprintf("sender-failure/r%d", r)) {
			c12SenderFailure(c, r+c.Shard*1000)
			c.Sig("sender-failure", r%6)
		}
	}
	for r := 0; r < c.Scale(40, 400); r++ {
		if c.Case(fmt.Sprintf("close-buffered/r%d", r)) {
			c12CloseBuffered(c, r+c.Shard*977)
			c.Sig("close-buffered", r%6)
		}
	}
	if c.Case("pools") {
		c12Pools(c, c.Scale(3000, 30000))
		c.Sig("pools")
	}
	idleWG.Wait()
}
