package props

import (
	"context"
	"fmt"
	"runtime"
	"sync"
	"time"

	netty "github.com/go-netty/go-netty"

	"verif/core"
	"verif/mon"
	"verif/props/wl"
)

func init() {
	core.Register(&core.Prop{
		ID:    "C01",
		Level: "exploration",
		Rule: "trial = real channel on a recording transport, W writers x N low-level writes (5 entry points, size palette 0..131075, caller buffers scribbled after return) under a perturbation plan " +
			"(pairwise gated windows writer<->sender, PCT-style delays, raw stress at GOMAXPROCS 1/2/4/16); oracle = offline exactly-once/order/integrity check of the transport log against call/return ticks; " +
			"distinct_nontrivial = distinct hook-event-order signatures among trials in which writer and sender events alternated at least twice",
		Assumptions: []string{
			"the mock transport accepts every write (premise of the property)",
			"bounds: <=8 writers, <=40 writes per writer, queue sizes 1,2,3,4,8,64",
			"real-time order is judged with logical ticks taken before each call and after it returned",
		},
		Shards:     func(tier string) int { return 8 },
		TimeoutSec: func(tier string) int { return map[bool]int{true: 300, false: 1800}[tier != "thorough"] },
		Required:   []string{"records_checked", "trials_alternating"},
		Run:        runC01,
	})
}

var (
	c01Queues  = []int{1, 2, 3, 4, 8, 64}
	c01Writers = []int{1, 2, 3, 4, 8}
	c01Procs   = []int{1, 2, 4, 16}
)

// genCfg draws one trial configuration; idx also cycles systematically through
// mode x queue so that every combination is visited.
func genCfg(c *core.Ctx, idx int, plans []wl.NamedPlan) wl.Cfg {
	rng := c.Rand("cfg", idx)
	cfg := wl.Cfg{}
	cfg.Mode = mon.Mode(idx % 3)
	cfg.Queue = c01Queues[(idx/3)%len(c01Queues)]
	cfg.Writers = c01Writers[rng.Intn(len(c01Writers))]
	cfg.PerWriter = 4 + rng.Intn(12)
	cfg.Procs = c01Procs[rng.Intn(len(c01Procs))]
	switch rng.Intn(10) {
	case 0:
		cfg.Sizes = mon.Sizes
		cfg.PerWriter = 4 + rng.Intn(6)
	case 1, 2, 3:
		cfg.Sizes = []int{0, 1, 15, 16, 17, 40}
		cfg.PerWriter = 8 + rng.Intn(32)
	default:
		cfg.Sizes = mon.SmallSizes
	}
	// every 4th trial runs on the library's own transport wrapper (none / read / write / both buffers)
	if idx%4 == 3 {
		wraps := [][2]int{{0, 0}, {64, 0}, {0, 64}, {4096, 4096}, {0, 1}, {16, 200}}
		wv := wraps[(idx/4)%len(wraps)]
		cfg.Wrap = &wv
	}
	switch k := idx % 5; {
	case k <= 1 && cfg.Mode != mon.Sync:
		p := plans[(idx/5)%len(plans)]
		cfg.Plan, cfg.PlanKind = p.Steps, p.Name
	case k <= 3:
		p := wl.PCTPlan(rng)
		cfg.Plan, cfg.PlanKind = p.Steps, p.Name
	default:
		cfg.PlanKind = "stress"
	}
	if cfg.Wrap != nil && rng.Intn(2) == 0 {
		// underneath the wrapper every transport call is a conn.Write: a slow one (peer not reading) at a random occurrence
		occ, d := 1+rng.Intn(4), time.Duration(100+rng.Intn(900))*time.Microsecond
		cfg.Plan = append(append([]mon.Step{}, cfg.Plan...), mon.Step{At: "tW0", Occ: occ, Kind: mon.Sleep, D: d})
		cfg.PlanKind += fmt.Sprintf("+slow-conn-write#%d", occ)
	}
	if cfg.Mode == mon.Sync && rng.Intn(3) == 0 {
		cfg.NoDeadlines = true
	}
	if idx%16 == 5 {
		// ReadFrom is a low-level write entry point too (one pooled 1024-byte chunk handed over without a copy; also over a
		// reader that returns its last data together with io.EOF): payloads of at most one chunk, few Ps so that a pooled
		// buffer put back is the next one taken
		cfg.Entries = []int{wl.EWrite1, wl.EWritev, wl.ECtxWrite1, wl.ECtxWritev, wl.EWriter, wl.EReadFrom, wl.EReadFromEOF, wl.EReadFromEOF}
		cfg.Sizes = []int{0, 1, 16, 17, 100, 300, 500, 1023, 1024}
		cfg.Procs = []int{1, 1, 2}[rng.Intn(3)]
		cfg.PerWriter = 6 + rng.Intn(12)
		cfg.PlanKind += "+readfrom"
	}
	if idx%16 == 13 {
		// the write-only buffering wrapper has no lock of its own: it relies on the channel to serialise write+flush.
		// Several writers, small payloads (they stay in the bufio buffer until the flush), every conn.Write slow.
		wv := [2]int{0, []int{64, 256, 4096}[rng.Intn(3)]}
		cfg.Wrap = &wv
		cfg.Mode = mon.Mode(rng.Intn(3))
		cfg.Writers = 2 + rng.Intn(3)
		cfg.PerWriter = 4 + rng.Intn(8)
		cfg.Sizes = []int{1, 15, 16, 17, 40}
		cfg.Plan = []mon.Step{{At: "tW0", Occ: 0, Kind: mon.Sleep, D: time.Duration(50+rng.Intn(300)) * time.Microsecond}}
		cfg.PlanKind = "write-buffered-wrapper:every-conn-write-slow"
		if cfg.Mode != mon.NonBlock && rng.Intn(3) == 0 {
			// the channel is closed while writes (and their flushes) are still in flight on the slow connection
			cfg.Closer, cfg.LateWriters = 1, 1+rng.Intn(2)
			cfg.PlanKind += "+close-in-flight"
		}
	}
	return cfg
}

// c01DeadlineCross: synchronous channel on a connection that honours write deadlines. Write1 (no deadline) is stalled
// inside the connection when another goroutine issues a CtxWrite with a deadline context; the connection's clock is then
// moved past that deadline and the stalled write resumes. Whatever the second call does, the first one has no deadline:
// it is handed over whole, and a call that reports an error has contributed nothing.
func c01DeadlineCross(c *core.Ctx, id string, idx int) {
	rng := c.Rand("deadline-cross", idx)
	tr := mon.NewRecTransport()
	tr.HonourDeadlines = true
	plan := []mon.Step{{At: "tW0", Occ: 1, Kind: mon.Gate, Until: "go", UntilCount: 1, Timeout: 5 * time.Second},
		{At: "tV0", Occ: 1, Kind: mon.Gate, Until: "go", UntilCount: 1, Timeout: 5 * time.Second}}
	rig := mon.NewRig(mon.RigOpts{Mode: mon.Sync, Plan: plan, Tr: tr, QuietTail: true})
	defer rig.Dispose()
	pa, pb := mon.Payload(1, 0, 64+rng.Intn(200)), mon.Payload(2, 0, 64)
	type res struct{ err error }
	ra, rb := make(chan res, 1), make(chan res, 1)
	go func() {
		var err error
		if idx%2 == 0 {
			_, err = rig.Ch.Write1(append([]byte(nil), pa...))
		} else {
			_, err = rig.Ch.Writev([][]byte{append([]byte(nil), pa[:10]...), append([]byte(nil), pa[10:]...)})
		}
		ra <- res{err}
	}()
	if !rig.S.Await("tW0", 1, 3*time.Second) && !rig.S.Await("tV0", 1, time.Second) {
		rig.S.Mark("go")
		c.Inconclusive(id, "first write never reached the transport")
		return
	}
	ctx, cancel := context.WithDeadline(context.Background(), tr.Now().Add(time.Hour))
	defer cancel()
	go func() {
		var err error
		if (idx/2)%2 == 0 {
			_, err = rig.Ch.CtxWrite1(ctx, append([]byte(nil), pb...))
		} else {
			_, err = rig.Ch.CtxWritev(ctx, [][]byte{append([]byte(nil), pb...)})
		}
		rb <- res{err}
	}()
	// give the second call time to get as far as it can (it waits for the first one's write lock)
	for i := 0; i < 200 && tr.WriteDeadline().IsZero() && mon.ParkedIn("(*channel).CtxWrite", "sync.Mutex.Lock", "semacquire") == 0; i++ {
		time.Sleep(100 * time.Microsecond)
	}
	tr.AdvanceClock(2 * time.Hour)
	rig.S.Mark("go")
	var a, b res
	select {
	case a = <-ra:
	case <-time.After(5 * time.Second):
		c.Inconclusive(id, "watchdog: first write did not return")
		return
	}
	select {
	case b = <-rb:
	case <-time.After(5 * time.Second):
		c.Inconclusive(id, "watchdog: second write did not return")
		return
	}
	c.Count("deadline_cross_trials", 1)
	_, wire := rig.T.Snapshot()
	recs, perrs := mon.ParseWire(wire)
	on := map[int]bool{}
	for _, r := range recs {
		on[r.W] = true
	}
	where := fmt.Sprintf("[sync channel, deadline-honouring connection; first write err=%v, CtxWrite with deadline err=%v, wire %d bytes]", a.err, b.err, len(wire))
	switch {
	case len(perrs) > 0:
		c.Violation("C01:wire-corrupt", id, "a write without a deadline, stalled in the connection while another call armed a write deadline, was cut short: "+perrs[0].String()+" "+where, nil)
	case a.err != nil && on[1]:
		c.Violation("C01:failed-write-transmitted", id, "the first write returned an error but its payload is on the wire "+where, nil)
	case a.err == nil && !on[1]:
		c.Violation("C01:accepted-payload-skipped", id, "the first write returned nil but its payload is not on the wire "+where, nil)
	case b.err != nil && on[2]:
		c.Violation("C01:failed-write-transmitted", id, "the CtxWrite returned an error but its payload is on the wire "+where, nil)
	}
}

func runC01(c *core.Ctx) {
	for i, n := 0, c.Scale(64, 1280); i < n; i++ {
		if !c.Mine(i) {
			continue
		}
		id := fmt.Sprintf("deadline-cross%d", i)
		if c.CaseQuiet(id) {
			c01DeadlineCross(c, id, i)
		}
	}
	plans := wl.WindowPlans(20 * time.Millisecond)
	total := c.Scale(16000, 200000)
	stuck := 0
	for idx := 0; idx < total; idx++ {
		if !c.Mine(idx) {
			continue
		}
		if c.Enough() {
			break
		}
		id := fmt.Sprintf("t%d", idx)
		if !c.CaseQuiet(id) {
			continue
		}
		cfg := genCfg(c, idx, plans)
		runtime.GOMAXPROCS(cfg.Procs)
		if idx%16 == 9 {
			if !siblingsC01(c, id, idx, cfg) {
				if stuck++; stuck >= 2 {
					c.Count("aborted_after_watchdogs", 1)
					break
				}
			}
			continue
		}
		h := wl.Run(cfg, c.Rand("trial", idx), 8*time.Second)
		judgeC01(c, id, h)
		h.Rig.Dispose()
		if !h.Quiesced {
			if stuck++; stuck >= 2 {
				c.Count("aborted_after_watchdogs", 1)
				break
			}
		}
	}
	runtime.GOMAXPROCS(runtime.NumCPU())
}

// siblingsC01 runs three channels created by ONE factory value at the same time (a Bootstrap creates all of
// its channels from one factory): each channel has its own writers (disjoint writer ids) and its own recording
// transport whose write calls are entered late (a delay between the call and the moment the transport looks
// at the buffers, like a vectored write waiting for socket space). Every channel is judged by the same oracle:
// bytes accepted by a sibling are "never written" on this channel.
func siblingsC01(c *core.Ctx, id string, idx int, base wl.Cfg) bool {
	rng := c.Rand("siblings", idx)
	mode := mon.Blocking
	if rng.Intn(3) == 0 {
		mode = mon.NonBlock
	}
	q := []int{2, 4, 8, 64}[rng.Intn(4)]
	var f netty.ChannelFactory
	if mode == mon.Blocking {
		f = netty.NewAsyncWriteChannel(q, true)
	} else {
		f = netty.NewAsyncWriteChannel(q, false)
	}
	const n = 3
	hs := make([]*wl.History, n)
	var wg sync.WaitGroup
	for k := 0; k < n; k++ {
		cfg := wl.Cfg{Mode: mode, Queue: q, Writers: 1 + rng.Intn(3), PerWriter: 3 + rng.Intn(8), Sizes: []int{1, 15, 16, 17, 40, 100, 1025},
			Procs: base.Procs, Factory: f, WBase: 4 * k, PlanKind: "siblings:late-transport-entry", NoCtxKinds: true}
		cfg.Plan = []mon.Step{
			{At: "tV0", Occ: 0, Kind: mon.Sleep, D: time.Duration(50+rng.Intn(400)) * time.Microsecond},
			{At: "sBat", Occ: 0, Kind: mon.Yield, N: 1 + rng.Intn(3)},
		}
		wg.Add(1)
		tr := c.Rand("sibling-trial", idx, k)
		go func(k int, cfg wl.Cfg) {
			defer wg.Done()
			hs[k] = wl.Run(cfg, tr, 8*time.Second)
		}(k, cfg)
	}
	wg.Wait()
	ok := true
	overlap := 0
	for k, h := range hs {
		judgeC01(c, fmt.Sprintf("%s/sib%d", id, k), h)
		if !h.Quiesced {
			ok = false
		}
	}
	// evidence: transport write calls (entry mark .. exit mark, logical ticks) that overlapped a sibling's
	iv := make([][][2]uint64, n)
	for k, h := range hs {
		var in uint64
		for _, e := range h.Rig.S.Log() {
			switch e.Name {
			case "tV0", "tW0":
				in = e.Tick
			case "tV1", "tW1":
				if in != 0 {
					iv[k] = append(iv[k], [2]uint64{in, e.Tick})
					in = 0
				}
			}
		}
	}
	for k := range iv {
		for _, a := range iv[k] {
		sib:
			for k2 := range iv {
				if k2 == k {
					continue
				}
				for _, b := range iv[k2] {
					if a[0] < b[1] && b[0] < a[1] {
						overlap++
						break sib
					}
				}
			}
		}
	}
	c.Count("sibling_trials", 1)
	c.Count("sibling_transport_calls_overlapping", int64(overlap))
	for _, h := range hs {
		h.Rig.Dispose()
	}
	return ok
}

func judgeC01(c *core.Ctx, id string, h *wl.History) {
	if !h.Quiesced {
		c.Inconclusive(id, "watchdog: trial did not reach quiescence: "+h.Cfg.String())
		if !h.WritersDone {
			return
		}
	}
	recs, viols := wl.CheckC01(h)
	c.Count("records_checked", int64(len(recs)))
	c.Count("transport_calls", int64(len(h.Ops)))
	c.Count("mode_"+h.Cfg.Mode.String(), 1)
	nerr := 0
	for w := range h.Writes {
		for _, r := range h.Writes[w] {
			c.Count("write_calls", 1)
			if !r.OK {
				nerr++
			}
		}
	}
	c.Count("write_calls_refused", int64(nerr))
	sig, alt := h.Rig.S.Signature()
	c.Count("gates_honoured", int64(h.Rig.S.GateHit))
	c.Count("gates_not_honoured", int64(h.Rig.S.GateMiss))
	if alt >= 2 {
		c.Count("trials_alternating", 1)
		c.SigHash(sig)
	} else if h.Cfg.Mode == mon.Sync && len(h.Ops) > 1 {
		// sync channel: signature = order of writers on the wire
		c.Sig("sync", wireOrder(recs))
	}
	if c.WantSample() && alt >= 4 {
		c.Sample(wl.Summary(h, 12))
	}
	for _, v := range viols {
		c.Violation("C01:"+v.Key, id, v.What+" ["+h.Cfg.String()+"]", wl.Summary(h, 400))
	}
	// second oracle (independent implementation): linearizability against a FIFO-queue model, small histories only
	nw := 0
	for w := range h.Writes {
		nw += len(h.Writes[w])
	}
	if nw <= 40 && h.Cfg.Writers <= 3 && len(h.Ops) <= 80 && h.Quiesced {
		verdict, ops, witness := wl.PorcupineC01(h, recs, 2*time.Second)
		c.Count("porcupine_histories", 1)
		c.Count("porcupine_operations", int64(ops))
		switch verdict {
		case "illegal":
			c.Count("porcupine_illegal", 1)
			if len(viols) == 0 {
				c.Violation("C01:history-not-linearizable-as-fifo", id, "porcupine: the recorded history is not linearizable against the FIFO model (write appends, each transport call drains a prefix) although the offline oracle found nothing ["+h.Cfg.String()+"]",
					map[string]interface{}{"history": witness, "summary": wl.Summary(h, 200)})
			}
		case "unknown":
			c.Count("porcupine_timeouts", 1)
		default:
			if len(viols) > 0 {
				c.Count("porcupine_ok_but_offline_oracle_fired", 1)
			}
		}
	}
}

func wireOrder(recs []wl.WireRec) string {
	b := make([]byte, 0, len(recs))
	for i, r := range recs {
		if i > 64 {
			break
		}
		b = append(b, byte('0'+r.W))
	}
	return string(b)
}
