package props

import (
	"fmt"
	"runtime"
	"time"

	"verif/core"
	"verif/mon"
	"verif/props/wl"
)

func init() {
	core.Register(&core.Prop{
		ID:    "C01",
		Level: "exploration",
		Rule: "trial = real channel on a recording transport, W writers x N low-level writes (5 entry points, size palette 0..131075, caller buffers scribbled after return) under a perturbation plan " +
			"(pairwise gated windows writer<->sender, PCT-style delays, raw stress at GOMAXPROCS 1/2/4/16); oracle = offline exactly-once/order/integrity check of the transport log against call/return ticks; " +
			"distinct_nontrivial = distinct hook-event-order signatures among trials in which writer and sender events alternated at least twice",
		Assumptions: []string{
			"the mock transport accepts every write (premise of the property)",
			"bounds: <=8 writers, <=40 writes per writer, queue sizes 1,2,3,4,8,64",
			"real-time order is judged with logical ticks taken before each call and after it returned",
		},
		Shards:     func(tier string) int { return 8 },
		TimeoutSec: func(tier string) int { return map[bool]int{true: 300, false: 1800}[tier != "thorough"] },
		Required:   []string{"records_checked", "trials_alternating"},
		Run:        runC01,
	})
}

var (
	c01Queues  = []int{1, 2, 3, 4, 8, 64}
	c01Writers = []int{1, 2, 3, 4, 8}
	c01Procs   = []int{1, 2, 4, 16}
)

// genCfg draws one trial configuration; idx also cycles systematically through
// mode x queue so that every combination is visited.
func genCfg(c *core.Ctx, idx int, plans []wl.NamedPlan) wl.Cfg {
	rng := c.Rand("cfg", idx)
	cfg := wl.Cfg{}
	cfg.Mode = mon.Mode(idx % 3)
	cfg.Queue = c01Queues[(idx/3)%len(c01Queues)]
	cfg.Writers = c01Writers[rng.Intn(len(c01Writers))]
	cfg.PerWriter = 4 + rng.Intn(12)
	cfg.Procs = c01Procs[rng.Intn(len(c01Procs))]
	switch rng.Intn(10) {
	case 0:
		cfg.Sizes = mon.Sizes
		cfg.PerWriter = 4 + rng.Intn(6)
	case 1, 2, 3:
		cfg.Sizes = []int{0, 1, 15, 16, 17, 40}
		cfg.PerWriter = 8 + rng.Intn(32)
	default:
		cfg.Sizes = mon.SmallSizes
	}
	// every 4th trial runs on the library's own transport wrapper (none / read / write / both buffers)
	if idx%4 == 3 {
		wraps := [][2]int{{0, 0}, {64, 0}, {0, 64}, {4096, 4096}, {0, 1}, {16, 200}}
		wv := wraps[(idx/4)%len(wraps)]
		cfg.Wrap = &wv
	}
	switch k := idx % 5; {
	case k <= 1 && cfg.Mode != mon.Sync:
		p := plans[(idx/5)%len(plans)]
		cfg.Plan, cfg.PlanKind = p.Steps, p.Name
	case k <= 3:
		p := wl.PCTPlan(rng)
		cfg.Plan, cfg.PlanKind = p.Steps, p.Name
	default:
		cfg.PlanKind = "stress"
	}
	return cfg
}

func runC01(c *core.Ctx) {
	plans := wl.WindowPlans(20 * time.Millisecond)
	total := c.Scale(16000, 200000)
	stuck := 0
	for idx := 0; idx < total; idx++ {
		if !c.Mine(idx) {
			continue
		}
		if c.Enough() {
			break
		}
		id := fmt.Sprintf("t%d", idx)
		if !c.CaseQuiet(id) {
			continue
		}
		cfg := genCfg(c, idx, plans)
		runtime.GOMAXPROCS(cfg.Procs)
		h := wl.Run(cfg, c.Rand("trial", idx), 8*time.Second)
		judgeC01(c, id, h)
		h.Rig.Dispose()
		if !h.Quiesced {
			if stuck++; stuck >= 2 {
				c.Count("aborted_after_watchdogs", 1)
				break
			}
		}
	}
	runtime.GOMAXPROCS(runtime.NumCPU())
}

func judgeC01(c *core.Ctx, id string, h *wl.History) {
	if !h.Quiesced {
		c.Inconclusive(id, "watchdog: trial did not reach quiescence: "+h.Cfg.String())
		if !h.WritersDone {
			return
		}
	}
	recs, viols := wl.CheckC01(h)
	c.Count("records_checked", int64(len(recs)))
	c.Count("transport_calls", int64(len(h.Ops)))
	c.Count("mode_"+h.Cfg.Mode.String(), 1)
	nerr := 0
	for w := range h.Writes {
		for _, r := range h.Writes[w] {
			c.Count("write_calls", 1)
			if !r.OK {
				nerr++
			}
		}
	}
	c.Count("write_calls_refused", int64(nerr))
	sig, alt := h.Rig.S.Signature()
	c.Count("gates_honoured", int64(h.Rig.S.GateHit))
	c.Count("gates_not_honoured", int64(h.Rig.S.GateMiss))
	if alt >= 2 {
		c.Count("trials_alternating", 1)
		c.SigHash(sig)
	} else if h.Cfg.Mode == mon.Sync && len(h.Ops) > 1 {
		// sync channel: signature = order of writers on the wire
		c.Sig("sync", wireOrder(recs))
	}
	if c.WantSample() && alt >= 4 {
		c.Sample(wl.Summary(h, 12))
	}
	for _, v := range viols {
		c.Violation("C01:"+v.Key, id, v.What+" ["+h.Cfg.String()+"]", wl.Summary(h, 400))
	}
	// second oracle (independent implementation): linearizability against a FIFO-queue model, small histories only
	nw := 0
	for w := range h.Writes {
		nw += len(h.Writes[w])
	}
	if nw <= 40 && h.Cfg.Writers <= 3 && len(h.Ops) <= 80 && h.Quiesced {
		verdict, ops, witness := wl.PorcupineC01(h, recs, 2*time.Second)
		c.Count("porcupine_histories", 1)
		c.Count("porcupine_operations", int64(ops))
		switch verdict {
		case "illegal":
			c.Count("porcupine_illegal", 1)
			if len(viols) == 0 {
				c.Violation("C01:history-not-linearizable-as-fifo", id, "porcupine: the recorded history is not linearizable against the FIFO model (write appends, each transport call drains a prefix) although the offline oracle found nothing ["+h.Cfg.String()+"]",
					map[string]interface{}{"history": witness, "summary": wl.Summary(h, 200)})
			}
		case "unknown":
			c.Count("porcupine_timeouts", 1)
		default:
			if len(viols) > 0 {
				c.Count("porcupine_ok_but_offline_oracle_fired", 1)
			}
		}
	}
}

func wireOrder(recs []wl.WireRec) string {
	b := make([]byte, 0, len(recs))
	for i, r := range recs {
		if i > 64 {
			break
		}
		b = append(b, byte('0'+r.W))
	}
	return string(b)
}
