// Package c08 checks property C08: frame decoders never deliver a truncated,
// oversized or phantom frame, whatever the byte stream and wherever it ends.
package c08

import (
	"bytes"
	"fmt"
	"math"
	"math/rand"

	"verif/core"
	fc "verif/props/framecodec"
)

func init() {
	core.Register(&core.Prop{
		ID:    "C08",
		Level: "fault_enumeration",
		Rule: "base case = decoder configuration (360 LengthFieldCodec shapes round-robin, varint, 7 delimiters x strip, 8 fixed sizes; small maxima so that oversize is reachable) x stream family: " +
			"(valid-cut) 1..3 valid frames, the stream ended at EVERY byte offset 0..len x 4 terminal behaviours (EOF, plain error, net.Error, final bytes together with EOF); " +
			"(big-cut) a frame of 1..70 kB ended at header/body edge offsets x terminals; " +
			"(adversarial) valid prefix + header with all-ones / top-bit (negative 8-byte) / int64-overflowing / max / max+1 / below-header (adjustment) / below-strip length, 10- and 11-byte varints, varint 2^63, non-canonical and unterminated varints, delimiter never appearing (max-1, max, max+1, far beyond), partial delimiter, x tails (none, a few bytes, as declared) x terminals; " +
			"(random) random bytes. Every trial under a fragmentation plan (whole, 1-byte, header/body/boundary cuts, random, chunked, zero-length reads) on a real channel; " +
			"oracle against an independent total reference decoder of the bytes actually supplied: delivered (= read to the end without error) messages must be the reference's complete frames in order with exact end offsets; nothing may be delivered for a truncated or invalid tail; " +
			"no delivery that consumed zero source bytes (trial cut off after 3); inactive after end of stream; bytes pulled per read-loop iteration <= max+header; no runtime.Error exception; worker process survives. " +
			"plus packet mode (PacketCodec alone and in front of a length-field / delimiter decoder): sequences of 2..7 packets (each ended by io.EOF, fragmented) of which some are cut by a read error half-way, declare a length above the maximum, or are shorter than their header says, the channel surviving because the exception is consumed; oracle: the delivered messages are exactly the complete packets in order (nothing of a packet that ended in an exception shows up later). " +
			"distinct_nontrivial = distinct (configuration shape, family/header class, cut class, terminal, fragmentation kind) resp. (inner decoder, packet kind sequence)",
		Assumptions: []string{
			"a delivered reader that returns an error before its end is not a delivered frame (the property's own definition); the collector then raises the error like the shipped codecs do",
			"exceptions are always an allowed outcome: the check never demands that a complete frame is delivered (that is C04)",
			"delimiter maximum is judged permissively: a delivered body (without delimiter) longer than maxFrameLength is oversized; bytes pulled <= max + len(delimiter)",
			"the pipeline ends with a handler that closes the channel on an exception exactly like the built-in tail handler (without printing)",
			"streams <= 64 bytes (quick) / 96 bytes (thorough) are cut at every offset; larger ones at header/body edges only",
			"the 20 s per-trial watchdog is inconclusive, never a verdict; a spin is detected logically (16 read-loop iterations without transport progress)",
		},
		Shards:           func(tier string) int { return 16 },
		TimeoutSec:       func(tier string) int { return map[bool]int{true: 300, false: 2400}[tier != "thorough"] },
		CrashIsViolation: true,
		Required:         []string{"packet_frames_checked", "streams", "frames_checked", "cut_points", "tails_trunc-body", "tails_trunc-header", "tails_reject", "tails_end"},
		Run:              run,
	})
}

var allPlans = append(append([]string{}, fc.PlanKinds...), "zero")

var families = []string{"valid-cut", "adversarial", "valid-cut", "big-cut", "random"}

func pick(rng *rand.Rand, xs []int) int { return xs[rng.Intn(len(xs))] }

// baseCfg picks the decoder configuration and the stream family of base case b.
func baseCfg(b int, shapes []fc.Cfg) (cfg fc.Cfg, fam string) {
	f, g := b%10, b/10
	var j, n int
	switch {
	case f <= 5:
		j, n = g*6+f, len(shapes)
		cfg = shapes[j%n]
	case f == 6 || (f == 9 && g%2 == 1):
		j, n = g, 1
		cfg = fc.Cfg{Kind: fc.Varint}
	case f == 7 || f == 8:
		j, n = g*2+f-7, 2*len(fc.Delims)
		cfg = fc.Cfg{Kind: fc.Delim, Delim: fc.Delims[(j%n)/2], StripDelim: j%2 == 0}
	default:
		j, n = g/2, len(fc.FixedSizes)
		cfg = fc.Cfg{Kind: fc.Fixed, Fixed: fc.FixedSizes[j%n]}
		if cfg.Fixed > 300 {
			cfg.Fixed = []int{5, 13}[j%2]
		}
	}
	return cfg, families[(j+j/n)%len(families)]
}

type sub struct {
	name   string // family / header class
	stream []byte
	term   string
	cut    string // cut class
}

func run(c *core.Ctx) {
	nBase := c.Scale(2400, 300000)
	shapes := fc.LFShapes()
	if c.Shard == 0 {
		c.Count("configs_length_field_shapes", int64(len(shapes)))
		c.Count("configs_other", int64(1+2*len(fc.Delims)+len(fc.FixedSizes)))
		c.Count("fragmentation_kinds", int64(len(allPlans)))
		c.Count("terminal_behaviours", int64(len(fc.Terms)))
	}
	for i, n := 0, c.Scale(1600, 80000); i < n; i++ {
		if !c.Mine(i) {
			continue
		}
		id := fmt.Sprintf("pkt%d", i)
		if !c.Case(id) {
			continue
		}
		packetTrial(c, id, i)
	}
	for i, n := 0, c.Scale(800, 40000); i < n; i++ {
		if !c.Mine(i) {
			continue
		}
		id := fmt.Sprintf("varlen%d", i)
		if !c.Case(id) {
			continue
		}
		varlenTrial(c, id, i)
	}
	for i, n := 0, c.Scale(800, 40000); i < n; i++ {
		if !c.Mine(i) {
			continue
		}
		id := fmt.Sprintf("stacked%d", i)
		if !c.Case(id) {
			continue
		}
		stackedTrial(c, id, i)
	}
	for b := 0; b < nBase; b++ {
		if !c.Mine(b) {
			continue
		}
		rng := c.Rand("base", b)
		cfg, fam := baseCfg(b, shapes)
		subs := build(c, rng, &cfg, fam)
		c.Count("base_streams", 1)
		for k, s := range subs {
			id := fmt.Sprintf("b%d/%d", b, k)
			if !c.Case(id) {
				continue
			}
			trial(c, id, cfg, s, c.Rand("trial", b, k), b+k)
		}
	}
}

// ---- stream generation -----------------------------------------------------

func validFrames(rng *rand.Rand, cfg fc.Cfg, k int, lens []int) []byte {
	var out []byte
	for i := 0; i < k; i++ {
		w, ok := cfg.RandFrame(rng, pick(rng, lens))
		if !ok {
			w, ok = cfg.RandFrame(rng, 0)
		}
		if ok {
			out = append(out, w...)
		}
	}
	return out
}

// setMax chooses a small maximum that still admits the minimal frame.
func setMax(rng *rand.Rand, cfg *fc.Cfg) {
	lo, _ := cfg.BodyRange()
	switch cfg.Kind {
	case fc.LF:
		cfg.Max = cfg.Hdr() + lo + pick(rng, []int{6, 16, 40, 100})
		if cfg.Strip > cfg.Max {
			cfg.Max = cfg.Strip
		}
	case fc.Varint:
		cfg.Max = pick(rng, []int{1, 7, 40, 127, 128, 300})
	case fc.Delim:
		cfg.Max = len(cfg.Delim) + pick(rng, []int{0, 1, 8, 40, 100})
	}
}

func cutClass(cfg fc.Cfg, s []byte) string {
	_, tail := fc.RefDecode(cfg, s)
	switch tail.Kind {
	case fc.TailEnd:
		if len(s) == 0 {
			return "empty"
		}
		return "at-boundary"
	case fc.TailTruncHdr:
		if cfg.Kind == fc.Delim {
			d := []byte(cfg.Delim)
			for k := len(d) - 1; k > 0; k-- {
				if bytes.HasSuffix(s, d[:k]) {
					return "inside-delimiter"
				}
			}
			return "before-delimiter"
		}
		return "inside-header"
	case fc.TailTruncBody:
		if tail.HdrEnd == len(s) {
			return "after-header"
		}
		if int64(len(s)-tail.At) == tail.Declared-1 {
			return "last-body-byte-missing"
		}
		return "inside-body"
	}
	return "invalid:" + tail.Why
}

func build(c *core.Ctx, rng *rand.Rand, cfg *fc.Cfg, fam string) (subs []sub) {
	setMax(rng, cfg)
	addTerms := func(name string, s []byte, terms []string) {
		cc := cutClass(*cfg, s)
		for _, t := range terms {
			subs = append(subs, sub{name, s, t, cc})
		}
	}
	limit := c.Scale(64, 96)
	small := []int{0, 1, 2, 3, 5, 8, 13}
	switch fam {
	case "valid-cut":
		var s []byte
		for try := 0; try < 8; try++ {
			s = validFrames(rng, *cfg, 1+rng.Intn(3), small)
			if len(s) > 0 && len(s) <= limit {
				break
			}
			s = validFrames(rng, *cfg, 1, []int{0, 1})
		}
		if len(s) > limit {
			s = s[:limit]
		}
		for cut := 0; cut <= len(s); cut++ {
			addTerms("valid-cut", s[:cut], fc.Terms)
			c.Count("cut_points", 1)
		}
	case "big-cut":
		big := *cfg
		n := pick(rng, []int{1023, 1024, 1025, 4096, 16384, 65535, 65536, 70000})
		switch cfg.Kind {
		case fc.LF:
			_, hi := cfg.BodyRange()
			if n > hi {
				n = hi
			}
			big.Max = n + cfg.Hdr() + rng.Intn(2)
		case fc.Varint:
			big.Max = n + rng.Intn(2)
		case fc.Delim:
			if n > 4096 {
				n = 4096
			}
			big.Max = n + len(cfg.Delim) + rng.Intn(2)
		}
		*cfg = big
		pre := validFrames(rng, *cfg, rng.Intn(2), small)
		w, ok := cfg.RandFrame(rng, n)
		if !ok {
			return nil
		}
		s := append(pre, w...)
		fr, _ := fc.RefDecode(*cfg, s)
		if len(fr) == 0 {
			return nil
		}
		last := fr[len(fr)-1]
		cuts := []int{last.Start, last.Start + 1, last.HdrEnd - 1, last.HdrEnd, last.HdrEnd + 1, (last.HdrEnd + last.End) / 2, last.End - 2, last.End - 1, last.End, last.Start + rng.Intn(last.End-last.Start)}
		seen := map[int]bool{}
		for _, cut := range cuts {
			if cut < 0 || cut > len(s) || seen[cut] {
				continue
			}
			seen[cut] = true
			addTerms("big-cut", s[:cut], []string{fc.Terms[rng.Intn(4)], fc.TermEOF})
			c.Count("cut_points", 1)
		}
	case "adversarial":
		for ai, a := range adversarial(rng, *cfg) {
			pre := validFrames(rng, *cfg, rng.Intn(3), small)
			tails := [][]byte{nil, fc.Bytes(rng, 1+rng.Intn(5)), fc.Bytes(rng, 64+rng.Intn(64))}
			if a.body >= 0 && a.body <= 400 {
				tails[2] = fc.Bytes(rng, a.body)
				if a.body > 0 {
					tails = append(tails, fc.Bytes(rng, a.body-1))
				}
			}
			for ti, t := range tails {
				s := append(append(append([]byte{}, pre...), a.hdr...), t...)
				terms := []string{fc.Terms[(ai+ti)%4]}
				if terms[0] != fc.TermEOF && ti != 1 {
					terms = append(terms, fc.TermEOF)
				}
				addTerms("adv:"+a.name, s, terms)
			}
		}
	case "random":
		for k := 0; k < 40; k++ {
			s := fc.Bytes(rng, rng.Intn(200))
			if k%4 == 0 && cfg.Kind == fc.Delim && len(s) > 4 {
				copy(s[rng.Intn(len(s)-len(cfg.Delim)+1):], cfg.Delim)
			}
			if k%3 == 0 && len(s) > 0 {
				// make short lengths likely so that some frames parse
				for i := range s {
					if rng.Intn(3) == 0 {
						s[i] = byte(rng.Intn(12))
					}
				}
			}
			addTerms("random", s, []string{fc.Terms[k%4]})
		}
	}
	return subs
}

type adv struct {
	name string
	hdr  []byte
	body int // body bytes the header declares when honoured (-1: not applicable)
}

func adversarial(rng *rand.Rand, cfg fc.Cfg) (out []adv) {
	switch cfg.Kind {
	case fc.LF:
		w, hdr := cfg.Width, cfg.Hdr()
		ones := uint64(math.MaxUint64)
		if w < 8 {
			ones = fc.FieldCap(w)
		}
		// v such that total == t
		forTotal := func(t int) (uint64, bool) {
			v := int64(t) - int64(cfg.Adjust) - int64(hdr)
			return uint64(v), v >= 0 && uint64(v) <= ones
		}
		add := func(name string, v uint64) {
			total := int64(v) + int64(cfg.Adjust) + int64(hdr)
			body := -1
			if v <= 1<<20 && total >= int64(hdr) {
				body = int(total) - hdr
			}
			out = append(out, adv{name, append(fc.Bytes(rng, cfg.Offset), fc.PutUint(cfg.Big, w, v)...), body})
		}
		add("all-ones", ones)
		add("top-bit", uint64(1)<<(8*uint(w)-1))
		add("zero", 0)
		if w == 8 {
			add("int64-max", math.MaxInt64)
			add("int64-max-minus-header", uint64(math.MaxInt64-int64(hdr)-int64(cfg.Adjust)))
			add("two-pow-32", 1<<32)
		}
		if w >= 4 {
			add("two-pow-31", 1<<31)
		}
		if v, ok := forTotal(cfg.Max + 1); ok {
			add("max+1", v)
		}
		if v, ok := forTotal(cfg.Max); ok {
			add("max", v)
		}
		if cfg.Adjust < 0 {
			add("below-header", uint64(-cfg.Adjust-1))
			add("below-header-0", 0)
		}
		if cfg.Strip > hdr {
			if v, ok := forTotal(cfg.Strip - 1); ok {
				add("below-strip", v)
			}
			if v, ok := forTotal(cfg.Strip); ok {
				add("equals-strip", v)
			}
		}
		if v, ok := forTotal(hdr + 10); ok {
			add("declared-10", v)
		}
	case fc.Varint:
		rep := func(b byte, n int) []byte { return bytes.Repeat([]byte{b}, n) }
		raw := func(name string, h []byte, body int) { out = append(out, adv{name, h, body}) }
		raw("varint-11-bytes", append(rep(0x80, 10), 0x01), -1)
		raw("varint-10-bytes-overflow", append(rep(0xff, 9), 0x02), -1)
		raw("varint-10-bytes-7f", append(rep(0xff, 9), 0x7f), -1)
		raw("varint-max-uint64", append(rep(0xff, 9), 0x01), -1)
		raw("varint-2^63", append(rep(0x80, 9), 0x01), -1)
		raw("varint-2^62", append(rep(0x80, 8), 0x40), -1)
		raw("varint-2^32", fc.PutUvarint(1<<32), -1)
		raw("varint-2^31", fc.PutUvarint(1<<31), -1)
		raw("max+1", fc.PutUvarint(uint64(cfg.Max+1)), cfg.Max+1)
		raw("max", fc.PutUvarint(uint64(cfg.Max)), cfg.Max)
		raw("non-canonical-zero", []byte{0x80, 0x00}, 0)
		raw("non-canonical-3", []byte{0x83, 0x80, 0x00}, 3)
		raw("unterminated-3", rep(0x80, 3), -1)
		raw("unterminated-9", rep(0xff, 9), -1)
		raw("unterminated-10", rep(0x80, 10), -1)
		raw("declared-10", []byte{10}, 10)
	case fc.Delim:
		d := cfg.Delim
		nod := func(n int) []byte {
			if n < 0 {
				n = 0
			}
			return fc.DelimBody(rng, n, d)
		}
		out = append(out,
			adv{"no-delimiter-max-1", nod(cfg.Max - 1), -1},
			adv{"no-delimiter-max", nod(cfg.Max), -1},
			adv{"no-delimiter-max+1", nod(cfg.Max + 1), -1},
			adv{"no-delimiter-far-beyond", nod(cfg.Max + len(d) + 50), -1},
			adv{"delimiter-just-beyond-max", append(nod(cfg.Max-len(d)+1), d...), -1},
			adv{"delimiter-exactly-at-max", append(nod(cfg.Max-len(d)), d...), -1},
			adv{"body-of-max+1-then-delimiter", append(nod(cfg.Max+1), d...), -1},
			adv{"partial-delimiter", append(nod(3), d[:len(d)-1]...), -1},
			adv{"delimiter-only", []byte(d), -1},
		)
	case fc.Fixed:
		for _, n := range []int{1, cfg.Fixed - 1, cfg.Fixed + 1, 2*cfg.Fixed - 1, 2*cfg.Fixed + 1} {
			if n > 0 {
				out = append(out, adv{fmt.Sprintf("fixed-%+d", n-cfg.Fixed), fc.Bytes(rng, n), -1})
			}
		}
	}
	return out
}

// ---- one trial and its oracle ----------------------------------------------

func trial(c *core.Ctx, id string, cfg fc.Cfg, s sub, rng *rand.Rand, rot int) {
	frames, tail := fc.RefDecode(cfg, s.stream)
	layout := fc.Spans(frames, tail, len(s.stream))
	plan := fc.MakePlan(allPlans[rot%len(allPlans)], rng, len(s.stream), layout, cfg.Kind == fc.Delim)
	plan.Term = s.term
	res := fc.Run(fc.Trial{Cfg: cfg, Stream: s.stream, Plan: plan, ReadBuf: pick(rng, []int{1, 7, 512, 4096, -1})})
	c.Count("streams", 1)
	c.Count("stream_bytes", int64(len(s.stream)))
	c.Count("tails_"+tail.Kind, 1)
	c.Count("term_"+plan.Term, 1)
	c.Count("plan_"+plan.Kind, 1)
	c.Count("decoder_"+cfg.Kind, 1)
	c.Count("exceptions_seen", int64(len(res.Exceptions)))
	c.Count("read_loop_iterations", int64(res.Iters))
	c.Max("max_pulled_per_iteration", res.MaxPull)
	c.Sig(cfg.Shape(), s.name, s.cut, plan.Term, plan.Kind)
	judge(c, id, cfg, s, plan, frames, tail, layout, res)
	if rot%3 == 1 {
		wrappedTrial(c, id, cfg, s, plan, frames, rng)
	}
	if c.WantSample() && rot%211 == 17 {
		c.Sample(map[string]interface{}{"case": id, "config": cfg.String(), "family": s.name, "cut_class": s.cut, "stream": fc.Hex(s.stream, 48),
			"reference_frames": len(frames), "reference_tail": tail.Kind, "plan": plan.Detail(), "messages": len(res.Msgs), "exceptions": fc.ErrStrings(res.Exceptions), "inactive": res.Inactive})
	}
}

func judge(c *core.Ctx, id string, cfg fc.Cfg, s sub, plan fc.Plan, frames []fc.RFrame, tail fc.Tail, layout []fc.Span, res *fc.Result) {
	dec := cfg.Kind
	if res.BuildErr != "" {
		c.Inconclusive(id, "harness: configuration rejected by the constructor: "+cfg.String()+": "+res.BuildErr)
		return
	}
	if res.Watchdog {
		c.Inconclusive(id, "watchdog: trial did not end: "+cfg.String())
		return
	}
	type msgView struct {
		Len            int
		Head           string
		Err            string
		IterIn, OffOut int64
		Phantom        bool
	}
	detail := func(extra map[string]interface{}) map[string]interface{} {
		var mv []msgView
		for i, m := range res.Msgs {
			if i >= 8 {
				break
			}
			v := msgView{Len: len(m.Data), Head: fc.Hex(m.Data, 24), IterIn: m.IterIn, OffOut: m.OffOut, Phantom: m.Phantom}
			if m.Err != nil {
				v.Err = m.Err.Error()
			}
			mv = append(mv, v)
		}
		d := map[string]interface{}{"config": cfg.String(), "family": s.name, "cut_class": s.cut, "stream_len": len(s.stream), "stream_head": fc.Hex(s.stream, 128),
			"plan": plan.Detail(), "reference_frames": len(frames), "reference_tail": tail, "messages": mv, "messages_seen": len(res.Msgs),
			"exceptions": fc.ErrStrings(res.Exceptions), "inactive_events": res.Inactive, "cut_off_by_harness": res.Forced}
		for k, v := range extra {
			d[k] = v
		}
		return d
	}
	where := fmt.Sprintf("%s on %d supplied byte(s) [%s, %s] then %s, fragmentation %s", cfg, len(s.stream), s.name, s.cut, plan.Term, plan.Kind)
	seen := map[string]bool{}
	viol := func(key, msg string, extra map[string]interface{}) {
		if !seen[key] {
			seen[key] = true
			c.Violation(key, id, where+": "+msg, detail(extra))
		}
	}
	zeroAt := func(off int64) bool {
		for _, z := range plan.Zeros {
			if int64(z) == off {
				return true
			}
		}
		return false
	}
	ri := 0
walk:
	for mi, m := range res.Msgs {
		if m.Err != nil {
			c.Count("messages_ending_in_read_error", 1)
			continue
		}
		if m.Phantom {
			switch {
			case dec == fc.Varint && zeroAt(m.OffOut):
				viol("C08:varint-header-misread-on-zero-read", fmt.Sprintf("message #%d: a zero-length read (0, nil) in front of a varint header was taken for the byte 0x00 and an empty frame was delivered without consuming any source byte (offset %d)", mi, m.OffOut), nil)
			case int(m.OffOut) >= len(s.stream):
				viol("C08:eof-delivers-phantom-empty-frame:"+dec, fmt.Sprintf("message #%d: after all %d supplied bytes were consumed the decoder delivered a %d-byte message that consumed no source byte (end of stream delivered as a frame; the harness cut the trial off after %d of them)", mi, len(s.stream), len(m.Data), fc.PhantomLimit), nil)
			default:
				viol("C08:phantom-frame-mid-stream:"+dec, fmt.Sprintf("message #%d (%d bytes) was delivered at offset %d without consuming any source byte", mi, len(m.Data), m.OffOut), nil)
			}
			continue
		}
		if ri < len(frames) {
			f := frames[ri]
			if bytes.Equal(m.Data, f.Out) && int(m.OffOut) == f.End {
				ri++
				c.Count("frames_checked", 1)
				continue
			}
			key := "C08:delivered-frame-differs-from-reference:" + dec
			if dec == fc.Varint && len(plan.Zeros) > 0 && fc.ZeroInHeader(plan, layout, ri) {
				key = "C08:varint-header-misread-on-zero-read"
			}
			viol(key, fmt.Sprintf("message #%d: delivered %d bytes ending at offset %d; the reference frame #%d is %d bytes ending at offset %d", mi, len(m.Data), m.OffOut, ri, len(f.Out), f.End),
				map[string]interface{}{"want_head": fc.Hex(f.Out, 24)})
			break walk
		}
		// a delivered message although the reference has no further complete frame
		switch tail.Kind {
		case fc.TailTruncBody:
			if int(m.OffOut) == len(s.stream) && int(m.IterIn) == tail.At {
				viol("C08:truncated-body-delivered-as-frame:"+dec, fmt.Sprintf("message #%d: the frame starting at offset %d declares %d bytes in total but only %d were supplied; the %d bytes that did arrive were delivered as a complete message (clean end, no error)", mi, tail.At, tail.Declared, len(s.stream)-tail.At, len(m.Data)), nil)
			} else {
				key := "C08:delivered-frame-not-in-reference:" + dec
				if dec == fc.Varint && len(plan.Zeros) > 0 && fc.ZeroInHeader(plan, layout, ri) {
					key = "C08:varint-header-misread-on-zero-read"
				}
				viol(key, fmt.Sprintf("message #%d (%d bytes, offsets %d..%d) does not correspond to any complete frame (reference tail: truncated body at %d)", mi, len(m.Data), m.IterIn, m.OffOut, tail.At), nil)
			}
		case fc.TailTruncHdr:
			key := "C08:truncated-header-delivered-as-frame:" + dec
			if dec == fc.Varint && len(plan.Zeros) > 0 && fc.ZeroInHeader(plan, layout, ri) {
				key = "C08:varint-header-misread-on-zero-read"
			}
			viol(key, fmt.Sprintf("message #%d (%d bytes) was delivered although the stream ended inside the header/delimiter of the frame starting at offset %d", mi, len(m.Data), tail.At), nil)
		case fc.TailReject:
			key := "C08:invalid-length-delivered:" + dec + ":" + tail.Why
			if dec == fc.Varint && len(plan.Zeros) > 0 && fc.ZeroInHeader(plan, layout, ri) {
				key = "C08:varint-header-misread-on-zero-read"
			}
			viol(key, fmt.Sprintf("message #%d (%d bytes) was delivered for the frame at offset %d whose length header is invalid (%s, declared total %d, max %d)", mi, len(m.Data), tail.At, tail.Why, tail.Declared, cfg.Max), nil)
		default:
			viol("C08:frame-delivered-after-end-of-data:"+dec, fmt.Sprintf("message #%d (%d bytes) was delivered although every supplied byte already belonged to an earlier frame", mi, len(m.Data)), nil)
		}
		break walk
	}
	if e := res.RuntimeFault(); e != nil {
		viol("C08:runtime-error-exception:"+dec, fmt.Sprintf("the decoder failed with a runtime fault: %v", e), nil)
	}
	if res.MaxPull > cfg.Bound() {
		viol("C08:frame-read-exceeds-bound:"+dec, fmt.Sprintf("one read-loop iteration pulled %d bytes from the transport; bound is max+header = %d", res.MaxPull, cfg.Bound()), nil)
	}
	switch res.Forced {
	case "spin":
		viol("C08:decoder-spins-without-consuming:"+dec, fmt.Sprintf("%d consecutive read-loop iterations made no transport progress, delivered nothing and raised nothing (harness cut the trial off)", fc.StallLimit), nil)
	case "":
		if res.Inactive == 0 {
			viol("C08:no-inactive-after-end-of-stream:"+dec, "the read loop ended but the channel never became inactive", nil)
		} else {
			c.Count("inactive_after_end_of_stream", 1)
		}
	}
	if len(seen) == 0 {
		c.Count("trials_clean", 1)
	}
}

// wrappedTrial repeats a trial on the library's own read-buffering transport wrappers (tcp Options.ReadBufferSize > 0):
// the decoders then read through bufio, which pulls ahead, so only contents are judged: the delivered messages must be
// a prefix of the reference's complete frames (an exception may end the stream early, nothing else may show up).
func wrappedTrial(c *core.Ctx, id string, cfg fc.Cfg, s sub, plan fc.Plan, frames []fc.RFrame, rng *rand.Rand) {
	wv := [][2]int{{64, 0}, {64, 64}, {16, 0}, {4096, 4096}, {1, 0}}[rng.Intn(5)]
	res := fc.Run(fc.Trial{Cfg: cfg, Stream: s.stream, Plan: plan, ReadBuf: pick(rng, []int{1, 7, 512, -1}), Wrap: &wv, ContentOnly: true, StopAfter: len(frames) + 3})
	if res.BuildErr != "" || res.Watchdog {
		c.Inconclusive(id, "wrapped trial: watchdog or constructor: "+cfg.String())
		return
	}
	c.Count("wrapped_streams", 1)
	where := fmt.Sprintf("%s on NewTransport(conn,%d,%d), %d supplied byte(s) [%s, %s] then %s, fragmentation %s", cfg, wv[0], wv[1], len(s.stream), s.name, s.cut, plan.Term, plan.Kind)
	det := func() map[string]interface{} {
		var ms []string
		for i, m := range res.Msgs {
			if i < 8 {
				ms = append(ms, fmt.Sprintf("%s err=%v", fc.Hex(m.Data, 24), m.Err))
			}
		}
		return map[string]interface{}{"config": cfg.String(), "wrapper": wv, "stream_head": fc.Hex(s.stream, 128), "plan": plan.Detail(), "messages": ms,
			"reference_frames": len(frames), "exceptions": fc.ErrStrings(res.Exceptions)}
	}
	i := 0
	for _, m := range res.Msgs {
		if m.Err != nil {
			continue
		}
		switch {
		case i >= len(frames):
			c.Violation("C08:wrapped-transport:message-beyond-complete-frames:"+cfg.Kind, id, fmt.Sprintf("%s: a %d-byte message was delivered although the stream holds only %d complete frame(s) (end of stream / truncated frame delivered as a message)", where, len(m.Data), len(frames)), det())
			return
		case !bytes.Equal(m.Data, frames[i].Out):
			c.Violation("C08:wrapped-transport:delivered-frame-differs-from-reference:"+cfg.Kind, id, fmt.Sprintf("%s: message #%d (%d bytes) differs from reference frame #%d (%d bytes)", where, i, len(m.Data), i, len(frames[i].Out)), det())
			return
		}
		i++
		c.Count("wrapped_frames_checked", 1)
	}
	if e := res.RuntimeFault(); e != nil {
		c.Violation("C08:runtime-error-exception:"+cfg.Kind, id, fmt.Sprintf("%s: the decoder failed with a runtime fault: %v", where, e), det())
	}
	if res.Forced == "" && res.Inactive == 0 {
		c.Violation("C08:no-inactive-after-end-of-stream:"+cfg.Kind, id, where+": the read loop ended but the channel never became inactive", det())
	}
}
