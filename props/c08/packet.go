package c08

import (
	"encoding/binary"
	"errors"
	"fmt"
	"io"
	"math/rand"
	"sync"
	"time"

	netty "github.com/go-netty/go-netty"
	"github.com/go-netty/go-netty/codec/frame"

	"verif/core"
	"verif/mon"
)

// Packet mode (transport/transport.go: "PacketCodec -> [FrameCodec -> MessageCodec]"): every transport read
// sequence up to an io.EOF is one packet. PacketCodec keeps one buffer across packets; a packet that ends in an
// exception (the read fails half-way, or the frame decoder behind it rejects the packet before draining it) must
// leave nothing behind: the next packet is decoded on its own.

type pktTimeout struct{}

func (pktTimeout) Error() string   { return "c08 packet read: i/o timeout" }
func (pktTimeout) Timeout() bool   { return true }
func (pktTimeout) Temporary() bool { return true }

// pktSink is the handler behind the codecs: it reads every delivered message to its end.
type pktSink struct {
	mu   sync.Mutex
	msgs [][]byte
	excs []error
}

func (s *pktSink) HandleRead(ctx netty.InboundContext, message netty.Message) {
	var data []byte
	switch m := message.(type) {
	case []byte:
		data = m // a decoder may hand out the frame bytes directly
	case io.Reader:
		var err error
		if data, err = io.ReadAll(m); err != nil {
			panic(err) // a frame whose reader fails before its end is not a delivered frame
		}
	default:
		panic(fmt.Errorf("c08 packet sink: %T is neither bytes nor a reader", message))
	}
	s.mu.Lock()
	s.msgs = append(s.msgs, append([]byte{}, data...))
	s.mu.Unlock()
}

// HandleException consumes (the application logs and goes on: the channel stays open for the next packet).
func (s *pktSink) HandleException(ctx netty.ExceptionContext, ex netty.Exception) {
	s.mu.Lock()
	s.excs = append(s.excs, ex)
	s.mu.Unlock()
}

type pkt struct {
	kind    string // valid | cut (read error half-way) | rejected (inner decoder refuses before draining) | short (inner frame longer than the packet)
	wire    []byte
	payload []byte
}

func packetTrial(c *core.Ctx, id string, idx int) {
	rng := c.Rand("packet", idx)
	inner := []string{"none", "length-field", "length-field-keep-header", "delimiter", "varint"}[idx%5]
	const max = 48
	handlers := []netty.Handler{frame.PacketCodec([]int{0, 8, 64, 1024}[rng.Intn(4)])}
	switch inner {
	case "length-field":
		handlers = append(handlers, frame.LengthFieldCodec(binary.BigEndian, max, 0, 2, 0, 2))
	case "length-field-keep-header":
		handlers = append(handlers, frame.LengthFieldCodec(binary.BigEndian, max, 0, 2, 0, 0))
	case "delimiter":
		handlers = append(handlers, frame.DelimiterCodec(max, "\n", true))
	case "varint":
		handlers = append(handlers, frame.VarintLengthFieldCodec(max))
	}
	sink := &pktSink{}
	handlers = append(handlers, sink)
	tr := mon.NewRecTransport()
	k := 2 + rng.Intn(6)
	var pkts []pkt
	body := func(n int) []byte {
		b := make([]byte, n)
		for i := range b {
			b[i] = byte('a' + rng.Intn(26))
		}
		return b
	}
	var want [][]byte
	bad := 0
	for i := 0; i < k; i++ {
		p := pkt{kind: "valid", payload: body(1 + rng.Intn(20))}
		switch x := rng.Intn(10); {
		case x < 3:
			p.kind = "cut"
		case x < 5 && (inner == "length-field" || inner == "length-field-keep-header" || inner == "varint"):
			p.kind = "rejected"
		case x < 7 && (inner == "length-field" || inner == "length-field-keep-header" || inner == "varint"):
			p.kind = "short"
		}
		if i == k-1 {
			p.kind = "valid" // the last packet shows what the earlier ones left behind
		}
		switch inner {
		case "none":
			p.wire = p.payload
		case "delimiter":
			p.wire = append(append([]byte{}, p.payload...), '\n')
		case "varint":
			n := len(p.payload)
			switch p.kind {
			case "rejected":
				n = max + 1 + rng.Intn(1000)
			case "short":
				n = len(p.payload) + 1 + rng.Intn(5)
			}
			p.wire = append(binary.AppendUvarint(nil, uint64(n)), p.payload...)
		default:
			n := len(p.payload)
			switch p.kind {
			case "rejected":
				n = max + 1 + rng.Intn(1000) // declared length above the maximum: refused before the body is touched
			case "short":
				n = len(p.payload) + 1 + rng.Intn(5)
			}
			p.wire = append([]byte{byte(n >> 8), byte(n)}, p.payload...)
		}
		exp := p.payload
		if inner == "length-field-keep-header" {
			exp = p.wire
		}
		// feed: fragments, the last one carrying (or followed by) io.EOF = end of the packet
		w := p.wire
		if p.kind == "cut" {
			w = w[:rng.Intn(len(w))] // a prefix arrives (possibly nothing), then the read fails
		}
		var steps []mon.ReadStep
		for len(w) > 0 {
			n := 1 + rng.Intn(len(w))
			steps = append(steps, mon.ReadStep{Data: w[:n]})
			w = w[n:]
		}
		switch {
		case p.kind == "cut":
			var rerr error = pktTimeout{}
			if rng.Intn(2) == 0 {
				rerr = errors.New("c08 packet read: checksum mismatch")
			}
			steps = append(steps, mon.ReadStep{WithErr: rerr})
		case len(steps) > 0 && rng.Intn(2) == 0:
			steps[len(steps)-1].WithErr = io.EOF
		default:
			steps = append(steps, mon.ReadStep{WithErr: io.EOF})
		}
		tr.Feed(steps...)
		if p.kind == "valid" {
			want = append(want, exp)
		} else {
			bad++
		}
		pkts = append(pkts, p)
	}
	rig := mon.NewRig(mon.RigOpts{Mode: mon.Sync, NoPark: true, Tr: tr, Handlers: handlers, QuietTail: true})
	defer rig.Dispose()
	deadline := time.Now().Add(10 * time.Second)
	for !(tr.ScriptExhausted() && tr.InRead() > 0) && !tr.IsClosed() {
		if time.Now().After(deadline) {
			c.Inconclusive(id, "watchdog: packet script not consumed")
			return
		}
		time.Sleep(50 * time.Microsecond)
	}
	c.Count("packet_trials", 1)
	c.Count("packets", int64(k))
	c.Count("packets_ending_in_exception", int64(bad))
	sink.mu.Lock()
	got, excs := sink.msgs, sink.excs
	sink.mu.Unlock()
	kinds := make([]string, len(pkts))
	for i, p := range pkts {
		kinds[i] = p.kind
	}
	c.Sig("packet", inner, fmt.Sprint(kinds))
	det := map[string]interface{}{"inner": inner, "packets": kinds, "delivered": quoteAll(got), "expected": quoteAll(want), "exceptions": fmt.Sprint(excs)}
	where := fmt.Sprintf("PacketCodec -> %s, packets %v", inner, kinds)
	if tr.IsClosed() {
		c.Violation("C08:packet-mode-consumed-exception-closed-channel", id, where+": the channel was closed although every exception was consumed and no read error was fatal", det)
		return
	}
	for i := 0; i < len(got) || i < len(want); i++ {
		switch {
		case i >= len(want):
			c.Violation("C08:packet-mode-phantom-frame", id, fmt.Sprintf("%s: extra message #%d %q delivered; complete packets were %s", where, i, got[i], quoteAll(want)), det)
			return
		case i >= len(got):
			// exceptions are always an allowed outcome for C08; a missing frame is C04's business - but here nothing was
			// wrong with the packet, and what was delivered before it is judged above
			c.Count("packet_frames_missing", 1)
			return
		case string(got[i]) != string(want[i]):
			c.Violation("C08:packet-mode-frame-mixes-packets", id, fmt.Sprintf("%s: message #%d is %q, the complete packet was %q: bytes of a packet that ended in an exception were delivered as part of a later message", where, i, got[i], want[i]), det)
			return
		}
		c.Count("packet_frames_checked", 1)
	}
	if len(excs) < bad {
		c.Violation("C08:packet-mode-bad-packet-without-exception", id, fmt.Sprintf("%s: %d packets were cut/invalid but only %d exceptions were raised", where, bad, len(excs)), det)
	}
}

func quoteAll(bs [][]byte) string {
	s := "["
	for i, b := range bs {
		if i > 0 {
			s += " "
		}
		s += fmt.Sprintf("%q", b)
	}
	return s + "]"
}

var _ = rand.Int

// varlenTrial: VariableLengthCodec(max) delivers what one transport read returned, at most max bytes. For every stream
// and fragmentation: no delivered message is longer than max, the delivered messages concatenate to a prefix of the
// stream (all of it when the stream ended cleanly), and the end of the stream is not delivered as a message.
func varlenTrial(c *core.Ctx, id string, idx int) {
	rng := c.Rand("varlen", idx)
	max := []int{1, 2, 7, 100, 1000, 1024, 1025, 3000}[idx%8]
	stream := make([]byte, rng.Intn(4*max+50))
	for i := range stream {
		stream[i] = byte(rng.Intn(256))
	}
	tr := mon.NewRecTransport()
	// the peer's bytes become available in bursts of any size (also far more than max at once)
	for w := stream; len(w) > 0; {
		n := 1 + rng.Intn(len(w))
		if rng.Intn(3) == 0 && n > max {
			n = 1 + rng.Intn(max)
		}
		tr.Feed(mon.ReadStep{Data: w[:n]})
		w = w[n:]
	}
	term := []error{io.EOF, errors.New("c08 connection reset")}[rng.Intn(2)]
	tr.SetTerminal(term)
	sink := &bytesSink{}
	closer := &closeOnExc{}
	rig := mon.NewRig(mon.RigOpts{Mode: mon.Sync, NoPark: true, Tr: tr, Handlers: []netty.Handler{frame.VariableLengthCodec(max), sink, closer}})
	ok := rig.Ex.WaitOutstanding(0, 10*time.Second)
	rig.Dispose()
	if !ok {
		c.Inconclusive(id, "watchdog: variable-length trial did not end")
		return
	}
	c.Count("variable_length_trials", 1)
	sink.mu.Lock()
	got := sink.msgs
	sink.mu.Unlock()
	c.Sig("varlen", max, len(stream) > max, len(got) > 3)
	var all []byte
	where := fmt.Sprintf("VariableLengthCodec(%d) on a %d-byte stream", max, len(stream))
	for i, m := range got {
		c.Count("variable_length_messages_checked", 1)
		if len(m) > max {
			c.Violation("C08:variable-length-message-exceeds-maximum", id, fmt.Sprintf("%s: message #%d has %d bytes", where, i, len(m)), map[string]interface{}{"max": max, "stream_len": len(stream)})
			return
		}
		if len(m) == 0 {
			c.Violation("C08:variable-length-empty-message", id, fmt.Sprintf("%s: message #%d is empty although no read returned zero bytes (end of stream delivered as a message)", where, i), map[string]interface{}{"max": max, "stream_len": len(stream)})
			return
		}
		all = append(all, m...)
	}
	if len(all) > len(stream) || string(all) != string(stream[:len(all)]) {
		c.Violation("C08:variable-length-messages-differ-from-stream", id, fmt.Sprintf("%s: the %d delivered messages (%d bytes) are not a prefix of the stream", where, len(got), len(all)), map[string]interface{}{"max": max, "stream_len": len(stream)})
	}
}

// bytesSink records delivered byte messages (copied: the codec reuses its buffer); it handles no exceptions.
type bytesSink struct {
	mu   sync.Mutex
	msgs [][]byte
}

func (s *bytesSink) HandleRead(ctx netty.InboundContext, message netty.Message) {
	b, ok := message.([]byte)
	if !ok {
		panic(fmt.Errorf("c08 bytes sink: %T", message))
	}
	s.mu.Lock()
	s.msgs = append(s.msgs, append([]byte{}, b...))
	s.mu.Unlock()
}

// closeOnExc closes the channel on an exception like the built-in tail handler (without printing).
type closeOnExc struct{}

func (closeOnExc) HandleException(ctx netty.ExceptionContext, ex netty.Exception) {
	ctx.Channel().Close(ex)
}

// stackedTrial: two frame decoders stacked (an envelope decoder in front of a record decoder). Every envelope holds either
// exactly one complete record or a record that is longer than what is left of its envelope; the exception of a cut record
// is consumed and the channel stays open. Delivered = the complete records, in order: a record never reaches beyond the
// end of its envelope into the next one.
func stackedTrial(c *core.Ctx, id string, idx int) {
	rng := c.Rand("stacked", idx)
	outer := []string{"varint", "length-field"}[idx%2]
	inner := []string{"fixed4", "length-field-1"}[(idx/2)%2]
	var hs []netty.Handler
	if outer == "varint" {
		hs = append(hs, frame.VarintLengthFieldCodec(64))
	} else {
		hs = append(hs, frame.LengthFieldCodec(binary.BigEndian, 64, 0, 2, 0, 2))
	}
	if inner == "fixed4" {
		hs = append(hs, frame.FixedLengthCodec(4))
	} else {
		hs = append(hs, frame.LengthFieldCodec(binary.BigEndian, 32, 0, 1, 0, 1))
	}
	sink := &pktSink{}
	hs = append(hs, sink)
	var stream []byte
	var want [][]byte
	var kinds []string
	k := 2 + rng.Intn(6)
	for i := 0; i < k; i++ {
		rec := make([]byte, 4)
		for j := range rec {
			rec[j] = byte('A' + rng.Intn(26))
		}
		cut := i < k-1 && rng.Intn(3) == 0
		var env []byte // what the envelope holds
		if inner == "fixed4" {
			env = rec
			if cut {
				env = rec[:rng.Intn(4)]
			}
		} else {
			env = append([]byte{4}, rec...)
			if cut {
				env = env[:1+rng.Intn(4)] // the record header promises 4 bytes, the envelope ends earlier
			}
		}
		if outer == "varint" {
			stream = append(stream, byte(len(env)))
		} else {
			stream = append(stream, 0, byte(len(env)))
		}
		stream = append(stream, env...)
		if cut {
			kinds = append(kinds, "cut")
		} else {
			kinds = append(kinds, "whole")
			want = append(want, rec)
		}
	}
	tr := mon.NewRecTransport()
	for w := stream; len(w) > 0; {
		n := 1 + rng.Intn(len(w))
		tr.Feed(mon.ReadStep{Data: w[:n]})
		w = w[n:]
	}
	rig := mon.NewRig(mon.RigOpts{Mode: mon.Sync, NoPark: true, Tr: tr, Handlers: hs, QuietTail: true})
	defer rig.Dispose()
	for dl := time.Now().Add(10 * time.Second); !(tr.ScriptExhausted() && tr.InRead() > 0) && !tr.IsClosed(); {
		if time.Now().After(dl) {
			c.Inconclusive(id, "watchdog: stacked-decoder script not consumed")
			return
		}
		time.Sleep(50 * time.Microsecond)
	}
	c.Count("stacked_decoder_trials", 1)
	c.Sig("stacked", outer, inner, fmt.Sprint(kinds))
	sink.mu.Lock()
	got := sink.msgs
	sink.mu.Unlock()
	where := fmt.Sprintf("%s envelopes holding %s records, envelopes %v", outer, inner, kinds)
	for i := 0; i < len(got) || i < len(want); i++ {
		switch {
		case i >= len(want):
			c.Violation("C08:stacked-decoders-phantom-frame", id, fmt.Sprintf("%s: extra message #%d %q; complete records were %s", where, i, got[i], quoteAll(want)), nil)
			return
		case i >= len(got):
			c.Count("stacked_frames_missing", 1)
			return
		case string(got[i]) != string(want[i]):
			c.Violation("C08:stacked-decoders-record-crosses-its-envelope", id, fmt.Sprintf("%s: message #%d is %q, the complete record was %q: a record cut short by the end of its envelope was completed with bytes of the next envelope", where, i, got[i], want[i]), nil)
			return
		}
		c.Count("stacked_frames_checked", 1)
	}
}
