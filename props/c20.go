package props

import (
	"context"
	"fmt"
	"io"
	"sync"
	"sync/atomic"
	"time"

	netty "github.com/go-netty/go-netty"

	"verif/core"
	"verif/mon"
)

func init() {
	core.Register(&core.Prop{
		ID:               "C20",
		Level:            "exploration",
		CrashIsViolation: true,
		Rule: "real time, idle = 1 s (the minimum the constructors allow; thorough also 2 s): hundreds of channels in parallel, each with a read-idle or write-idle handler between recording probes and a seeded script: traffic with gaps of 50 ms, 300 ms, idle-d and idle+d (d in 5..200 ms), 4.2 s of silence, then inactive at a random phase (also exactly at expiry), then a silent observation window; some event handlers panic. " +
			"Monotonic-clock events: feed/entry instant L and exit X of every passage (probe placed before the handler), the callback's check instant c (hook under the handler's own read lock), event E (paired with c by goroutine), activation A, downstream inactive I. " +
			"Oracle: for every idle event c-A >= idle and c-max{L of passages with X<c} >= idle; no event from a callback whose check instant is later than I; fewer than two callbacks with check instant later than I+idle within 2.5 x idle after I; a panicking event handler yields one exception; bounded progress: >= floor((silence-idle-0.75s)/idle) events in the silence (inconclusive if the 10 ms canary timer was ever > 250 ms late). " +
			"distinct_nontrivial = distinct (handler kind, gap pattern, close phase bucket, panic flag, events-in-silence) tuples",
		Assumptions: []string{
			"inequalities are oriented so that measurement error can only hide a violation: the harness's L is <= the handler's own last-passage time, the hook instant c is >= the handler's own 'now'",
			"progress clause depends on wall-clock timers: judged only when the canary shows the machine was responsive",
		},
		Shards:     func(tier string) int { return 4 },
		TimeoutSec: func(tier string) int { return map[bool]int{true: 120, false: 900}[tier != "thorough"] },
		Required:   []string{"idle_events_judged", "callbacks_observed", "channels_closed_and_watched"},
		Run:        runC20,
	})
}

type c20Passage struct {
	L, X time.Time
	P    time.Time // write passages: instant the message reached the probe behind the handler (zero = not yet)
	id   int
}

type c20Chan struct {
	id            string
	read          bool
	idle          time.Duration
	mu            sync.Mutex
	A             time.Time
	passages      []c20Passage
	checks        map[int64]time.Time // last check instant per goroutine
	allCheck      []time.Time
	events        []c20Event
	I             time.Time
	excs          []error
	panicEv       bool
	closeInActive bool
	preCancelled  bool
	farewell      bool
	heartbeat     bool
	feed          func([]byte)
	slowWrite     int32        // >0: the next transport write stalls for that many milliseconds
	slowGate      atomic.Value // chan struct{}: a slow handler in front of the observer holds idle events until it is closed
	stall         atomic.Value // chan struct{}: the background sender's next Writev stalls until it is closed
	stalled       int32
	pendingL      []time.Time // feed instants not yet matched to a passage (reads)
}

type c20Event struct {
	E, C  time.Time
	hasC  bool
	kind  string
	order int
}

// before: placed before the idle handler in the direction of travel.
type c20Before struct{ ch *c20Chan }

func (b *c20Before) HandleActive(ctx netty.ActiveContext) {
	if b.ch.read {
		b.ch.mu.Lock()
		b.ch.A = time.Now()
		b.ch.mu.Unlock()
	}
	ctx.HandleActive()
}

func (b *c20Before) HandleRead(ctx netty.InboundContext, message netty.Message) {
	ctx.HandleRead(message)
	if b.ch.read {
		x := time.Now()
		b.ch.mu.Lock()
		// the passage that just completed delivered the oldest unmatched fed byte
		if len(b.ch.pendingL) > 0 {
			b.ch.passages = append(b.ch.passages, c20Passage{L: b.ch.pendingL[0], X: x})
			b.ch.pendingL = b.ch.pendingL[1:]
		}
		b.ch.mu.Unlock()
	}
}

// HandleWrite: for write-idle channels this probe sits behind the handler in the outbound direction:
// the message has been forwarded past the handler when it arrives here.
func (b *c20Before) HandleWrite(ctx netty.OutboundContext, message netty.Message) {
	if !b.ch.read {
		now := time.Now()
		b.ch.mu.Lock()
		for i := len(b.ch.passages) - 1; i >= 0; i-- {
			if b.ch.passages[i].P.IsZero() && b.ch.passages[i].X.IsZero() {
				b.ch.passages[i].P = now
				break
			}
		}
		b.ch.mu.Unlock()
	}
	ctx.HandleWrite(message)
}

// after: behind the idle handler (inbound direction); for write-idle it is "before" in the outbound direction.
type c20After struct{ ch *c20Chan }

func (a *c20After) HandleActive(ctx netty.ActiveContext) {
	if a.ch.closeInActive && !a.ch.preCancelled {
		// a handler behind the idle handler rejects the connection during activation
		ctx.Close(errSentinel)
	}
	if !a.ch.read {
		// outbound direction: this probe is passed before the write-idle handler; activation reaches the
		// write-idle handler before this probe, so take A from the probe in front for soundness (A <= handler's start)
	}
	ctx.HandleActive()
}

func (a *c20After) HandleWrite(ctx netty.OutboundContext, message netty.Message) {
	idx := -1
	if !a.ch.read {
		a.ch.mu.Lock()
		a.ch.passages = append(a.ch.passages, c20Passage{L: time.Now()})
		idx = len(a.ch.passages) - 1
		a.ch.mu.Unlock()
	}
	ctx.HandleWrite(message)
	if idx >= 0 {
		x := time.Now()
		a.ch.mu.Lock()
		a.ch.passages[idx].X = x
		a.ch.mu.Unlock()
	}
}

func (a *c20After) HandleEvent(ctx netty.EventContext, ev netty.Event) {
	if g, _ := a.ch.slowGate.Load().(chan struct{}); g != nil {
		switch ev.(type) {
		case netty.ReadIdleEvent, netty.WriteIdleEvent:
			<-g // a slow event handler in front of the observer
		}
	}
	now := time.Now()
	kind := ""
	switch ev.(type) {
	case netty.ReadIdleEvent:
		kind = "read"
	case netty.WriteIdleEvent:
		kind = "write"
	default:
		ctx.HandleEvent(ev)
		return
	}
	g := mon.GoID()
	a.ch.mu.Lock()
	cc, ok := a.ch.checks[g]
	a.ch.events = append(a.ch.events, c20Event{E: now, C: cc, hasC: ok, kind: kind, order: len(a.ch.events)})
	doPanic := a.ch.panicEv && len(a.ch.events) == 2
	heartbeat := a.ch.heartbeat
	a.ch.mu.Unlock()
	if heartbeat {
		if a.ch.read {
			// an inbound message arrives while the idle event's handler is still busy
			a.ch.mu.Lock()
			a.ch.pendingL = append(a.ch.pendingL, time.Now())
			a.ch.mu.Unlock()
			a.ch.feed([]byte{'h'})
			time.Sleep(3 * time.Millisecond)
		} else {
			// the usual reaction to a write-idle event: send a heartbeat from the handler
			ctx.Write([]byte("ping"))
		}
	}
	if doPanic {
		panic(fmt.Errorf("c20 event handler panic"))
	}
	ctx.HandleEvent(ev)
}

func (a *c20After) HandleInactive(ctx netty.InactiveContext, ex netty.Exception) {
	a.ch.mu.Lock()
	a.ch.I = time.Now()
	farewell := a.ch.farewell
	a.ch.mu.Unlock()
	if farewell {
		// an application says goodbye from its inactive handler: the message passes the idle handler
		// after the inactive event did, and must not start a new idle period
		func() {
			defer func() { recover() }()
			ctx.Write([]byte("bye"))
		}()
	}
	ctx.HandleInactive(ex)
}

func (a *c20After) HandleException(ctx netty.ExceptionContext, ex netty.Exception) {
	a.ch.mu.Lock()
	a.ch.excs = append(a.ch.excs, ex)
	a.ch.mu.Unlock()
	// consume: the channel stays open
}

type c20Reader struct{}

func (c20Reader) HandleRead(ctx netty.InboundContext, message netty.Message) {
	var b [1]byte
	if _, err := message.(io.Reader).Read(b[:]); err != nil {
		if !ctx.Channel().IsActive() {
			return // the read that was in flight when the channel was closed completes after inactive
		}
		panic(err)
	}
}

var canaryLate int64 // max lateness of the 10 ms canary in microseconds

func runC20(c *core.Ctx) {
	waves := c.Scale(1, 8)
	per := c.Scale(70, 90)
	// canary
	stopCanary := make(chan struct{})
	go func() {
		last := time.Now()
		tk := time.NewTicker(10 * time.Millisecond)
		defer tk.Stop()
		for {
			select {
			case <-stopCanary:
				return
			case now := <-tk.C:
				late := now.Sub(last) - 10*time.Millisecond
				last = now
				if us := late.Microseconds(); us > atomic.LoadInt64(&canaryLate) {
					atomic.StoreInt64(&canaryLate, us)
				}
			}
		}
	}()
	for w := 0; w < waves; w++ {
		atomic.StoreInt64(&canaryLate, 0)
		idle := time.Second
		if w%4 == 3 {
			idle = 2 * time.Second
		}
		var wg sync.WaitGroup
		for i := 0; i < per; i++ {
			idx := w*1000 + i*c.NShards + c.Shard
			id := fmt.Sprintf("w%d/ch%d", w, idx)
			if !c.Case(id) {
				continue
			}
			wg.Add(1)
			go func(id string, idx int) {
				defer wg.Done()
				c20Channel(c, id, idx, idle)
			}(id, idx)
		}
		wg.Wait()
		c.Max("max_canary_late_us", atomic.LoadInt64(&canaryLate))
	}
	close(stopCanary)
}

func c20Channel(c *core.Ctx, id string, idx int, idle time.Duration) {
	rng := c.Rand("chan", idx)
	st := &c20Chan{id: id, read: idx%2 == 0, idle: idle, checks: map[int64]time.Time{}, panicEv: rng.Intn(5) == 0}
	st.closeInActive = idx%10 == 7 || idx%10 == 2
	preCancelled := idx%10 == 6                                   // the channel context ended while the channel was being set up; a holder sits in front
	st.farewell = idx%4 == 1                                      // write-idle channels (odd idx)
	st.heartbeat = idx%5 == 3                                     // both kinds
	slowWriteTrial := !st.read && idx%3 == 0 && !st.closeInActive // sync-mode write-idle channels: one write stalls in the transport across the timer's expiry
	// queued-blocking channels: Close is called while the sender is stalled inside the transport, so the close stays
	// pending (IsActive false, inactive not yet delivered) for more than two idle periods: idleness keeps being reported
	pendingClose := idx%3 == 1 && idx%4 == 2 && !st.closeInActive && !preCancelled
	if pendingClose {
		st.heartbeat = false
	}
	// the handler is built well before the channel becomes active (pipeline prepared ahead of time, slow executor):
	// the idle period still starts at activation
	earlyBuild := idx%6 == 4 && !pendingClose
	// the context the channel was created with ends in the middle of the silence; nobody closes the channel and its read
	// loop is parked in the transport, so the channel stays open (no inactive event) and idleness keeps being reported
	parentEnds := idx%9 == 4 && !pendingClose && !st.closeInActive && !preCancelled
	// an event handler slower than the idle period is still busy with an idle event when the channel goes inactive
	slowTail := idx%7 == 6 && !pendingClose && !st.closeInActive && !preCancelled && !parentEnds
	var parentCancel context.CancelFunc
	if parentEnds {
		st.heartbeat = false // a heartbeat would wake the read loop, which then closes the channel itself
	}
	var h netty.Handler
	if st.read {
		h = netty.ReadIdleHandler(idle)
	} else {
		h = netty.WriteIdleHandler(idle)
	}
	mon.Route(h, func(p netty.VerifPoint) {
		now := time.Now()
		g := mon.GoID()
		st.mu.Lock()
		st.checks[g] = now
		st.allCheck = append(st.allCheck, now)
		st.mu.Unlock()
	})
	defer mon.Unroute(h)
	before, after := &c20Before{st}, &c20After{st}
	if earlyBuild {
		time.Sleep(idle * 7 / 10)
		c.Count("handlers_built_long_before_activation", 1)
	}
	if !st.read {
		// write-idle: A must be <= the handler's own start; take it just before the channel is served
		st.A = time.Now()
	}
	opts := mon.RigOpts{Mode: mon.Mode(idx % 3), Queue: 8, NoPark: true, NoHooks: true,
		Handlers: []netty.Handler{before, h, after, c20Reader{}}}
	if parentEnds {
		opts.Ctx, parentCancel = context.WithCancel(context.Background())
		defer parentCancel()
	}
	if preCancelled {
		pctx, cancel := context.WithCancel(context.Background())
		cancel()
		opts.Ctx = pctx
		opts.Handlers = append([]netty.Handler{netty.NewChannelHolder(1)}, opts.Handlers...)
		st.closeInActive = true // judged like a channel closed during activation: no idle period may be timed afterwards
		st.preCancelled = true
	}
	rig := mon.NewRig(opts)
	defer rig.Dispose()
	st.feed = rig.T.FeedBytes
	rig.T.OnOp = func(kind string, phase int) {
		if kind == mon.OpWrite && phase == 0 {
			if ms := atomic.SwapInt32(&st.slowWrite, 0); ms > 0 {
				time.Sleep(time.Duration(ms) * time.Millisecond)
			}
		}
		if kind == mon.OpWritev && phase == 0 {
			if ch, _ := st.stall.Load().(chan struct{}); ch != nil {
				atomic.StoreInt32(&st.stalled, 1)
				<-ch
			}
		}
	}
	if st.closeInActive {
		// the channel was closed during activation: only watch that no idle period is timed afterwards
		time.Sleep(idle*5/2 + 100*time.Millisecond)
		st.mu.Lock()
		defer st.mu.Unlock()
		c.Count("callbacks_observed", int64(len(st.allCheck)))
		c.Count("channels_closed_during_activation", 1)
		what := fmt.Sprintf("[%s-idle handler, channel closed by a later handler during activation, idle=%v]", map[bool]string{true: "read", false: "write"}[st.read], idle)
		if st.I.IsZero() {
			c.Inconclusive(id, "inactive not observed after close-in-active")
			return
		}
		c.Count("channels_closed_and_watched", 1)
		for _, e := range st.events {
			if e.hasC && e.C.After(st.I) {
				c.Violation("C20:idle-event-after-inactive", id, fmt.Sprintf("an idle event was delivered by a timer callback whose expiry check ran %v after the inactive event had passed the handler %s", e.C.Sub(st.I), what), nil)
				break
			}
		}
		late := 0
		for _, t := range st.allCheck {
			if t.After(st.I.Add(idle)) {
				late++
			}
		}
		if late >= 2 {
			c.Violation("C20:timer-not-released-after-inactive", id, fmt.Sprintf("%d timer callbacks ran more than one idle period after inactive %s", late, what), nil)
		}
		c.Sig("close-in-active", st.read, len(st.allCheck) > 0, st.preCancelled)
		if st.preCancelled {
			c.Count("channels_activated_with_ended_context", 1)
		}
		return
	}
	pass := func() {
		if st.read {
			st.mu.Lock()
			st.pendingL = append(st.pendingL, time.Now())
			st.mu.Unlock()
			rig.T.FeedBytes([]byte{'.'})
		} else {
			rig.Ch.Write([]byte{'.'})
		}
	}
	// phase 1: traffic with interesting gaps
	deltas := []time.Duration{5, 20, 50, 200}
	d := deltas[rng.Intn(len(deltas))] * time.Millisecond
	gaps := []time.Duration{50 * time.Millisecond, 300 * time.Millisecond, idle - d, idle + d, 20 * time.Millisecond}
	pattern := ""
	if earlyBuild {
		// nothing passes the handler for the first half period after activation
		time.Sleep(idle / 2)
		pattern = "E"
	}
	for i := 0; i < 3; i++ {
		g := rng.Intn(len(gaps))
		pattern += fmt.Sprint(g)
		burst := 1 + rng.Intn(3)
		for k := 0; k < burst; k++ {
			pass()
		}
		time.Sleep(gaps[g])
	}
	pass()
	if slowWriteTrial {
		// a write issued late in the idle period stalls in the transport across the timer's expiry:
		// the message has passed the handler, so no idle event may be delivered until a full period after it
		time.Sleep(idle * 7 / 10)
		atomic.StoreInt32(&st.slowWrite, int32(idle.Milliseconds()*7/10))
		pass()
		c.Count("stalled_writes_across_expiry", 1)
		pattern += "S"
	}
	if !st.read && idx%7 == 5 {
		// a write that passes the idle handler and then fails in the head handler (unsupported message type):
		// the exception is consumed, the channel stays open, idleness keeps being reported afterwards
		rig.Ch.Write(struct{ unsupported int }{1})
		c.Count("failed_writes_before_silence", 1)
		pattern += "F"
	}
	// phase 2: silence
	silence := 3*idle + 1200*time.Millisecond
	silenceStart := time.Now()
	if parentEnds {
		time.Sleep(idle / 4)
		parentCancel()
		c.Count("parent_context_ended_during_silence", 1)
		pattern += "P"
		time.Sleep(silence - idle/4)
	} else {
		time.Sleep(silence)
	}
	st.mu.Lock()
	evInSilence := 0
	for _, e := range st.events {
		if e.E.After(silenceStart) {
			evInSilence++
		}
	}
	st.mu.Unlock()
	// phase 3: inactive at a chosen phase relative to the timer, then watch
	phase := []time.Duration{0, idle / 3, idle - 3*time.Millisecond, idle / 2}[rng.Intn(4)]
	// align to the last callback: callbacks come every idle; wait so that Close lands `phase` after one
	st.mu.Lock()
	var lastC time.Time
	if n := len(st.allCheck); n > 0 {
		lastC = st.allCheck[n-1]
	}
	st.mu.Unlock()
	if !lastC.IsZero() {
		target := lastC.Add(idle).Add(phase)
		if wait := time.Until(target); wait > 0 && wait < 2*idle {
			time.Sleep(wait)
		}
	}
	pendingEvents, pendingJudged := 0, false
	if slowTail {
		gate := make(chan struct{})
		st.slowGate.Store(gate)
		st.mu.Lock()
		n0 := len(st.allCheck)
		st.mu.Unlock()
		for i := 0; i < 1500; i++ { // the next callback runs into the slow handler
			st.mu.Lock()
			n := len(st.allCheck)
			st.mu.Unlock()
			if n > n0 {
				break
			}
			time.Sleep(time.Millisecond)
		}
		time.Sleep(idle * 14 / 10) // it stays busy for more than one further idle period
		rig.Ch.Close(errSentinel)
		time.Sleep(50 * time.Millisecond)
		close(gate)
		c.Count("slow_event_handler_across_inactive", 1)
	} else if pendingClose {
		stall := make(chan struct{})
		st.stall.Store(stall)
		rig.Ch.Write([]byte{'.'})
		for i := 0; i < 2000 && atomic.LoadInt32(&st.stalled) == 0; i++ {
			time.Sleep(time.Millisecond)
		}
		closeCall := time.Now()
		closed := make(chan struct{})
		go func() { defer close(closed); rig.Ch.Close(errSentinel) }()
		time.Sleep(2*idle + 800*time.Millisecond)
		st.mu.Lock()
		pendingJudged = atomic.LoadInt32(&st.stalled) == 1 && st.I.IsZero()
		for _, e := range st.events {
			if e.E.After(closeCall) {
				pendingEvents++
			}
		}
		st.mu.Unlock()
		close(stall)
		select {
		case <-closed:
		case <-time.After(10 * time.Second):
			c.Inconclusive(id, "watchdog: pending Close did not complete after the stalled write was released")
			return
		}
	} else {
		rig.Ch.Close(errSentinel)
	}
	watch := idle*5/2 + 100*time.Millisecond
	time.Sleep(watch)
	late := atomic.LoadInt64(&canaryLate)

	// ---- oracle ----
	st.mu.Lock()
	defer st.mu.Unlock()
	viol := func(key, what string) {
		c.Violation("C20:"+key, id, fmt.Sprintf("%s [%s-idle handler idle=%v mode=%s gaps=%s delta=%v]", what, map[bool]string{true: "read", false: "write"}[st.read], idle, mon.Mode(idx%3), pattern, d),
			map[string]interface{}{"events": len(st.events), "callbacks": len(st.allCheck), "passages": len(st.passages)})
	}
	c.Count("callbacks_observed", int64(len(st.allCheck)))
	c.Count("passages", int64(len(st.passages)))
	judged := 0
	for _, e := range st.events {
		if !e.hasC {
			viol("event-without-timer-callback", "an idle event was delivered from a goroutine that did not pass the handler's expiry check")
			continue
		}
		if !st.I.IsZero() && e.C.After(st.I) {
			viol("idle-event-after-inactive", fmt.Sprintf("an idle event was delivered by a timer callback whose expiry check ran %v after the inactive event had passed the handler", e.C.Sub(st.I)))
			continue
		}
		judged++
		if got := e.C.Sub(st.A); got < idle {
			viol("idle-event-before-full-period-since-activation", fmt.Sprintf("idle event only %v after activation", got))
		}
		var lastL time.Time
		for _, p := range st.passages {
			passed := (!p.X.IsZero() && p.X.Before(e.C)) || (!p.P.IsZero() && p.P.Before(e.C))
			if passed && p.L.After(lastL) {
				lastL = p.L
			}
		}
		if !lastL.IsZero() {
			if got := e.C.Sub(lastL); got < idle {
				viol("idle-event-before-full-period-since-last-message", fmt.Sprintf("idle event delivered %v after the last message had passed the handler (idle time %v)", got, idle))
			}
		}
	}
	c.Count("idle_events_judged", int64(judged))
	if !st.I.IsZero() {
		afterI := 0
		for _, e := range st.events {
			if e.hasC && !e.C.After(st.I) && e.E.After(st.I) {
				afterI++
			}
		}
		if afterI > 1 {
			viol("more-than-one-idle-event-after-inactive", fmt.Sprintf("%d idle events reached the handlers behind the idle handler after the inactive event had passed it (their timer callbacks had all passed the expiry check before): more than the one callback that may be in flight", afterI))
		}
	}
	if (st.read && len(st.events) > 0 && st.events[0].kind != "read") || (!st.read && len(st.events) > 0 && st.events[0].kind != "write") {
		viol("wrong-event-kind", "the handler delivered the other handler's event type")
	}
	// after inactive
	if st.I.IsZero() {
		c.Inconclusive(id, "inactive never observed")
	} else {
		c.Count("channels_closed_and_watched", 1)
		lateCallbacks := 0
		for _, t := range st.allCheck {
			if t.After(st.I.Add(idle)) {
				lateCallbacks++
			}
		}
		if lateCallbacks >= 2 {
			viol("timer-not-released-after-inactive", fmt.Sprintf("%d timer callbacks ran more than one idle period after the inactive event had passed the handler: the timer keeps being re-armed", lateCallbacks))
		}
	}
	// panicking event handler
	if st.panicEv && len(st.events) >= 2 {
		c.Count("panicking_event_handlers", 1)
		routed := 0
		for _, e := range st.excs {
			if e != nil && e.Error() == "c20 event handler panic" {
				routed++ // other exceptions (e.g. a heartbeat write failing on a closing channel) are not the subject
			}
		}
		if routed != 1 {
			viol("event-handler-panic-not-routed", fmt.Sprintf("a panic in an idle-event handler was delivered %d times as an exception", routed))
		}
	}
	// bounded progress
	need := int((silence - idle - 750*time.Millisecond) / idle)
	if late > 250000 {
		c.Count("progress_inconclusive_canary_late", 1)
	} else if !st.I.IsZero() && st.I.Before(silenceStart.Add(silence)) {
		c.Count("progress_not_judged_channel_ended_during_silence", 1)
	} else {
		c.Count("progress_judged", 1)
		if evInSilence < need {
			viol("idle-events-stop-while-idleness-persists", fmt.Sprintf("only %d idle events in %v of silence, at least %d required", evInSilence, silence, need))
		}
	}
	if pendingJudged {
		if late > 250000 {
			c.Count("progress_inconclusive_canary_late", 1)
		} else {
			c.Count("pending_close_windows_judged", 1)
			if pendingEvents < 1 {
				viol("idle-events-stop-while-close-is-pending", fmt.Sprintf("Close was pending for %v (the sender stalled inside the transport; the inactive event had not been delivered) and no idle event was delivered in that window although nothing passed the handler", 2*idle+800*time.Millisecond))
			}
		}
	}
	c.Sig(st.read, pattern, phase/(idle/4+1), st.panicEv, evInSilence, st.farewell, st.heartbeat, pendingJudged, earlyBuild)
	if st.heartbeat {
		c.Count("channels_with_message_during_callback", 1)
	}
	if st.farewell && !st.read {
		c.Count("channels_with_farewell_write_after_inactive", 1)
	}
	if c.WantSample() {
		c.Sample(map[string]interface{}{"case": id, "handler": map[bool]string{true: "read-idle", false: "write-idle"}[st.read], "gaps": pattern, "events": len(st.events), "events_in_silence": evInSilence, "callbacks": len(st.allCheck), "close_phase": phase.String()})
	}
}
