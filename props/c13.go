package props

import (
	"context"
	"errors"
	"fmt"
	"runtime"
	"strings"
	"sync"
	"sync/atomic"
	"time"

	netty "github.com/go-netty/go-netty"

	"verif/core"
	"verif/mon"
)

func init() {
	core.Register(&core.Prop{
		ID:    "C13",
		Level: "exploration",
		Rule: "history = k<=3 listeners (Listen+Async), m<=3 client connects, n<=4 injected inbound connections, channel closes, Listener.Close, and one Shutdown, on a mock factory/acceptor with a tracking executor; " +
			"Shutdown is placed at every point by gates: accept-loop action submitted but not started, inside factory.Listen, between Listen and the first Accept, inside the child initializer (connection between accept and activation), during the active event, and with operations running concurrently; " +
			"oracle at the stable state after Shutdown returned and all gates were released: bootstrap context done, every transport ever created closed (once), every channel saw inactive exactly once, every acceptor closed, every Async callback fired (ErrServerClosed unless the listener was closed explicitly), " +
			"no Accept call parked on an open acceptor (definite: nobody can close it any more); distinct_nontrivial = distinct (program shape, gate placement, observed ordering class) tuples",
		Assumptions: []string{
			"bounded progress: the verdict is taken when the executor's outstanding actions equal the accept loops parked on still-open acceptors (a stable state); watchdog expiry is inconclusive",
			"contexts are the bootstrap-derived defaults; Async/Connect calls are issued before or concurrently with Shutdown, never after it returned",
		},
		Shards:     func(tier string) int { return 8 },
		TimeoutSec: func(tier string) int { return map[bool]int{true: 300, false: 2400}[tier != "thorough"] },
		Required:   []string{"listeners_checked", "channels_checked", "shutdown_before_loop_start"},
		Run:        runC13,
	})
}

// c13Exec tracks actions and tags accept loops (submitted from (*listener).Async).
type c13Exec struct {
	mu          sync.Mutex
	submitted   int
	finished    int
	acceptLoops int
	gateLoop    func(n int) // called on the new goroutine before accept loop #n starts
}

func (e *c13Exec) Exec(a netty.Action) {
	isLoop := false
	var pcs [8]uintptr
	n := runtime.Callers(2, pcs[:])
	fr := runtime.CallersFrames(pcs[:n])
	for {
		f, more := fr.Next()
		if strings.HasSuffix(f.Function, "(*listener).Async") {
			isLoop = true
			break
		}
		if !more {
			break
		}
	}
	e.mu.Lock()
	e.submitted++
	loopNo := -1
	if isLoop {
		loopNo = e.acceptLoops
		e.acceptLoops++
	}
	e.mu.Unlock()
	go func() {
		defer func() {
			e.mu.Lock()
			e.finished++
			e.mu.Unlock()
		}()
		if isLoop && e.gateLoop != nil {
			e.gateLoop(loopNo)
		}
		a()
	}()
}

func (e *c13Exec) outstanding() int {
	e.mu.Lock()
	defer e.mu.Unlock()
	return e.submitted - e.finished
}

type c13Probe struct {
	onHandshake func()
	inActive    string
	swallow     bool
	id          int64
	active      int32
	inactive    int32
	gate        func(where string)
	onInactive  func()
	panicInact  bool
}

func (p *c13Probe) HandleActive(ctx netty.ActiveContext) {
	atomic.AddInt32(&p.active, 1)
	if p.gate != nil {
		p.gate("active")
	}
	switch p.inActive {
	case "handshake-read":
		// a handler doing a blocking handshake read during activation: only closing the transport ends it
		if p.onHandshake != nil {
			p.onHandshake()
		}
		var b [1]byte
		ctx.Channel().Transport().Read(b[:])
	case "panic":
		p.swallow = true
		panic(errors.New("active handler failed"))
	}
	ctx.HandleActive()
}

func (p *c13Probe) HandleInactive(ctx netty.InactiveContext, ex netty.Exception) {
	atomic.AddInt32(&p.inactive, 1)
	if p.onInactive != nil {
		p.onInactive()
	}
	if p.panicInact {
		panic(errors.New("inactive handler failed"))
	}
	ctx.HandleInactive(ex)
}

func (p *c13Probe) HandleException(ctx netty.ExceptionContext, ex netty.Exception) {
	if p.swallow {
		return // the application keeps the channel open after its active handler failed
	}
	ctx.Close(ex)
}

type c13Cfg struct {
	listeners  int
	preInject  int // inbound connections established before Shutdown
	preConnect int
	concInject int // issued concurrently with Shutdown
	concConn   int
	closeSome  bool
	lclose     int    // index of a listener closed explicitly before Shutdown (-1 none)
	gate       string // where Shutdown is placed relative to a gated point
	until      string // "shutdownCalled" | "shutdownReturned"
	lateAsync  bool   // one listener's Async is issued concurrently with Shutdown
	acceptErr  bool   // listener 0's accept loop hits an accept error unrelated to closing, before Shutdown
	failWrite  bool   // a client channel suffers a write-side transport failure before Shutdown (on the transport wrapper)
	wrap       *[2]int
	relisten   bool   // listener 0's address was listened on and closed before; the stale handle is closed again
	parent     string // "" = no WithContext; "alive" = WithContext(parent), parent outlives Shutdown; "ended" = the parent context ends right before Shutdown is called
	panicInact bool   // the application's inactive handler fails (panics) on every channel
	idle       bool   // every pipeline starts with a read-idle and a write-idle handler (long periods: they never fire)
	closeErr   bool   // every acceptor's Close reports an error (and closes all the same)
	dupStart   bool   // the application starts listener 0 a second time (Sync on a listener whose accept loop is running: refused)
	syncStall  bool   // channels are synchronous-write channels and one client channel has a write stalled inside its transport when Shutdown runs
}

func (g c13Cfg) String() string {
	return fmt.Sprintf("L=%d preInject=%d preConnect=%d concInject=%d concConnect=%d closeSome=%v lclose=%d gate=%s until=%s lateAsync=%v relisten=%v acceptErr=%v failWrite=%v wrap=%v parentContext=%q inactiveHandlerPanics=%v idleHandlers=%v syncChannelsWithStalledWrite=%v secondStartOfListener0=%v acceptorCloseFails=%v",
		g.listeners, g.preInject, g.preConnect, g.concInject, g.concConn, g.closeSome, g.lclose, g.gate, g.until, g.lateAsync, g.relisten, g.acceptErr, g.failWrite, g.wrap != nil, g.parent, g.panicInact, g.idle, g.syncStall, g.dupStart, g.closeErr)
}

var c13Gates = []string{"none", "loop-start", "in-listen", "before-accept", "child-init", "active", "client-init", "activate-during-closeall", "handshake-read-in-active", "panic-in-active", "late-activation-handshake-read"}

func runC13(c *core.Ctx) {
	total := c.Scale(1600, 30000)
	par := 16
	sem := make(chan struct{}, par)
	var wg sync.WaitGroup
	for idx := 0; idx < total; idx++ {
		if !c.Mine(idx) {
			continue
		}
		if c.Enough() {
			break
		}
		id := fmt.Sprintf("h%d", idx)
		if !c.CaseQuiet(id) {
			continue
		}
		rng := c.Rand("hist", idx)
		cfg := c13Cfg{
			listeners:  1 + rng.Intn(3),
			preInject:  rng.Intn(3),
			preConnect: rng.Intn(3),
			concInject: rng.Intn(3),
			concConn:   rng.Intn(2),
			closeSome:  rng.Intn(3) == 0,
			lclose:     -1,
			gate:       c13Gates[idx%len(c13Gates)],
			until:      []string{"shutdownCalled", "shutdownReturned"}[(idx/len(c13Gates))%2],
			lateAsync:  rng.Intn(4) == 0,
			relisten:   rng.Intn(5) == 0,
			acceptErr:  rng.Intn(6) == 0,
			failWrite:  rng.Intn(4) == 0,
			parent:     []string{"", "", "alive", "ended"}[rng.Intn(4)],
			panicInact: rng.Intn(5) == 0,
			idle:       rng.Intn(3) == 0,
			syncStall:  rng.Intn(8) == 0,
			dupStart:   rng.Intn(6) == 0,
			closeErr:   rng.Intn(5) == 0,
		}
		if rng.Intn(4) == 0 {
			cfg.lclose = rng.Intn(cfg.listeners)
		}
		if rng.Intn(3) == 0 {
			wv := [][2]int{{64, 64}, {4096, 4096}, {0, 64}, {64, 0}, {0, 0}}[rng.Intn(5)]
			cfg.wrap = &wv
		}
		if cfg.acceptErr && (cfg.gate == "loop-start" || cfg.gate == "in-listen" || cfg.gate == "before-accept" || cfg.relisten || cfg.lateAsync) {
			cfg.acceptErr = false
		}
		if cfg.gate == "loop-start" || cfg.gate == "in-listen" || cfg.gate == "before-accept" {
			cfg.preInject = 0 // nothing is accepting before Shutdown in these placements
		}
		if cfg.gate == "late-activation-handshake-read" {
			cfg.listeners, cfg.preInject, cfg.preConnect, cfg.concInject, cfg.concConn = 1, 1, rng.Intn(2), 0, 0
			cfg.closeSome, cfg.lclose, cfg.lateAsync, cfg.until = false, -1, false, "shutdownReturned"
		}
		if cfg.gate == "handshake-read-in-active" {
			cfg.listeners, cfg.preInject, cfg.preConnect, cfg.concInject, cfg.concConn = 1, 1, rng.Intn(2), 0, 0
			cfg.closeSome, cfg.lclose, cfg.lateAsync = false, -1, false
		}
		if cfg.gate == "panic-in-active" {
			cfg.closeSome = false
		}
		if cfg.gate == "activate-during-closeall" {
			cfg.preInject, cfg.preConnect = 1+rng.Intn(2), rng.Intn(2)
			cfg.concInject, cfg.concConn = 1+rng.Intn(2), rng.Intn(2)
			cfg.closeSome, cfg.lclose, cfg.lateAsync = false, -1, false
		}
		sem <- struct{}{}
		wg.Add(1)
		go func(id string, cfg c13Cfg) {
			defer wg.Done()
			defer func() { <-sem }()
			c13Trial(c, id, cfg)
		}(id, cfg)
	}
	wg.Wait()
}

func c13Trial(c *core.Ctx, id string, cfg c13Cfg) {
	s := mon.NewSched(nil)
	const gateT = 300 * time.Millisecond
	gateHit := int32(0)
	lateCount := int32(0)
	wait := func() {
		if s.Await(cfg.until, 1, gateT) {
			atomic.AddInt32(&gateHit, 1)
		}
	}
	f := &mon.MockFactory{Wrap: cfg.wrap}
	if cfg.closeErr {
		f.AcceptorCloseErr = errors.New("mock acceptor: close: unlink failed")
	}
	ex := &c13Exec{}
	var probesMu sync.Mutex
	var probes []*c13Probe
	mkInit := func(kind string) netty.ChannelInitializer {
		return func(ch netty.Channel) {
			p := &c13Probe{id: ch.ID(), panicInact: cfg.panicInact}
			if cfg.gate == "active" {
				p.gate = func(string) { wait() }
			}
			if cfg.gate == "handshake-read-in-active" && kind == "child" {
				p.inActive = "handshake-read"
				p.onHandshake = func() { s.Mark("inHandshake") }
			}
			if cfg.gate == "late-activation-handshake-read" && kind == "child" {
				// the connection is between accept and activation while Shutdown runs completely; it then
				// activates, and one of its active handlers blocks in a handshake read
				p.inActive = "handshake-read"
				s.Mark("inChildInit")
				wait()
			}
			if cfg.gate == "panic-in-active" {
				p.inActive = "panic"
			}
			if cfg.gate == "activate-during-closeall" {
				// an established channel's inactive handler is slow: Shutdown's CloseAll is held inside it
				// until a connection that was between accept and activation has become active
				p.onInactive = func() {
					s.Mark("closingOthers")
					if s.Await("lateActive", 1, gateT) {
						atomic.AddInt32(&gateHit, 1)
					}
				}
				p.gate = func(string) { s.Mark("someActive") }
			}
			probesMu.Lock()
			probes = append(probes, p)
			probesMu.Unlock()
			if cfg.idle {
				ch.Pipeline().AddLast(netty.ReadIdleHandler(time.Minute), netty.WriteIdleHandler(time.Minute))
			}
			ch.Pipeline().AddLast(p, &mon.ParkReader{})
			if (cfg.gate == "child-init" && kind == "child") || (cfg.gate == "client-init" && kind == "client") {
				wait()
			}
			if cfg.gate == "activate-during-closeall" && atomic.AddInt32(&lateCount, 1) > int32(cfg.preInject+cfg.preConnect) {
				// connections arriving later wait (between accept and activation) until CloseAll is busy
				s.Await("closingOthers", 1, gateT)
				p.gate = func(string) { s.Mark("lateActive") }
			}
		}
	}
	switch cfg.gate {
	case "loop-start":
		ex.gateLoop = func(int) { wait() }
	case "in-listen":
		f.OnListen = func(string) error { wait(); return nil }
	case "before-accept":
		var first sync.Map
		f.OnAccept = func(a *mon.MockAcceptor) {
			if _, loaded := first.LoadOrStore(a, true); !loaded {
				wait()
			}
		}
	}
	bopts := []netty.Option{netty.WithTransport(f), netty.WithExecutor(ex),
		netty.WithChildInitializer(mkInit("child")), netty.WithClientInitializer(mkInit("client"))}
	if cfg.syncStall {
		bopts = append(bopts, netty.WithChannel(netty.NewChannel()))
	}
	parentCancel := func() {}
	if cfg.parent != "" {
		var pctx context.Context
		pctx, parentCancel = context.WithCancel(context.Background())
		bopts = append(bopts, netty.WithContext(pctx))
	}
	defer parentCancel()
	bs := netty.NewBootstrap(bopts...)

	type lst struct {
		l        netty.Listener
		cbErr    error
		cbFired  int32
		explicit bool
		async    bool
	}
	ls := make([]*lst, cfg.listeners)
	var stale netty.Listener
	var bg sync.WaitGroup
	async := func(i int) {
		li := ls[i]
		li.async = true
		li.l.Async(func(err error) {
			li.cbErr = err
			atomic.AddInt32(&li.cbFired, 1)
		})
	}
	for i := range ls {
		url := fmt.Sprintf("mock://l%d:%d", i, 1000+i)
		if cfg.relisten && i == 0 {
			// a listener for this address was created and closed earlier; the application listens again
			// and (e.g. in a deferred clean-up) closes the stale handle once more
			stale = bs.Listen(url)
			stale.Close()
		}
		ls[i] = &lst{l: bs.Listen(url)}
	}
	late := -1
	if cfg.lateAsync {
		late = cfg.listeners - 1
	}
	for i := range ls {
		if i != late {
			async(i)
		}
	}
	if stale != nil {
		stale.Close()
	}
	// wait until the (ungated) listeners are accepting, so that pre-Shutdown injects can be accepted
	accepting := func() []*mon.MockAcceptor {
		as, _ := f.Snapshot()
		return as
	}
	if cfg.preInject > 0 {
		deadline := time.Now().Add(2 * time.Second)
		for time.Now().Before(deadline) {
			ok := 0
			for _, a := range accepting() {
				if a.InAccept() > 0 {
					ok++
				}
			}
			if ok > 0 {
				break
			}
			runtime.Gosched()
		}
	}
	var chMu sync.Mutex
	var chans []netty.Channel
	inject := func(k int) {
		as := accepting()
		if len(as) == 0 {
			return
		}
		a := as[k%len(as)]
		bg.Add(1)
		go func() {
			defer bg.Done()
			// give up on the connection if nobody accepts it (e.g. the loop is gated)
			stop := make(chan struct{})
			tm := time.AfterFunc(2*time.Second, func() { close(stop) })
			a.InjectStop(stop)
			tm.Stop()
		}()
	}
	connect := func(k int) {
		bg.Add(1)
		go func() {
			defer bg.Done()
			if ch, err := bs.Connect(fmt.Sprintf("mock://peer:%d", 2000+k)); err == nil {
				chMu.Lock()
				chans = append(chans, ch)
				chMu.Unlock()
			}
		}()
	}
	preGated := cfg.gate == "child-init" || cfg.gate == "active" || cfg.gate == "client-init" || cfg.gate == "handshake-read-in-active" || cfg.gate == "late-activation-handshake-read"
	for k := 0; k < cfg.preInject; k++ {
		inject(k)
	}
	for k := 0; k < cfg.preConnect; k++ {
		connect(k)
	}
	if !preGated {
		bg.Wait() // established before Shutdown
	}
	if cfg.dupStart && late != 0 && cfg.gate != "loop-start" && cfg.gate != "in-listen" && cfg.gate != "before-accept" && !cfg.relisten {
		// once listener 0 is accepting, a second Sync on the same handle is refused (an error, nothing else)
		for dl := time.Now().Add(2 * time.Second); time.Now().Before(dl); {
			started := false
			for _, a := range accepting() {
				if strings.Contains(a.URL, "l0:1000") && a.InAccept() > 0 {
					started = true
				}
			}
			if started {
				bg.Add(1)
				go func() {
					defer bg.Done()
					_ = ls[0].l.Sync()
				}()
				c.Count("second_start_of_a_running_listener", 1)
				break
			}
			runtime.Gosched()
		}
	}
	acceptErrIdx := -1
	if cfg.acceptErr {
		// an accept error that has nothing to do with closing ends listener 0's loop; the listener is still
		// the bootstrap's responsibility: Shutdown must close its acceptor
		for dl := time.Now().Add(2 * time.Second); time.Now().Before(dl); {
			if as := accepting(); len(as) > 0 && as[0].InAccept() > 0 {
				as[0].FailNext(errors.New("accept: too many open files"))
				fmt.Sscanf(as[0].URL, "mock://l%d:", &acceptErrIdx) // acceptors are created in the order the loops start
				break
			}
			runtime.Gosched()
		}
	}
	if cfg.failWrite {
		chMu.Lock()
		if len(chans) > 0 {
			_, ts := f.Snapshot()
			for _, t := range ts {
				t.AddFault(mon.Fault{Kind: mon.OpWrite, K: 0, Err: errors.New("write: connection reset")})
				t.AddFault(mon.Fault{Kind: mon.OpWritev, K: 0, Err: errors.New("write: connection reset")})
			}
			func() {
				defer func() { recover() }()
				chans[0].Write1([]byte("doomed"))
			}()
		}
		chMu.Unlock()
	}
	if cfg.closeSome {
		chMu.Lock()
		if len(chans) > 0 {
			chans[0].Close(errSentinel)
		}
		chMu.Unlock()
	}
	stalled := false
	if cfg.syncStall {
		// a synchronous write stalls inside the transport (peer not reading): only closing the transport ends it
		chMu.Lock()
		var victim netty.Channel
		if n := len(chans); n > 0 && !cfg.closeSome && !cfg.failWrite {
			victim = chans[n-1]
		}
		chMu.Unlock()
		if victim != nil {
			_, ts := f.Snapshot()
			entered := make(chan struct{}, 1)
			for _, t := range ts {
				t := t
				t.OnOp = func(kind string, phase int) {
					if (kind == mon.OpWrite || kind == mon.OpWritev) && phase == 0 {
						select {
						case entered <- struct{}{}:
						default:
						}
						select {
						case <-t.Closed():
						case <-time.After(40 * time.Second):
						}
					}
				}
			}
			bg.Add(1)
			go func() {
				defer bg.Done()
				defer func() { recover() }()
				victim.Write1([]byte("stalled"))
			}()
			select {
			case <-entered:
				stalled = true
				c.Count("shutdown_with_stalled_sync_write", 1)
			case <-time.After(2 * time.Second):
			}
		}
	}
	if cfg.lclose >= 0 && cfg.lclose != late {
		ls[cfg.lclose].explicit = true
		ls[cfg.lclose].l.Close()
	}
	// concurrent operations
	for k := 0; k < cfg.concInject; k++ {
		inject(10 + k)
	}
	for k := 0; k < cfg.concConn; k++ {
		connect(10 + k)
	}
	if late >= 0 {
		bg.Add(1)
		go func() { defer bg.Done(); async(late) }()
		// the Async call itself must precede or overlap Shutdown: wait until it was submitted
		for ex.acceptLoopsSubmitted() < cfg.listeners {
			runtime.Gosched()
		}
	}
	if cfg.gate == "handshake-read-in-active" {
		// the connection must be established (its active handler about to read) before Shutdown starts
		s.Await("inHandshake", 1, 3*time.Second)
	}
	if cfg.gate == "late-activation-handshake-read" {
		// the connection must have been accepted (and sit in its initializer) before Shutdown starts
		s.Await("inChildInit", 1, 3*time.Second)
	}
	if cfg.parent == "ended" {
		// the application's own context ends (deadline, signal) and its clean-up then calls Shutdown
		parentCancel()
		c.Count("shutdown_after_parent_context_ended", 1)
	}
	s.Mark("shutdownCalled")
	shutdownDone := make(chan struct{})
	go func() {
		defer close(shutdownDone)
		defer func() {
			if r := recover(); r != nil {
				c.Count("shutdown_panicked", 1) // judged by what it left behind
			}
		}()
		bs.Shutdown()
	}()
	select {
	case <-shutdownDone:
	case <-time.After(20 * time.Second):
		as, ts := f.Snapshot()
		if stalled && mon.ParkedIn("(*channel).Close", "sync.Mutex.Lock", "semacquire") > 0 {
			c.Violation("C13:shutdown-never-returns-while-a-sync-write-is-stalled", id, "Shutdown did not return within 20 s: a channel's Close is parked on a lock while a synchronous write of that channel is stalled inside its transport, which only that Close would end; the remaining channels are never closed ["+cfg.String()+"]", nil)
		} else {
			c.Inconclusive(id, "watchdog: Shutdown did not return: "+cfg.String())
		}
		s.ReleaseAll()
		for _, a := range as {
			a.Close()
		}
		for _, t := range ts {
			t.Close()
		}
		return
	}
	s.Mark("shutdownReturned")
	s.ReleaseAll()
	bg.Wait()

	// stable state: outstanding actions == accept loops parked on open acceptors
	deadline := time.Now().Add(10 * time.Second)
	stable := false
	parkedOpen := 0
	// parked = accept loops parked on open acceptors + read loops parked in Read on open transports:
	// nothing inside the system can ever wake those (Shutdown has returned, every gate is open).
	parked := func() (int, int) {
		n := 0
		as, ts := f.Snapshot()
		for _, a := range as {
			if !a.IsClosed() {
				n += a.InAccept()
			}
		}
		for _, t := range ts {
			if !t.IsClosed() {
				n += t.InRead()
			}
		}
		return n, len(as) + len(ts)
	}
	for time.Now().Before(deadline) {
		var objs int
		parkedOpen, objs = parked()
		if ex.outstanding() == parkedOpen {
			// confirm (two consecutive observations)
			runtime.Gosched()
			p2, objs2 := parked()
			if ex.outstanding() == p2 && p2 == parkedOpen && objs2 == objs {
				stable = true
				break
			}
		}
		time.Sleep(200 * time.Microsecond)
	}
	as, ts := f.Snapshot()
	cleanup := func() {
		for _, a := range as {
			a.Close()
		}
		for _, t := range ts {
			t.Close()
		}
	}
	if !stable {
		// ten seconds after Shutdown returned and every gate was opened: a transport that is still open with a
		// Read parked in it will never be closed by anything inside the system
		for i, t := range ts {
			if !t.IsClosed() && t.InRead() > 0 {
				key := "C13:channel-left-open"
				if cfg.gate == "late-activation-handshake-read" {
					key = "C13:channel-activated-after-shutdown-blocks-in-active-and-is-never-closed"
				}
				c.Violation(key, id, fmt.Sprintf("transport #%d is still open 10 s after Shutdown returned, with a Read parked in it (an active handler's handshake read or the read loop): the channel was never closed ["+cfg.String()+"]", i), nil)
				cleanup()
				return
			}
		}
		c.Inconclusive(id, fmt.Sprintf("watchdog: no stable state (outstanding=%d parkedOpen=%d) %s", ex.outstanding(), parkedOpen, cfg))
		cleanup()
		return
	}
	viol := func(key, what string) {
		c.Violation("C13:"+key, id, what+" ["+cfg.String()+"]", map[string]interface{}{"cfg": cfg.String(), "acceptors": len(as), "transports": len(ts)})
	}
	if bs.Context().Err() == nil {
		viol("bootstrap-context-not-cancelled", "after Shutdown returned the bootstrap context is not done")
	}
	for i, a := range as {
		c.Count("acceptors_checked", 1)
		if !a.IsClosed() {
			if a.InAccept() > 0 && cfg.relisten && strings.Contains(a.URL, "l0:1000") {
				viol("stale-listener-close-unregisters-relistened-address", fmt.Sprintf("acceptor #%d (%s) is still accepting after Shutdown: a second Close of an earlier, already closed listener for the same address removed the current listener from the bootstrap's registry, so Shutdown never reached it", i, a.URL))
			} else if a.InAccept() > 0 {
				viol("listener-started-after-shutdown-keeps-accepting", fmt.Sprintf("acceptor #%d (%s) is open with an Accept call parked in it after Shutdown returned and every other action finished: the listener is still accepting and nothing can close it", i, a.URL))
			} else {
				viol("acceptor-left-open", fmt.Sprintf("acceptor #%d (%s) was never closed", i, a.URL))
			}
		}
	}
	for i, t := range ts {
		c.Count("transports_checked", 1)
		if !t.IsClosed() {
			viol("channel-left-open", fmt.Sprintf("transport #%d was never closed after Shutdown (read loop parked in Read: %v): the channel stays open without further stimulus", i, t.InRead() > 0))
		} else if n := t.CloseCount(); n != 1 {
			viol("transport-closed-more-than-once", fmt.Sprintf("transport #%d was closed %d times", i, n))
		}
	}
	probesMu.Lock()
	for _, p := range probes {
		c.Count("channels_checked", 1)
		a, in := atomic.LoadInt32(&p.active), atomic.LoadInt32(&p.inactive)
		if in != 1 {
			viol("inactive-count", fmt.Sprintf("channel %d: inactive delivered %d times (active %d) after Shutdown", p.id, in, a))
		}
	}
	probesMu.Unlock()
	for i, li := range ls {
		if !li.async {
			continue
		}
		c.Count("listeners_checked", 1)
		fired := atomic.LoadInt32(&li.cbFired)
		if fired != 1 {
			viol("accept-loop-did-not-end", fmt.Sprintf("listener #%d: Async callback fired %d times after Shutdown (accept loop still running or never run)", i, fired))
			continue
		}
		if i == acceptErrIdx && li.cbErr != nil {
			c.Count("listeners_ended_by_accept_error", 1)
			continue
		}
		if !li.explicit && !errors.Is(li.cbErr, netty.ErrServerClosed) {
			viol("accept-loop-wrong-error", fmt.Sprintf("listener #%d: accept loop ended with %v, want ErrServerClosed", i, li.cbErr))
		}
	}
	hit := atomic.LoadInt32(&gateHit)
	c.Count("gate_"+cfg.gate, 1)
	if hit > 0 {
		c.Count("gates_honoured", int64(hit))
		if cfg.gate == "loop-start" || cfg.gate == "in-listen" || cfg.gate == "before-accept" {
			c.Count("shutdown_before_loop_start", 1)
		}
		if cfg.gate == "child-init" || cfg.gate == "active" || cfg.gate == "client-init" {
			c.Count("shutdown_during_channel_setup", 1)
		}
		if cfg.gate == "activate-during-closeall" {
			c.Count("activation_during_closeall", 1)
		}
	}
	c.Sig(cfg.listeners, cfg.preInject, cfg.preConnect, cfg.concInject, cfg.concConn, cfg.closeSome, cfg.lclose >= 0, cfg.gate, cfg.until, cfg.lateAsync, cfg.relisten, cfg.acceptErr, cfg.failWrite, cfg.wrap != nil, hit > 0, len(ts))
	if c.WantSample() && hit > 0 {
		c.Sample(map[string]interface{}{"history": cfg.String(), "acceptors": len(as), "transports": len(ts), "gates_honoured": hit})
	}
	cleanup()
}

func (e *c13Exec) acceptLoopsSubmitted() int {
	e.mu.Lock()
	defer e.mu.Unlock()
	return e.acceptLoops
}

var _ = context.Background
