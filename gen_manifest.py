#!/usr/bin/env python3
"""Regenerates MANIFEST.json from the table below (dev tool; the manifest is committed)."""
import json, subprocess
CHECKS = {
 # id: (category, technique, text, note, design_ref)
}
def add(id, cat, tech, text, note, ref): CHECKS[id]=(cat,tech,text,note,ref)
exec(open('/verif/manifest_table.py').read())
props=[json.loads(l) for l in open('/verif/properties.jsonl')]
hooks_commits=subprocess.run("git -C /repo log --format=%H --grep='^verif hooks' ",shell=True,capture_output=True,text=True).stdout.split()
m={"version":1,
 "setup_cmd":"./check build race",
 "hooks":{"guard":"verif (Go build tag)","enable":"go build -tags verif (module verif with replace github.com/go-netty/go-netty => /repo, so /repo's working tree is compiled)",
   "baseline_off_cmd":"cd /repo && GOFLAGS=-mod=mod GOPROXY=off GOSUMDB=off GOTOOLCHAIN=local go test -json -vet=off -count=1 -timeout 25m ./...",
   "source_commits":hooks_commits,"add_only":True},
 "engines":[{"name":"vworker","path":"/verif/cmd/vworker","serves_properties":sorted(CHECKS),"kind_free_text":"Go driver+worker: runs the real go-netty code on recording seams (mock transport/executor/acceptor, probe handlers, verif-tag hook points), offline oracles over recorded histories, race detector for C12"}],
 "checks":[], "not_applicable":[],
 "notes":"Technique family: runtime monitoring and sanitizers. Every verdict is 'held on the executions observed' (see DESIGN.md). Exit 2 = inconclusive (infrastructure), never used for a verdict."}
for p in props:
    id=p['id']
    if id in CHECKS:
        cat,tech,text,note,ref=CHECKS[id]
        m["checks"].append({"property_id":id,"quick_cmd":f"./check {id} quick","thorough_cmd":f"./check {id} thorough",
          "evidence_file":f"/verif/evidence/{id}.json","replay_cmd_template":"./check replay {path}","engine":"vworker",
          "level_claimed":{"category":cat,"text":text,"design_ref":ref},"level_note":note,"technique":tech})
    else:
        m["not_applicable"].append({"property_id":id,"reason":"check not built yet in this round (planned: see DESIGN.md section 4."+id+"); nothing is claimed for it until its monitor exists"})
json.dump(m,open('/verif/MANIFEST.json','w'),indent=1)
print(len(m["checks"]),"checks,",len(m["not_applicable"]),"not claimed")
